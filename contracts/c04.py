"""C04 - Sampler results do not depend on worker scheduling or parallelism.

The schedule is modelled where ELFI sees it: `client.is_ready(id)` is an UNINTERPRETED ORACLE (a fresh Boolean per call),
`client.apply` returns a fresh id, `client.get_result(id)` returns EXEC(net) of the net submitted under `id`, `remove_task`
deletes.  A postcondition proved with that oracle holds for every answer sequence.

Abstract view (class World) of one BatchHandler with its client and context:
  pending keys of `_pending_batches` = the contiguous range [lo, hi) in increasing order, ids : index -> task id,
  client side  live : id -> Bool (the domain of the client's task table), net : id -> Net, ovof : id -> override (ghost),
  ghost inverse pidx : id -> index (makes "distinct ids" a one-variable fact), mine : id -> Bool (issued through this handler),
  rm_seq[0:rm_n] the sequence of remove_task arguments.
handler_ok:  0 <= lo <= hi = _next_batch_index  and for lo <= i < hi:  live(ids i), pidx(ids i) = i, net(ids i) = LOADED(i, ovof(ids i)).
Spec functions (uninterpreted, independent of the code): LOADED(i, ov) = load_data(compiled_net, context, i) with the override
ov applied, EXEC(net) = Executor.execute(net), PROPOSAL(epoch, k) = what the k-th prepare_new_batch call after the epoch-th
creation of the SMC round generator returns.

Functions under contract (real bodies): BatchHandler.__init__ / submit / wait_next / cancel_pending / reset / has_ready(any=False) /
next_index / total / num_pending / num_ready / has_pending / pending_indices / compute, ClientBase.submit / compute,
ParameterInference.__init__ / _allow_submit / _has_batches_to_submit / finished / _objective_n_batches / iterate / infer (with the real
base prepare_new_batch and update inlined where they are the callee), native Client.apply / apply_sync / get_result / is_ready /
remove_task / reset / num_cores, SMC.update (with _init_new_round, _set_rejection_round, _update_objective inlined) /
prepare_new_batch / _init_new_round / _set_rejection_round.

The effect functions eff_* are the single statement of each handler contract: the callee contract proves "state after the REAL
body == eff(state before)", the callers (iterate, infer, reset, SMC.update) use the same eff as the stub of the callee.
"""
MANIFEST = {
    'category': 'proof',
    'text': 'With client.is_ready as an unconstrained oracle (fresh Boolean per call = every answer sequence) the real bodies of '
            'BatchHandler.submit / wait_next / cancel_pending / reset / has_ready / compute and its counters are verified against an abstract view '
            '(pending keys = contiguous index range with distinct live task ids holding the net of their index); ParameterInference.iterate is verified for all oracle answers to '
            'perform exactly one update(EXEC(LOADED(i, override_i)), i) with i = number of batches consumed so far, never more than max_parallel_batches outstanding; '
            'infer consumes indices c0, c0+1, ... each once, ends finished with no pending batch and no task of this handler left in the client, and consumes exactly '
            'objective-many batches when update leaves the objective alone; the constructors establish the preconditions (empty handler, max_parallel_batches >= 1); '
            'the native client implements the abstract client contract; SMC.update / prepare_new_batch / '
            '_init_new_round / _set_rejection_round keep the round discipline (proposal of pending batch i = PROPOSAL(epoch, i - round_start); generator re-created only with the '
            'index rewound; cancelled batches never reach update). A schedule-driven ClientBase subclass enumerating all is_ready answer strings and execution orders on the '
            'real Rejection / SMC is the labelled bounded stand-in and replay vehicle.',
    'note': 'Trusted: pyvc engine; OrderedDict proxy (contiguous-range view: insertion order, popitem(last), pop, items, keys); Executor.execute and load_data are pure functions '
            'of their arguments (C02/C03); GMDistribution.rvs is a function of generator state and arguments (C13). The step from "every update call receives a batch that is a '
            'function of (index, sampler state)" to "equal Sample objects" is induction over the consumed sequence (paper step; the bounded stand-in checks it end to end). '
            'NOT decided: multiprocessing / ipyparallel / dask clients satisfy the abstract client contract; real timing; thread safety.',
    'technique': 'deductive: modular contracts with an uninterpreted readiness oracle, loop invariants on the real AST (pyvc), z3/cvc5; bounded: exhaustive schedule trees on the real samplers',
}

import z3

from pyvc.core import cur, forall_range, OutOfSubset
from pyvc.engine import Contract, Loop, NS, make_object, inline, SeqIter
from pyvc.values import SInt, SBool, SKey, Sym, lift, term as T

I, B = z3.IntSort(), z3.BoolSort()
Net = z3.DeclareSort('Net')
Ov = z3.DeclareSort('Ov')
Bat = z3.DeclareSort('Batch')
AII, AIB, AINet, AIOv = z3.ArraySort(I, I), z3.ArraySort(I, B), z3.ArraySort(I, Net), z3.ArraySort(I, Ov)
LOADED = z3.Function('LOADED', I, Ov, Net)          # load_data(compiled_net, context, i) with the override applied
EXEC = z3.Function('EXEC', Net, Bat)                # Executor.execute(net)
NONE_OV = z3.Const('no_override', Ov)
PROPOSAL = z3.Function('PROPOSAL', I, I, Ov)        # (generator epoch, k-th prepare_new_batch call since its creation) -> override

A = z3.And
PI = 'elfi/methods/inference/parameter_inference.py::ParameterInference.'


def forall_id(body):
    """for every task id.  Proof mode: a z3 ForAll; finitised mode: ids are confined to [0, fin_range) (see id_scope)"""
    vc = cur()
    if vc.fin is None:
        v = z3.Int('id@')
        return z3.ForAll([v], body(v))
    return z3.And([body(z3.IntVal(j)) for j in range(0, vc.fin_range)])


def id_scope(x):
    vc = cur()
    if vc.fin is None:
        return z3.BoolVal(True)
    return z3.And(x >= 0, x < vc.fin_range)


def _witness(self, vc, model, ob):
    """finitised counter-model -> the integer part of the view (a loop-head / call-site state, not an input: the replay searches real schedules)"""
    out = {}
    for d in model.decls():
        n = d.name()
        if d.arity() == 0 and n.split('!')[0] in ('lo', 'hi', 'next_index', 'num_submissions', 'max_parallel_batches', 'n_batches', 'objective_n_batches', 'round',
                                                  'objective_round', 'epoch', 'round_start', 'calls', 'task_id', 'next_id', 'rejection_n_batches'):
            out[n] = str(model[d])
    return dict(obligation=ob.kind, state=out)


# ---------------------------------------------------------------------------------------------- the abstract view
VIEW_FIELDS = ('lo', 'hi', 'nxt', 'nsub', 'ids', 'pidx', 'live', 'net', 'ovof', 'mine', 'rm_n', 'rm_seq')


class View:
    """a plain record of the view terms (snapshots; the replay target of the effect functions)"""

    def __init__(self, **kw):
        self.__dict__.update(kw)

    def snap(self):
        return View(**{k: getattr(self, k) for k in VIEW_FIELDS})


class World(View):
    """the LIVE view: lo/hi/ids are what the OrderedDict proxy holds, nxt = handler._next_batch_index and
    nsub = context.num_submissions are read from / written to the stub objects the real code mutates"""

    def __init__(self, vc, tag=''):
        self.vc = vc
        self.lo, self.hi = vc.fresh_int('lo' + tag, size=True), vc.fresh_int('hi' + tag, size=True)
        self.rm_n = vc.fresh_int('rm_n' + tag, size=True)
        self.ids, self.pidx, self.rm_seq = vc.fresh('ids' + tag, AII), vc.fresh('pidx' + tag, AII), vc.fresh('rm_seq' + tag, AII)
        self.live, self.mine = vc.fresh('live' + tag, AIB), vc.fresh('mine' + tag, AIB)
        self.net, self.ovof = vc.fresh('net' + tag, AINet), vc.fresh('ovof' + tag, AIOv)
        self.handler = make_object('HandlerFields', attrs=dict(_next_batch_index=SInt(vc.fresh_int('next_index' + tag, size=True))))
        self.ctx = make_object('ComputationContextStub', attrs=dict(num_submissions=SInt(vc.fresh_int('num_submissions' + tag, size=True))),
                               methods=dict(callback=lambda self_, batch, batch_index: self.log.append(('callback', batch, batch_index))))
        self.compiled = make_object('CompiledNet')
        self.log = []           # python-level event log of THIS path
        self.ov_of = lambda netobj: netobj.ov      # which abstract override a python net object carries (set by the contract)

    nxt = property(lambda self: T(self.handler._next_batch_index), lambda self, v: setattr(self.handler, '_next_batch_index', SInt(v)))
    nsub = property(lambda self: T(self.ctx.num_submissions), lambda self, v: setattr(self.ctx, 'num_submissions', SInt(v)))

    def _vc_havoc(self, name='hv'):
        vc = cur()
        for k in ('lo', 'hi', 'nxt', 'nsub', 'rm_n'):
            setattr(self, k, vc.fresh_int(k + '_' + name, size=True))
        for k, srt in (('ids', AII), ('pidx', AII), ('rm_seq', AII), ('live', AIB), ('mine', AIB), ('net', AINet), ('ovof', AIOv)):
            setattr(self, k, vc.fresh(k + '_' + name, srt))

    def events(self, kind):
        return [e for e in self.log if e[0] == kind]


def pend(V, x):
    """task id x is one of the pending ones"""
    return A(V.lo <= V.pidx[x], V.pidx[x] < V.hi, V.ids[V.pidx[x]] == x)


def handler_ok(V):
    out = [('pending keys are the contiguous range [lo, next_index)', A(0 <= V.lo, V.lo <= V.hi, V.nxt == V.hi)),
           ('pending tasks are live, pairwise distinct (ghost inverse) and hold the net loaded for their index',
            forall_range(V.lo, V.hi, lambda i: A(V.live[V.ids[i]], V.pidx[V.ids[i]] == i, V.net[V.ids[i]] == LOADED(i, V.ovof[V.ids[i]])), 'i'))]
    if cur().fin is not None:
        out.append(('finitised scope of task ids', A(forall_range(V.lo, V.hi, lambda i: id_scope(V.ids[i]), 'i'), V.rm_n >= 0)))
    return out


def facts(named):
    return [f for _, f in named]


def same_view(Wn, E, fields=VIEW_FIELDS, what=''):
    return [('%s%s as specified' % (what, k), getattr(Wn, k) == getattr(E, k)) for k in fields]


# ---- effect functions: THE contracts of the handler operations (V is mutated; fresh ids / oracle values are passed in)
def eff_submit(V, y, ov):
    """appends next ↦ y, the fresh id of LOADED(next, ov); next' = next + 1; num_submissions' = + 1"""
    k = V.nxt
    V.ids, V.pidx = z3.Store(V.ids, k, y), z3.Store(V.pidx, y, k)
    V.live, V.mine = z3.Store(V.live, y, True), z3.Store(V.mine, y, True)
    V.net, V.ovof = z3.Store(V.net, y, LOADED(k, ov)), z3.Store(V.ovof, y, ov)
    V.hi, V.nxt, V.nsub = V.hi + 1, V.nxt + 1, V.nsub + 1


def eff_wait_next(V):
    """pops the SMALLEST key lo; the task leaves the client; -> (EXEC(net of lo), lo)"""
    x = V.ids[V.lo]
    res = (EXEC(V.net[x]), V.lo)
    V.live = z3.Store(V.live, x, False)
    V.lo = V.lo + 1
    return res


def eff_cancel(V):
    """every pending id is passed to remove_task exactly once (newest first) and leaves the client; map empty; next' = lo"""
    i, p = z3.Int('id@c'), z3.Int('p@c')
    n = V.hi - V.lo
    V.live = z3.Lambda([i], A(V.live[i], z3.Not(pend(V, i))))
    V.rm_seq = z3.Lambda([p], z3.If(A(p >= V.rm_n, p < V.rm_n + n), V.ids[V.hi - 1 - (p - V.rm_n)], V.rm_seq[p]))
    V.rm_n = V.rm_n + n
    V.hi = V.lo
    V.nxt = V.lo


def eff_reset(V):
    """cancel_pending, then next' = 0.  The map is empty afterwards, so [0, 0) describes it as well as [lo, lo)"""
    eff_cancel(V)
    V.lo = V.hi = V.nxt = z3.IntVal(0)


def has_ready_value(V, oracle):
    """has_ready(any=False): False when nothing is pending, otherwise the oracle's answer about the OLDEST task"""
    return A(V.hi > V.lo, oracle)


# ---------------------------------------------------------------------------------------------- proxies of library objects
class ODictRange(Sym):
    """collections.OrderedDict whose keys are the contiguous int range [lo, hi) in insertion (= increasing) order.
    Assumed library contract (sanity-tested): d[k] = v on a new key appends at the END, on an existing key keeps the position;
    popitem(last=False) pops the FIRST item, popitem() the LAST; pop(k) removes k; items()/keys()/iteration follow insertion
    order; list(d.items()) is a snapshot.  Operations that would leave the range view raise a `view[...]` obligation."""

    def __init__(self, W):
        self.W = W
        self.t = None

    def _present(self, k):
        return A(self.W.lo <= k, k < self.W.hi)

    def _vc_len(self):
        return SInt(self.W.hi - self.W.lo)

    def __bool__(self):
        return cur().branch(self.W.hi > self.W.lo)

    def __contains__(self, k):
        return cur().branch(self._present(T(k)))

    def __getitem__(self, k):
        k = T(k)
        cur().oblige('call-pre[OrderedDict[key]: key present]', self._present(k))
        return SInt(self.W.ids[k])

    def __setitem__(self, k, v):
        W, vc = self.W, cur()
        k, v = T(k), T(v)
        if vc.branch(self._present(k)):
            W.ids = z3.Store(W.ids, k, v)           # existing key: position kept
        else:
            ok = z3.Or(k == W.hi, W.lo == W.hi)
            vc.oblige('view[a new key is appended at the END of the ordered map: the keys stay a contiguous increasing range]', ok)
            vc.assume(ok)
            W.lo = z3.If(W.lo == W.hi, k, W.lo)
            W.hi = k + 1
            W.ids = z3.Store(W.ids, k, v)
        W.pidx = z3.Store(W.pidx, v, k)              # ghost inverse

    def popitem(self, last=True):
        W, vc = self.W, cur()
        if not isinstance(last, bool):
            raise OutOfSubset('popitem(last=<symbolic>)')
        vc.oblige('call-pre[popitem on a non-empty map]', W.hi > W.lo)
        if last:
            k = W.hi - 1
            W.hi = W.hi - 1
        else:
            k = W.lo
            W.lo = W.lo + 1
        return (SInt(k), SInt(W.ids[k]))

    def pop(self, k, *default):
        W, vc = self.W, cur()
        k = T(k)
        if default:
            raise OutOfSubset('OrderedDict.pop with a default')
        vc.oblige('call-pre[OrderedDict.pop: key present]', self._present(k))
        ok = z3.Or(k == W.lo, k == W.hi - 1)
        vc.oblige('view[removing a key leaves a contiguous range: it is the first or the last key]', ok)
        vc.assume(ok)
        v = W.ids[k]
        if vc.branch(k == W.hi - 1):
            W.hi = W.hi - 1
        else:
            W.lo = W.lo + 1
        return SInt(v)

    def __delitem__(self, k):
        self.pop(k)

    def _seq(self, what):
        W = self.W
        lo, ids = W.lo, W.ids
        elt = {'items': lambda j: (SInt(lo + j), SInt(ids[lo + j])), 'keys': lambda j: SInt(lo + j), 'values': lambda j: SInt(ids[lo + j])}[what]
        return SymSeq(W.hi - W.lo, elt)

    def items(self):
        return self._seq('items')

    def keys(self):
        return self._seq('keys')

    def values(self):
        return self._seq('values')

    def _vc_iter(self):
        return self._seq('keys')._vc_iter()

    def __iter__(self):
        raise OutOfSubset('iteration over the pending map needs a loop contract')


class SymSeq:
    """a sequence of symbolic length in index order (dict view / its list() snapshot / reversed(...))"""

    def __init__(self, n, elt):
        self.n, self.elt = n, elt

    def _vc_len(self):
        return SInt(self.n)

    def _vc_iter(self):
        return SeqIter(self.n, self.elt)

    def _vc_list(self):
        return SymSeq(self.n, self.elt)

    def __reversed__(self):
        n, elt = self.n, self.elt
        return SymSeq(n, lambda j: elt(n - 1 - j))

    def __iter__(self):
        raise OutOfSubset('iteration over a sequence of symbolic length needs a loop contract')


class NetObj:
    """what load_data returns: a graph object whose `nodes` are python dicts (the override loop of submit runs natively on it)"""
    NODES = ('t1', 't2', 'sim', 'd')

    def __init__(self, index):
        self.index = index
        self.ov = NONE_OV
        self.nodes = {k: {'operation': ('operation-of', k)} for k in self.NODES}
        self.graph = {}


def EXECUTE(net):          # marker for Executor.execute (never called: the abstract client only records it)
    raise OutOfSubset('Executor.execute is abstract here')


ExecutorStub = type('Executor', (), {'execute': staticmethod(EXECUTE)})


def abs_client(vc, W):
    """the ABSTRACT client contract of ClientBase on the view (live, net); submit / compute are the REAL ClientBase bodies"""

    def apply(self_, kallable, *args, **kwargs):
        okay = kallable is EXECUTE and len(args) == 1 and not kwargs and isinstance(args[0], NetObj)
        vc.oblige('call-pre[client.apply: the task is Executor.execute(loaded_net)]', z3.BoolVal(okay))
        if not okay:
            raise OutOfSubset('client.apply with something else than Executor.execute(loaded_net)')
        netobj = args[0]
        y = vc.fresh_int('task_id', size=True)
        vc.assume(z3.Not(W.live[y]))                       # a fresh id: not in the client's task table
        W.log.append(('apply', y, netobj, {k: dict(v) for k, v in netobj.nodes.items()}, W.snap()))
        ov = W.ov_of(netobj)
        W.live, W.mine = z3.Store(W.live, y, True), z3.Store(W.mine, y, True)
        W.net, W.ovof = z3.Store(W.net, y, LOADED(netobj.index, ov)), z3.Store(W.ovof, y, ov)
        return SInt(y)

    def apply_sync(self_, kallable, *args, **kwargs):
        okay = kallable is EXECUTE and len(args) == 1 and not kwargs and isinstance(args[0], NetObj)
        vc.oblige('call-pre[client.apply_sync: the task is Executor.execute(loaded_net)]', z3.BoolVal(okay))
        if not okay:
            raise OutOfSubset('client.apply_sync with something else than Executor.execute(loaded_net)')
        W.log.append(('apply_sync', args[0]))
        return SKey(EXEC(LOADED(args[0].index, W.ov_of(args[0]))))

    def get_result(self_, task_id):
        x = T(task_id)
        vc.oblige('call-pre[client.get_result: the task is in the client (each result fetched once, never after remove_task)]', W.live[x])
        W.log.append(('get_result', x, W.snap()))
        r = SKey(EXEC(W.net[x]))
        W.live = z3.Store(W.live, x, False)
        return r

    def is_ready(self_, task_id):
        x = T(task_id)
        vc.oblige('call-pre[client.is_ready: the task is in the client]', W.live[x])
        b = vc.fresh('oracle', B)                          # THE ORACLE: nothing is known about the answer
        W.log.append(('is_ready', x, b))
        return SBool(b)

    def remove_task(self_, task_id):
        x = T(task_id)
        W.log.append(('remove_task', x))
        W.live = z3.Store(W.live, x, False)
        W.rm_seq = z3.Store(W.rm_seq, W.rm_n, x)
        W.rm_n = W.rm_n + 1

    def load_data(self_, compiled_net, context, batch_index):
        vc.oblige('call-pre[load_data receives the handler\'s compiled net and context]', z3.BoolVal(compiled_net is W.compiled and context is W.ctx))
        n = NetObj(T(batch_index))
        W.log.append(('load_data', n.index, n))
        return n

    return make_object('AbstractClient', methods=dict(
        apply=apply, apply_sync=apply_sync, get_result=get_result, is_ready=is_ready, remove_task=remove_task, load_data=load_data,
        submit=inline(vc, 'elfi/client.py::ClientBase.submit'), compute=inline(vc, 'elfi/client.py::ClientBase.compute')),
        properties=dict(num_cores=lambda self_: SInt(vc.fresh_int('num_cores'))))


HANDLER_PROPS = ('next_index', 'total', 'num_ready', 'num_pending', 'has_pending', 'pending_indices', 'num_cores')


def real_handler(vc, W, stubs=None):
    """a BatchHandler `self` whose fields are the view and whose properties are the REAL bodies"""
    props = {p: inline(vc, 'elfi/client.py::BatchHandler.%s' % p) for p in HANDLER_PROPS}
    h = make_object('BatchHandlerUnderContract', properties=props, methods=stubs or {}, bases=(type(W.handler),))
    h.__dict__ = W.handler.__dict__            # the same field storage: World.nxt reads what the real code writes
    W.handler = h
    h._pending_batches = ODictRange(W)
    h.client = abs_client(vc, W)
    h.context = W.ctx
    h.compiled_net = W.compiled
    return h


class HandlerContract(Contract):
    prop = 'C04'
    fin = 4
    fin_range = 6

    def env(self, vc):
        return dict(Executor=ExecutorStub)

    def world(self, vc, stubs=None):
        W = World(vc)
        h = real_handler(vc, W, stubs)
        return W, h

    def requires(self, s):
        return handler_ok(s.W)

    def snapshot(self, s):
        return dict(W=s.W.snap())


# ---------------------------------------------------------------------------------------------- BatchHandler.submit
class Submit(HandlerContract):
    target = 'elfi/client.py::BatchHandler.submit'

    def __init__(self, form):
        self.form = form            # none | empty | overrides
        self.label = form

    def setup(self, vc):
        W, h = self.world(vc)
        s = NS(W=W, h=h)
        if self.form == 'overrides':
            s.ov = z3.Const('given_override', Ov)
            s.v1, s.v2 = make_object('Value1'), make_object('Value2')
            s.batch = {'t1': s.v1, 't2': s.v2}
        else:
            s.ov = NONE_OV
            s.batch = None if self.form == 'none' else {}
        W.ov_of = lambda netobj: s.ov      # DEFINITION of LOADED(i, ov): the net loaded for i with the override `ov` (the abstract value of `batch`) applied
        return s, (h,) + (() if self.form == 'none' else (s.batch,)), {}

    def ensures(self, s, result):
        W, old = s.W, s.old.W
        ap, ld = W.events('apply'), W.events('load_data')
        if len(ap) != 1 or len(ld) != 1:
            return [('exactly one load_data and one client.apply', z3.BoolVal(False))]
        y, netobj, nodes = ap[0][1], ap[0][2], ap[0][3]
        want_nodes = {k: {'operation': ('operation-of', k)} for k in NetObj.NODES}
        if self.form == 'overrides':
            want_nodes['t1'], want_nodes['t2'] = {'output': s.v1}, {'output': s.v2}
        same_nodes = set(nodes) == set(want_nodes) and all(
            set(nodes[k]) == set(want_nodes[k]) and all(nodes[k][a] is want_nodes[k][a] or nodes[k][a] == want_nodes[k][a] for a in nodes[k]) for k in nodes)
        E2 = old.snap()
        eff_submit(E2, y, s.ov)
        return [('the net is loaded for index = next_index', ld[0][1] == old.nxt),
                ('the submitted net is that loaded net with exactly the overrides applied (output set, operation removed), other nodes untouched',
                 z3.BoolVal(netobj is ld[0][2] and same_nodes)),
                ('the task id is fresh', z3.Not(old.live[y]))] + \
            same_view(W, E2, what='submit: ') + \
            [('handler_ok re-established: ' + n, f) for n, f in handler_ok(W)[:2]]


# ---------------------------------------------------------------------------------------------- BatchHandler.wait_next
class WaitNext(HandlerContract):
    target = 'elfi/client.py::BatchHandler.wait_next'

    def setup(self, vc):
        W, h = self.world(vc)
        return NS(W=W, h=h), (h,), {}

    def raises(self, s):
        return {'ValueError': s.old.W.lo == s.old.W.hi}

    def iff_raises(self, s):
        return [('a normal return only if something was pending', s.old.W.lo < s.old.W.hi)]

    def ensures(self, s, result):
        W, old = s.W, s.old.W
        E = old.snap()
        b, i = eff_wait_next(E)
        cb, gr = W.events('callback'), W.events('get_result')
        if not (isinstance(result, tuple) and len(result) == 2):
            return [('returns the pair (batch, batch_index)', z3.BoolVal(False))]
        return [('pops the SMALLEST pending index', T(result[1]) == old.lo),
                ('returns the result of the net submitted for that index', A(T(result[0]) == EXEC(old.net[old.ids[old.lo]]),
                                                                          T(result[0]) == EXEC(LOADED(old.lo, old.ovof[old.ids[old.lo]])))),
                ('get_result is called once, on the task of that index', z3.BoolVal(len(gr) == 1) if len(gr) != 1 else gr[0][1] == old.ids[old.lo]),
                ('context.callback is called exactly once, with (batch, batch_index)',
                 z3.BoolVal(len(cb) == 1 and cb[0][1] is result[0]) if not (len(cb) == 1 and cb[0][1] is result[0]) else T(cb[0][2]) == old.lo)] + \
            same_view(W, E, what='wait_next: ') + [('handler_ok re-established: ' + n, f) for n, f in handler_ok(W)[:2]]


# ---------------------------------------------------------------------------------------------- BatchHandler.cancel_pending
class CancelPending(HandlerContract):
    """loop 0: `for batch_index, id in reversed(list(self._pending_batches.items()))` - j = number of items done"""
    target = 'elfi/client.py::BatchHandler.cancel_pending'

    def setup(self, vc):
        W, h = self.world(vc)
        return NS(W=W, h=h), (h,), {}

    def _inv(self, s, l):
        W, E0, j = s.W, l.entry.W, l.it.index
        E = E0.snap()
        E.lo = E0.hi - j                     # the effect of cancelling the j newest items = eff_cancel on the sub-range [hi0 - j, hi0)
        eff_cancel(E)
        return [('the j newest keys are gone, the next index is rewound to the oldest cancelled', A(W.lo == E0.lo, W.hi == E0.hi - j, W.nxt == E0.hi - j, W.nsub == E0.nsub, W.rm_n == E0.rm_n + j)),
                ('ids, nets, ghost inverse untouched', A(W.ids == E0.ids, W.pidx == E0.pidx, W.net == E0.net, W.ovof == E0.ovof, W.mine == E0.mine)),
                ('exactly the j newest tasks left the client', W.live == E.live),
                ('remove_task was called once for each of them, newest first', W.rm_seq == E.rm_seq)]

    @property
    def loops(self):
        return {0: Loop(inv=self._inv, modifies=lambda s, l: [s.W], snapshot=lambda s, l: dict(W=s.W.snap()))}

    def raises(self, s):
        return {}        # the `Batches are not in order` branch is unreachable under handler_ok

    def ensures(self, s, result):
        W, old = s.W, s.old.W
        E = old.snap()
        eff_cancel(E)
        return same_view(W, E, what='cancel_pending: ') + \
            [('no pending batch is left and the next index is the oldest cancelled one', A(W.hi == W.lo, W.nxt == old.lo)),
             ('every pending task has left the client', forall_range(old.lo, old.hi, lambda i: z3.Not(W.live[old.ids[i]]), 'i')),
             ('every pending id was passed to remove_task exactly once (ids are pairwise distinct)',
              A(W.rm_n == old.rm_n + (old.hi - old.lo), forall_range(0, old.hi - old.lo, lambda k: W.rm_seq[old.rm_n + k] == old.ids[old.hi - 1 - k], 'k'))),
             ('no other task is touched', forall_id(lambda x: z3.Implies(z3.Not(pend(old, x)), W.live[x] == old.live[x])))] + \
            [('handler_ok re-established: ' + n, f) for n, f in handler_ok(W)[:2]]


def stub_cancel(W):
    def cancel_pending(self_):
        cur().libcall('stub:cancel_pending', ())
        for n, f in handler_ok(W)[:2]:
            cur().oblige('call-pre[cancel_pending: handler_ok: %s]' % n, f)
        W.log.append(('cancel_pending', W.snap()))
        eff_cancel(W)
    return cancel_pending


class Reset(HandlerContract):
    target = 'elfi/client.py::BatchHandler.reset'

    def setup(self, vc):
        W = World(vc)
        h = real_handler(vc, W, stubs=dict(cancel_pending=stub_cancel(W)))
        return NS(W=W, h=h), (h,), {}

    def ensures(self, s, result):
        W, old = s.W, s.old.W
        E = old.snap()
        eff_reset(E)
        return [('cancel_pending is called once', z3.BoolVal(len(W.events('cancel_pending')) == 1)),
                ('no pending batch is left, the next index is 0', A(W.hi == W.lo, W.nxt == 0)),
                ('every pending task has left the client', forall_range(old.lo, old.hi, lambda i: z3.Not(W.live[old.ids[i]]), 'i'))] + \
            same_view(W, E, fields=[f for f in VIEW_FIELDS if f not in ('lo', 'hi')], what='reset: ')


# ---------------------------------------------------------------------------------------------- BatchHandler.has_ready
class HasReady(HandlerContract):
    """any=False (the only form used in the tree): loop 0 is left by `return` / `break` in its first iteration"""
    target = 'elfi/client.py::BatchHandler.has_ready'
    label = 'any=False'

    def setup(self, vc):
        W, h = self.world(vc)
        return NS(W=W, h=h), (h,), {}

    loops = {0: Loop(inv=lambda s, l: [('no iteration completes: the loop is left in its first round', l.it.index == 0)])}

    def ensures(self, s, result):
        W, old = s.W, s.old.W
        asked = W.events('is_ready')
        r = T(result)
        if len(asked) == 0:
            out = [('nothing pending: False, without asking the client', A(r == z3.BoolVal(False), old.lo == old.hi))]
        elif len(asked) == 1:
            out = [('otherwise ONE question, about the OLDEST pending task, and its answer is the result',
                    A(asked[0][1] == old.ids[old.lo], r == asked[0][2], r == has_ready_value(old, asked[0][2])))]
        else:
            out = [('at most one question to the client', z3.BoolVal(False))]
        return out + same_view(W, old, what='has_ready changes nothing: ')


# ---------------------------------------------------------------------------------------------- counters, compute
class Counters(HandlerContract):
    def __init__(self, name):
        self.name = name
        self.target = 'elfi/client.py::BatchHandler.%s' % name

    def setup(self, vc):
        W, h = self.world(vc)
        return NS(W=W, h=h), (h,), {}

    def ensures(self, s, result):
        W, old = s.W, s.old.W
        want = dict(next_index=lambda: T(result) == old.nxt, total=lambda: T(result) == old.nxt,
                    num_pending=lambda: T(result) == old.hi - old.lo, num_ready=lambda: T(result) == old.lo,
                    has_pending=lambda: T(result) == (old.hi > old.lo),
                    pending_indices=lambda: A(T(len_of(result)) == old.hi - old.lo, forall_range(0, old.hi - old.lo, lambda k: T(result.elt(k)) == old.lo + k, 'k')))
        return [('%s is what the view says' % self.name, want[self.name]())] + same_view(W, old, what='a counter changes nothing: ')


def len_of(x):
    return x._vc_len()


class Compute(HandlerContract):
    target = 'elfi/client.py::BatchHandler.compute'

    def setup(self, vc):
        W, h = self.world(vc)
        idx = vc.fresh_int('batch_index', size=True)
        return NS(W=W, h=h, idx=idx), (h, SInt(idx)), {}

    def ensures(self, s, result):
        W, old = s.W, s.old.W
        return [('blocking compute returns the result of the net loaded for that index (no override), through apply_sync', T(result) == EXEC(LOADED(s.idx, NONE_OV))),
                ('no task is queued', z3.BoolVal(len(W.events('apply')) == 0 and len(W.events('apply_sync')) == 1))] + same_view(W, old, what='compute changes nothing: ')


# ---------------------------------------------------------------------------------------------- constructors: where the preconditions come from
class HandlerInit(Contract):
    """BatchHandler.__init__ establishes handler_ok with nothing pending and next index 0"""
    target = 'elfi/client.py::BatchHandler.__init__'
    prop = 'C04'
    fin = 4
    fin_range = 6

    def __init__(self, client_given):
        self.client_given = client_given
        self.label = 'client-given' if client_given else 'default-client'

    def setup(self, vc):
        W = World(vc)
        s = NS(W=W, made=[], compiled=[])
        s.default_client, s.given_client = self._client(s, 'default'), self._client(s, 'given')
        s.model = make_object('Model', attrs=dict(source_net=make_object('SourceNet')))
        s.names = make_object('OutputNames')
        s.me = make_object('BatchHandlerFresh')
        self._s = s
        return s, (s.me, s.model, W.ctx), dict(output_names=s.names, client=s.given_client if self.client_given else None)

    def _client(self, s, tag):
        def compile(self_, source_net, outputs=None):
            s.compiled.append((self_, source_net, outputs))
            return s.W.compiled
        return make_object('Client_' + tag, methods=dict(compile=compile))

    def env(self, vc):
        s = self._s

        def OrderedDict():
            s.made.append(1)
            s.W.lo = s.W.hi = z3.IntVal(0)
            return ODictRange(s.W)
        return dict(OrderedDict=OrderedDict, get_client=lambda: s.default_client)

    def ensures(self, s, result):
        me, W = s.me, s.W
        c = s.given_client if self.client_given else s.default_client
        okay = (getattr(me, 'client', None) is c and getattr(me, 'context', None) is W.ctx and getattr(me, 'compiled_net', None) is W.compiled
                and s.compiled == [(c, s.model.source_net, s.names)] and isinstance(getattr(me, '_pending_batches', None), ODictRange) and len(s.made) == 1)
        if not okay:
            return [('the handler stores the given (or the current default) client, the context and the net compiled by that client for the requested outputs; the pending map is a new OrderedDict', z3.BoolVal(False))]
        W.handler = me
        return [('the handler stores the given (or the current default) client, the context and the net compiled by that client for the requested outputs; the pending map is a new OrderedDict', z3.BoolVal(True)),
                ('nothing pending, next index 0: handler_ok', A(W.lo == 0, W.hi == 0, W.nxt == 0))]


class SamplerInit(Contract):
    """ParameterInference.__init__: max_parallel_batches >= 1 on every normal return (the precondition of iterate), a fresh handler, n_batches = 0"""
    target = PI + '__init__'
    prop = 'C04'
    fin = 4

    def __init__(self, given):
        self.given = given
        self.label = 'max_parallel_batches-given' if given else 'max_parallel_batches-default'

    def setup(self, vc):
        s = NS(made=[])
        s.cores = vc.fresh_int('num_cores', size=True)
        s.mp = vc.fresh_int('max_parallel_batches', size=True)
        s.client = make_object('Client', properties=dict(num_cores=lambda self_: SInt(s.cores)))
        s.model_copy = make_object('ModelCopy')
        s.model = make_object('Model', attrs=dict(parameter_names=['t']), methods=dict(copy=lambda self_: s.model_copy))
        s.names = ['d']
        s.me = make_object('SamplerFresh', methods=dict(_check_outputs=lambda self_, names: names))
        self._s = s
        return s, (s.me, s.model, s.names), dict(max_parallel_batches=SInt(s.mp) if self.given else None)

    def env(self, vc):
        s = self._s

        class NodeReference:
            pass

        class ComputationContext:
            def __init__(self_, **kw):
                s.made.append(('context', self_, kw))

        class BatchHandler:
            def __init__(self_, model, **kw):
                s.made.append(('handler', self_, model, kw))

        class ProgressBar:
            def __init__(self_, **kw):
                pass
        elfi = NS(client=NS(get_client=lambda: s.client, BatchHandler=BatchHandler))
        return dict(NodeReference=NodeReference, ComputationContext=ComputationContext, ProgressBar=ProgressBar, elfi=elfi)

    def requires(self, s):
        return [s.cores >= 0]

    def _eff(self, s):
        return z3.If(s.mp != 0, s.mp, s.cores) if self.given else s.cores     # python `or`: a given 0 counts as not given

    def raises(self, s):
        return {'ValueError': self._eff(s) <= 0}

    def iff_raises(self, s):
        return [('a sampler is only constructed with max_parallel_batches >= 1', self._eff(s) >= 1)]

    def ensures(self, s, result):
        me = s.me
        eff = self._eff(s)
        hs = [m for m in s.made if m[0] == 'handler']
        cs = [m for m in s.made if m[0] == 'context']
        okay = len(hs) == 1 and len(cs) == 1 and getattr(me, 'batches', None) is hs[0][1] and hs[0][2] is s.model_copy and hs[0][3].get('context') is cs[0][1] \
            and hs[0][3].get('client') is s.client and hs[0][3].get('output_names') is s.names and me.computation_context is cs[0][1]
        return [('max_parallel_batches is the given value, or the client\'s number of cores, and at least 1', A(T(me.max_parallel_batches) == eff, T(me.max_parallel_batches) >= 1)),
                ('one fresh BatchHandler on the current client, with one fresh context and the copied model', z3.BoolVal(okay)),
                ('no batch consumed yet', A(T(me.state['n_batches']) == 0, T(me.state['n_sim']) == 0))]


# ---------------------------------------------------------------------------------------------- stubs of the handler operations (callers' side)
class OvVal:
    """an opaque override dict returned by prepare_new_batch (its abstract value is the term)"""

    def __init__(self, t):
        self.t = t


def ov_term(batch):
    if batch is None:
        return NONE_OV
    if isinstance(batch, OvVal):
        return batch.t
    raise OutOfSubset('override of type %s' % type(batch).__name__)


def _pre_handler_ok(W, who):
    for n, f in handler_ok(W)[:2]:
        cur().oblige('call-pre[%s: handler_ok: %s]' % (who, n), f)


def _arith_slice(pc):
    """the facts of a path condition that mention neither quantifiers / lambdas nor arrays (counters, bounds, oracle answers)"""
    from pyvc.core import _has_quantifier
    out = []
    for p in pc:
        if _has_quantifier(p):
            continue
        seen, stack, arr = set(), [p], False
        while stack and not arr:
            x = stack.pop()
            if x.get_id() in seen:
                continue
            seen.add(x.get_id())
            if z3.is_array_sort(x):
                arr = True
            stack.extend(x.children())
        if not arr:
            out.append(p)
    return out


def second_call(vc, what):
    """iterate's contract is ONE wait_next and ONE update per call (infer re-checks `finished` between batches).  A second call on
    a path is reported where it happens, over the arithmetic slice of the path condition (a short ground query; the slice is an
    over-approximation, so the refutation counts only with a native replay), and the path ends there: a receive loop driven by
    the oracle would otherwise fork without bound."""
    from pyvc.core import PathEnd
    saved = vc.pc
    vc.pc = _arith_slice(saved)
    try:
        vc.oblige('call-pre[%s: at most one per iterate]' % what, z3.BoolVal(False),
                  tags=('overapprox:arithmetic slice of the path condition (handler facts dropped)',))
    finally:
        vc.pc = saved
    raise PathEnd()


def handler_stubs(W, single_wait=False):
    """submit / wait_next / has_ready / cancel_pending / reset as their contracts (eff_*), proved by the contracts above"""

    def submit(self_, batch=None):
        vc = cur()
        vc.libcall('stub:submit', ())
        _pre_handler_ok(W, 'submit')
        ov = ov_term(batch)
        y = vc.fresh_int('task_id', size=True)
        vc.assume(z3.Not(W.live[y]))
        W.log.append(('submit', y, ov, W.snap()))
        eff_submit(W, y, ov)

    def wait_next(self_):
        vc = cur()
        if single_wait and W.events('wait_next'):
            second_call(vc, 'wait_next')
        vc.libcall('stub:wait_next', ())
        _pre_handler_ok(W, 'wait_next')
        vc.oblige('call-pre[wait_next: a batch is pending (it raises ValueError otherwise)]', W.hi > W.lo)
        W.log.append(('wait_next', W.snap()))
        b, i = eff_wait_next(W)
        return SKey(b), SInt(i)

    def has_ready(self_, any=False):
        vc = cur()
        if any is not False:
            raise OutOfSubset('has_ready(any=True) is not under contract')
        vc.libcall('stub:has_ready', ())
        _pre_handler_ok(W, 'has_ready')
        b = vc.fresh('oracle', B)                      # THE ORACLE
        W.log.append(('has_ready', b))
        return SBool(has_ready_value(W, b))

    def reset(self_):
        cur().libcall('stub:reset', ())
        _pre_handler_ok(W, 'reset')
        W.log.append(('reset', W.snap()))
        eff_reset(W)

    return dict(submit=submit, wait_next=wait_next, has_ready=has_ready, cancel_pending=stub_cancel(W), reset=reset)


# ---------------------------------------------------------------------------------------------- the sampler side


def J(V):
    """every task issued through this handler that is still in the client is a pending one"""
    return forall_id(lambda x: z3.Implies(A(V.mine[x], V.live[x]), pend(V, x)))


def ovd(kind, rnd, epoch, j):
    """the override of the j-th batch of the current generator epoch: a function of the sampler state, NOT of the oracle"""
    if kind == 'rejection':
        return NONE_OV
    return z3.If(rnd == 0, NONE_OV, PROPOSAL(epoch, j))


class Sampler:
    """sampler-side state: the dict entries the real code reads (state['n_batches'], state['round'], objective['n_batches']) and
    the ghost round discipline (generator epoch, round_start = number of batches consumed when it was created, calls =
    prepare_new_batch calls since), plus the ghost sequence of update calls cons_idx/cons_bat[0:cons_n]."""
    INTS = ('nb', 'N', 'rnd', 'epoch', 'rs', 'calls', 'cons_n')

    def __init__(self, vc, kind, M):
        self.kind = kind
        self.M = M
        self.state = {'n_batches': SInt(vc.fresh_int('n_batches', size=True)), 'round': SInt(vc.fresh_int('round', size=True))}
        self.objective = {'n_batches': SInt(vc.fresh_int('objective_n_batches', size=True))}
        self.epoch, self.rs, self.calls = vc.fresh_int('epoch', size=True), vc.fresh_int('round_start', size=True), vc.fresh_int('calls', size=True)
        self.cons_n = vc.fresh_int('cons_n', size=True)
        self.cons_idx, self.cons_bat = vc.fresh('cons_idx', AII), vc.fresh('cons_bat', z3.ArraySort(I, Bat))
        self.log = []

    nb = property(lambda self: T(self.state['n_batches']), lambda self, v: self.state.__setitem__('n_batches', SInt(v)))
    rnd = property(lambda self: T(self.state['round']), lambda self, v: self.state.__setitem__('round', SInt(v)))
    N = property(lambda self: T(self.objective['n_batches']), lambda self, v: self.objective.__setitem__('n_batches', SInt(v)))

    def snap(self):
        return View(**{k: getattr(self, k) for k in self.INTS + ('cons_idx', 'cons_bat')})

    def _vc_havoc(self, name='hv'):
        vc = cur()
        for k in self.INTS:
            setattr(self, k, vc.fresh_int(k + '_' + name, size=True))
        self.cons_idx, self.cons_bat = vc.fresh('cons_idx_' + name, AII), vc.fresh('cons_bat_' + name, z3.ArraySort(I, Bat))


def discipline(kind, V, S):
    """the override of pending batch i is the (i - round_start)-th proposal of the current generator epoch"""
    if kind == 'rejection':
        return [('no overrides', forall_range(V.lo, V.hi, lambda i: V.ovof[V.ids[i]] == NONE_OV, 'i'))]
    return [('prepare_new_batch was called once per index submitted since the generator was created', A(S.calls == V.hi - S.rs, S.rs <= V.lo, S.rnd >= 0)),
            ('pending batch i carries the (i - round_start)-th proposal of the epoch', forall_range(V.lo, V.hi, lambda i: V.ovof[V.ids[i]] == ovd(kind, S.rnd, S.epoch, i - S.rs), 'i'))]


def finished(S):
    return S.N <= S.nb


def iterate_pre(kind, V, S):
    return [('not finished', z3.Not(finished(S))), ('max_parallel_batches >= 1 (checked by the constructor)', S.M >= 1),
            ('no more than max_parallel_batches pending', V.hi - V.lo <= S.M),
            ('the oldest pending index is the number of batches consumed so far', V.lo == S.nb)] + handler_ok(V) + [('J', J(V))] + discipline(kind, V, S)


def iterate_post(kind, V0, S0, V, S, upd):
    """upd = (batch term, index term) of THE update call"""
    out = [('exactly one batch is consumed: the oldest pending index advances by one', A(V.lo == V0.lo + 1, S.nb == S0.nb + 1, V.lo == S.nb)),
           ('update receives index = number of batches consumed so far', upd[1] == S0.nb),
           ('update receives EXEC(LOADED(index, override)) with the override a function of the sampler state (no oracle term)',
            upd[0] == EXEC(LOADED(S0.nb, ovd(kind, S0.rnd, S0.epoch, S0.nb - S0.rs)))),
           ('never more than max_parallel_batches pending', V.hi - V.lo <= S.M),
           ('tasks issued through this handler stay marked', forall_id(lambda x: z3.Implies(V0.mine[x], V.mine[x]))),
           ('J', J(V))] + handler_ok(V)[:2]
    d = discipline(kind, V, S)
    if kind == 'rejection':
        out += d
    else:
        out += [('finished or round discipline: ' + n, z3.Or(finished(S), f)) for n, f in d]
    return out


def update_stub(kind, W, S, static_objective=False, single=False):
    """Rejection.update (C01: BaseUpdate counts the batch, _update_objective_n_batches may move the objective; the handler is not
    touched) / SMC.update (contract SmcUpdate below: additionally, when the round is over, cancel_pending and - unless it was
    the last round - a new generator epoch starting at the number of batches consumed)"""

    def update(self_, batch, batch_index):
        vc = cur()
        if single and [e for e in S.log if e[0] == 'update']:
            second_call(vc, 'update')
        vc.libcall('stub:update', ())
        S.log.append(('update', T(batch), T(batch_index), W.snap(), S.snap()))
        vc.oblige('call-pre[update: batch_index = number of batches consumed so far]', T(batch_index) == S.nb)
        S.nb = S.nb + 1
        if not static_objective:
            S.N = vc.fresh_int('objective_after_update', size=True)
        if kind == 'smc':
            smc_update_effect(vc, W, S)
    return update


def smc_update_effect(vc, W, S):
    if vc.branch(vc.fresh('round_over', B)):
        _pre_handler_ok(W, 'cancel_pending')
        eff_cancel(W)
        if vc.branch(vc.fresh('more_rounds', B)):
            S.rnd, S.epoch, S.rs, S.calls = S.rnd + 1, S.epoch + 1, S.nb, z3.IntVal(0)
        else:
            vc.assume(finished(S))


def prepare_stub(kind, W, S):
    def prepare_new_batch(self_, batch_index):
        vc = cur()
        vc.libcall('stub:prepare_new_batch', ())
        vc.oblige('call-pre[prepare_new_batch: called with the next index to be submitted]', T(batch_index) == W.nxt)
        k = S.calls
        S.calls = S.calls + 1
        S.log.append(('prepare', T(batch_index)))
        if vc.branch(S.rnd == 0):
            return None
        return OvVal(PROPOSAL(S.epoch, k))
    return prepare_new_batch


def sampler_object(vc, kind, W, S, methods):
    m = dict(_allow_submit=inline(vc, PI + '_allow_submit'))
    m.update(methods)
    props = {p: inline(vc, PI + p) for p in ('finished', '_has_batches_to_submit', '_objective_n_batches')}
    o = make_object('SamplerUnderContract', attrs=dict(max_parallel_batches=SInt(S.M), batches=W.handler, batch_size=SInt(vc.fresh_int('batch_size', size=True))),
                    methods=m, properties=props)
    o.state, o.objective = S.state, S.objective
    return o


class SamplerContract(Contract):
    prop = 'C04'
    fin = 4
    fin_range = 7

    def base(self, vc, kind, static_objective=False, single_wait=False):
        W = World(vc)
        real_handler(vc, W, stubs=handler_stubs(W, single_wait))
        M = vc.fresh_int('max_parallel_batches', size=True)
        S = Sampler(vc, kind, M)
        return W, S

    def snapshot(self, s):
        return dict(W=s.W.snap(), S=s.S.snap())


class Iterate(SamplerContract):
    """loop 0: `while self._allow_submit(self.batches.next_index)` - for ALL oracle answers"""
    target = PI + 'iterate'

    def __init__(self, kind):
        self.kind = kind
        self.label = kind

    def setup(self, vc):
        W, S = self.base(vc, self.kind, single_wait=True)
        prep = inline(vc, PI + 'prepare_new_batch') if self.kind == 'rejection' else prepare_stub(self.kind, W, S)
        me = sampler_object(vc, self.kind, W, S, dict(prepare_new_batch=prep, update=update_stub(self.kind, W, S, single=True)))
        return NS(W=W, S=S, me=me), (me,), {}

    def requires(self, s):
        return iterate_pre(self.kind, s.W, s.S)

    def _inv(self, s, l):
        W, S, E, ES = s.W, s.S, l.entry.W, l.entry.S
        return [('nothing is consumed while submitting; never more than max_parallel_batches pending',
                 A(W.lo == E.lo, W.hi >= E.hi, W.hi - W.lo <= S.M, W.nsub == E.nsub + (W.hi - E.hi), W.rm_n == E.rm_n)),
                ('sampler state untouched', A(S.nb == ES.nb, S.N == ES.N, S.rnd == ES.rnd, S.epoch == ES.epoch, S.rs == ES.rs, S.cons_n == ES.cons_n)),
                ('tasks issued through this handler stay marked', forall_id(lambda x: z3.Implies(E.mine[x], W.mine[x]))),
                ('J', J(W))] + handler_ok(W) + discipline(self.kind, W, S)

    @property
    def loops(self):
        return {0: Loop(inv=self._inv, modifies=lambda s, l: [s.W, s.S], snapshot=lambda s, l: dict(W=s.W.snap(), S=s.S.snap()))}

    def ensures(self, s, result):
        ups, waits = [e for e in s.S.log if e[0] == 'update'], s.W.events('wait_next')
        if len(ups) != 1 or len(waits) != 1:
            return [('exactly ONE wait_next and ONE update per iterate', z3.BoolVal(False))]
        return iterate_post(self.kind, s.old.W, s.old.S, s.W, s.S, (ups[0][1], ups[0][2]))


class Definitional(SamplerContract):
    """_allow_submit / _has_batches_to_submit / finished / _objective_n_batches against their meaning on the view"""

    def __init__(self, name, form='n_batches'):
        self.name, self.form = name, form
        self.target = PI + name
        self.label = form if name == '_objective_n_batches' else None
        self.cover = form != 'neither'            # raise-only case

    def setup(self, vc):
        W, S = self.base(vc, 'rejection')
        me = sampler_object(vc, 'rejection', W, S, {})
        s = NS(W=W, S=S, me=me)
        if self.form == 'n_sim':
            s.n_sim = vc.fresh_int('objective_n_sim', size=True)
            me.objective = {'n_sim': SInt(s.n_sim)}
        elif self.form == 'neither':
            me.objective = {}
        return s, (me,) + ((SInt(W.nxt),) if self.name == '_allow_submit' else ()), {}

    def requires(self, s):
        return handler_ok(s.W) + [T(s.me.batch_size) >= 1]

    def raises(self, s):
        return {'ValueError': z3.BoolVal(self.form == 'neither')}

    def iff_raises(self, s):
        return [('returns only if the objective defines n_batches or n_sim', z3.BoolVal(self.form != 'neither'))]

    def ensures(self, s, result):
        W, S, old = s.W, s.S, s.old.W
        r = T(result)
        if self.name == '_objective_n_batches':
            if self.form == 'n_sim':
                b = T(s.me.batch_size)
                return [('ceil(n_sim / batch_size)', A(r * b >= s.n_sim, (r - 1) * b < s.n_sim))]
            return [("objective['n_batches']", r == S.N)]
        if self.name == 'finished':
            return [('finished <=> objective n_batches <= consumed batches', r == (S.N <= S.nb))]
        if self.name == '_has_batches_to_submit':
            return [('objective n_batches > consumed + pending', r == (S.N > S.nb + (old.hi - old.lo)))]
        asked = W.events('has_ready')
        orc = asked[0][1] if asked else z3.BoolVal(False)
        return [('submit is allowed only if fewer than max_parallel_batches are pending and the objective is not covered by consumed + pending; when both hold the answer is '
                 'the negation of has_ready() if the handler was asked, True otherwise',
                 r == A(S.M > old.hi - old.lo, S.N > S.nb + (old.hi - old.lo), z3.Not(has_ready_value(old, orc)))),
                ('the client is asked at most once', z3.BoolVal(len(asked) <= 1))] + same_view(W, old, what='_allow_submit changes nothing: ')


# ---------------------------------------------------------------------------------------------- infer
def iterate_stub(kind, W, S):
    def iterate(self_):
        vc = cur()
        vc.libcall('stub:iterate', ())
        for n, f in iterate_pre(kind, W, S):
            vc.oblige('call-pre[iterate: %s]' % n, f)
        V0, S0 = W.snap(), S.snap()
        W._vc_havoc('it')
        S._vc_havoc('it')
        b = vc.fresh('consumed_batch', Bat)
        S.cons_n = S0.cons_n + 1
        S.cons_idx, S.cons_bat = z3.Store(S0.cons_idx, S0.cons_n, S0.nb), z3.Store(S0.cons_bat, S0.cons_n, b)
        for n, f in iterate_post(kind, V0, S0, W, S, (b, S0.nb)):
            vc.assume(f)
        if cur().fin is not None:
            vc.assume(handler_ok(W)[2][1])
        S.log.append(('iterate', V0, S0))
    return iterate


class Infer(SamplerContract):
    """loop 0: `while not self.finished: self.iterate()`"""
    target = PI + 'infer'

    def __init__(self, kind, static_objective=False):
        self.kind, self.static = kind, static_objective
        self.label = kind + ('-objective-unchanged-by-update' if static_objective else '')

    def setup(self, vc):
        W, S = self.base(vc, self.kind)
        kind = self.kind
        s = NS(W=W, S=S, calls=[])

        def set_objective(self_, *a, **kw):
            vc.libcall('stub:set_objective', ())
            s.calls.append(('set_objective', a, kw))
            S.N = vc.fresh_int('objective', size=True)
            if kind == 'rejection':
                # Rejection.set_objective (C01/SetObjective): state reset, objective computed, batches.reset() called once
                self_.state = S.state = {'n_batches': SInt(z3.IntVal(0)), 'round': S.state['round']}
                self_.batches.reset()
            else:
                # SMC.set_objective: objective updated, _init_new_round() creates a new generator epoch; the handler is not touched
                vc.oblige('call-pre[SMC.set_objective: no batch pending and next index = consumed batches (post of the previous infer / constructor)]',
                          A(W.hi == W.lo, W.nxt == S.nb))
                S.rnd, S.epoch, S.rs, S.calls = vc.fresh_int('round', size=True), S.epoch + 1, S.nb, z3.IntVal(0)
                vc.assume(S.rnd >= 0)
            s.c0 = S.nb
            s.N0 = S.N
            s.cons0 = S.cons_n
            s.V1 = W.snap()

        def extract_result(self_):
            s.calls.append(('extract_result', W.snap(), S.snap()))
            return 'RESULT'

        def plot_state(self_, **kw):
            s.calls.append(('plot_state',))
        it = iterate_stub(kind, W, S)
        if self.static:
            it0 = it

            def it(self_):
                N = S.N
                it0(self_)
                vc.assume(S.N == N)           # premise of the lemma: update leaves the objective alone (C01/UpdateObjective[no-threshold])
        s.me = sampler_object(vc, kind, W, S, dict(set_objective=set_objective, extract_result=extract_result, plot_state=plot_state, iterate=it))
        s.arg = make_object('NSamples')
        return s, (s.me, s.arg), {}

    def requires(self, s):
        smc = [('SMC.set_objective does not reset the handler: no batch pending and next index = consumed batches, as the constructor and every earlier infer leave it',
                A(s.W.hi == s.W.lo, s.W.nxt == s.S.nb))] if self.kind == 'smc' else []
        return handler_ok(s.W) + [('J', J(s.W)), s.S.M >= 1, s.S.nb >= 0] + smc

    def _inv(self, s, l):
        W, S = s.W, s.S
        out = [('no more than max_parallel_batches pending; oldest pending index = consumed batches', A(W.hi - W.lo <= S.M, W.lo == S.nb, S.nb >= s.c0)),
               ('tasks issued through this handler stay marked', forall_id(lambda x: z3.Implies(s.V1.mine[x], W.mine[x]))),
               ('J', J(W))] + handler_ok(W) + \
              [('finished or round discipline: ' + n, z3.Or(finished(S), f)) for n, f in discipline(self.kind, W, S)] + \
              [('consumed = [(c0, B(c0)), (c0+1, B(c0+1)), ...]: one update per index, in order',
                A(S.cons_n - s.cons0 == S.nb - s.c0, forall_range(0, S.nb - s.c0, lambda k: S.cons_idx[s.cons0 + k] == s.c0 + k, 'k')))]
        if self.static:
            out.append(('objective unchanged; consumed <= objective', A(S.N == s.N0, z3.Or(S.nb <= S.N, S.nb == s.c0))))
        return out

    @property
    def loops(self):
        return {0: Loop(inv=self._inv, modifies=lambda s, l: [s.W, s.S])}

    def ensures(self, s, result):
        W, S = s.W, s.S
        names = [c[0] for c in s.calls]
        out = [('set_objective first (with the caller\'s arguments), extract_result last, its value returned',
                z3.BoolVal(names == ['set_objective', 'extract_result'] and s.calls[0][1] == (s.arg,) and result == 'RESULT'))]
        if names != ['set_objective', 'extract_result']:
            return out
        Vx = s.calls[1][1]
        out += [('inference returns finished', finished(S)),
                ('no batch is pending when the result is extracted; the next index is the number of consumed batches', A(Vx.hi == Vx.lo, Vx.nxt == S.nb)),
                ('no task submitted through this handler is left in the client when the result is extracted', forall_id(lambda x: z3.Implies(Vx.mine[x], z3.Not(Vx.live[x])))),
                ('every task issued during the run is marked', forall_id(lambda x: z3.Implies(s.V1.mine[x], Vx.mine[x]))),
                ('batches were consumed strictly in index order c0, c0+1, ..., each exactly once',
                 A(S.cons_n - s.cons0 == S.nb - s.c0, forall_range(0, S.nb - s.c0, lambda k: S.cons_idx[s.cons0 + k] == s.c0 + k, 'k')))] + \
            [('handler_ok at return: ' + n, f) for n, f in handler_ok(W)[:2]]
        if self.static:
            out.append(('LEMMA: when update leaves the objective alone exactly objective-many batches are consumed', S.nb == z3.If(s.N0 > s.c0, s.N0, s.c0)))
        return out


# ---------------------------------------------------------------------------------------------- the native client implements the abstract client contract
Thunk = z3.DeclareSort('Thunk')
RUN = z3.Function('RUN', Thunk, Bat)             # calling the stored kallable on the stored arguments
AIT = z3.ArraySort(I, Thunk)


class ThunkPart:
    def __init__(self, th, what):
        self.th, self.what = th, what

    def __call__(self, *args, **kwargs):
        okay = self.what == 'kallable' and len(args) == 1 and isinstance(args[0], ThunkPart) and args[0].what == 'arg' and args[0].th is self.th and not kwargs
        cur().oblige('call-pre[the stored kallable is called on the stored arguments]', z3.BoolVal(okay))
        if not okay:
            raise OutOfSubset('stored task called differently')
        cur().libcall('call:stored-task', self.th)
        return SKey(RUN(self.th))


class TaskDict(Sym):
    """the python dict `Client.tasks`: id -> (kallable, args, kwargs); view has : id -> Bool, th : id -> Thunk"""

    def __init__(self, vc):
        self.has, self.th = vc.fresh('tasks_has', AIB), vc.fresh('tasks_thunk', AIT)
        self.stored = []          # python values stored on this path: (key term, value)
        self.t = None

    def _tuple(self, k):
        th = self.th[k]
        return (ThunkPart(th, 'kallable'), (ThunkPart(th, 'arg'),), {})

    def __setitem__(self, k, v):
        k = T(k)
        th = cur().fresh('thunk', Thunk)
        self.stored.append((k, v, th))
        self.has, self.th = z3.Store(self.has, k, True), z3.Store(self.th, k, th)

    def __getitem__(self, k):
        k = T(k)
        cur().oblige('call-pre[dict[key]: key present (KeyError otherwise)]', self.has[k])
        return self._tuple(k)

    def pop(self, k, *default):
        k = T(k)
        if default:
            raise OutOfSubset('dict.pop with default')
        cur().oblige('call-pre[dict.pop: key present (KeyError otherwise)]', self.has[k])
        r = self._tuple(k)
        self.has = z3.Store(self.has, k, False)
        return r

    def __contains__(self, k):
        return cur().branch(self.has[T(k)])

    def __delitem__(self, k):
        k = T(k)
        cur().oblige('call-pre[del dict[key]: key present (KeyError otherwise)]', self.has[k])
        self.has = z3.Store(self.has, k, False)

    def clear(self):
        self.has = z3.K(I, z3.BoolVal(False))


class CountProxy:
    """itertools.count(): __next__ returns c, c+1, ..."""

    def __init__(self, c):
        self.c = c

    def __next__(self):
        r = self.c
        self.c = self.c + 1
        return SInt(r)


class NativeClient(Contract):
    """elfi/clients/native.py::Client against the abstract client contract on the view tasks: id -> thunk.
    Representation invariant client_ok: every id in the table is below the counter (so the counter value is fresh)."""
    prop = 'C04'
    fin = 4
    fin_range = 6

    def __init__(self, name):
        self.name = name
        self.target = 'elfi/clients/native.py::Client.%s' % name

    def setup(self, vc):
        tasks = TaskDict(vc)
        c = vc.fresh_int('next_id', size=True)
        me = make_object('NativeClientUnderContract', attrs=dict(tasks=tasks, _ids=CountProxy(c)))
        s = NS(me=me, tasks=tasks, c0=c, has0=tasks.has, th0=tasks.th, calls=[])
        s.x = vc.fresh_int('task_id', size=True)
        if self.name in ('apply', 'apply_sync'):
            s.a1, s.a2 = make_object('Arg1'), make_object('Arg2')

            def kallable(*a, **kw):
                s.calls.append((a, kw))
                return 'RESULT-OF-CALL'
            s.kallable = kallable
            return s, (me, kallable, s.a1), dict(extra=s.a2)
        if self.name in ('reset', 'num_cores'):
            return s, (me,), {}
        return s, (me, SInt(s.x)), {}

    def _ok(self, has, c):
        return forall_id(lambda x: z3.Implies(has[x], A(0 <= x, x < c)))

    def requires(self, s):
        r = [s.c0 >= 0, ('client_ok', self._ok(s.has0, s.c0))]
        if self.name == 'get_result':
            r.append(('abstract pre: the task is in the client', s.has0[s.x]))
        return r

    def ensures(self, s, result):
        t, n = s.tasks, self.name
        ok = ('client_ok re-established', self._ok(t.has, s.me._ids.c))
        if n == 'apply':
            st = t.stored
            return [('returns a FRESH id', A(z3.Not(s.has0[T(result)]), T(result) == s.c0)),
                    ('the task table gains exactly that id', t.has == z3.Store(s.has0, T(result), True)),
                    ('... holding (kallable, args, kwargs) as given; nothing is executed yet',
                     z3.BoolVal(len(st) == 1 and st[0][1][0] is s.kallable and st[0][1][1] == (s.a1,) and st[0][1][2] == {'extra': s.a2} and not s.calls)
                     if not (len(st) == 1) else A(st[0][0] == T(result), z3.BoolVal(st[0][1][0] is s.kallable and st[0][1][1] == (s.a1,) and st[0][1][2] == {'extra': s.a2} and not s.calls))),
                    ('other tasks untouched', forall_id(lambda x: z3.Implies(x != T(result), t.th[x] == s.th0[x]))), ok]
        if n == 'apply_sync':
            return [('calls kallable(*args, **kwargs) once and returns its result', z3.BoolVal(s.calls == [((s.a1,), {'extra': s.a2})] and result == 'RESULT-OF-CALL')),
                    ('the task table is untouched', A(t.has == s.has0, t.th == s.th0)), ok]
        if n == 'get_result':
            ran = cur().libcalls.get('call:stored-task', [])
            return [('returns the result of the thunk stored under the id (run once)', A(T(result) == RUN(s.th0[s.x]), z3.BoolVal(len(ran) == 1))),
                    ('the task leaves the table, nothing else changes', A(t.has == z3.Store(s.has0, s.x, False), t.th == s.th0)), ok]
        if n == 'is_ready':
            return [('answers a Boolean (the lazy client: always True) without touching the table', A(T(result) == z3.BoolVal(True), t.has == s.has0, t.th == s.th0)), ok]
        if n == 'remove_task':
            return [('the id is not in the table afterwards, nothing else changes (absent ids are tolerated)', A(t.has == z3.Store(s.has0, s.x, False), t.th == s.th0)), ok]
        if n == 'reset':
            return [('the table is empty', forall_id(lambda x: z3.Not(t.has[x]))), ok]
        if n == 'num_cores':
            return [('one core', T(result) == 1)]
        raise OutOfSubset(n)


class ClientBaseGlue(HandlerContract):
    """ClientBase.submit / compute are apply / apply_sync of Executor.execute on the loaded net"""

    def __init__(self, name):
        self.name = name
        self.target = 'elfi/client.py::ClientBase.%s' % name

    def setup(self, vc):
        W, h = self.world(vc)
        s = NS(W=W, h=h, netobj=NetObj(vc.fresh_int('batch_index', size=True)))
        return s, (h.client, s.netobj), {}

    def ensures(self, s, result):
        W = s.W
        ev = W.events('apply' if self.name == 'submit' else 'apply_sync')
        return [('one %s(Executor.execute, loaded_net); its value is returned' % ('apply' if self.name == 'submit' else 'apply_sync'),
                 z3.BoolVal(len(ev) == 1 and (ev[0][2] if self.name == 'submit' else ev[0][1]) is s.netobj) if len(ev) != 1 else
                 (T(result) == ev[0][1] if self.name == 'submit' else T(result) == EXEC(LOADED(s.netobj.index, NONE_OV))))]


# ---------------------------------------------------------------------------------------------- SMC round discipline (real bodies)
SMCQ = 'elfi/methods/inference/samplers.py::SMC.'


class RoundGen:
    """numpy RandomState created by _set_rejection_round: ghost epoch (which creation) and calls (draw calls so far)"""

    def __init__(self, epoch, seed=None):
        self.epoch, self.seed, self.calls = epoch, seed, z3.IntVal(0)


class SmcBase(Contract):
    prop = 'C04'
    fin = 4
    fin_range = 7

    def smc_object(self, vc, s, W=None, quantiles=False, extra_methods=None, inline_rounds=True):
        """an SMC `self`: fields as the real code uses them; helper methods are the REAL bodies unless stubbed"""
        s.events = []
        s.gen0 = RoundGen(vc.fresh_int('epoch', size=True))
        s.gen0.calls = vc.fresh_int('calls', size=True)
        s.seed = vc.fresh_int('seed', size=True)
        s.rej_made = []

        def rec(name, ret=None):
            def f(self_, *a, **kw):
                s.events.append((name, a, kw, W.snap() if W is not None else None))
                return ret
            return f
        methods = dict(_update_round_info=rec('_update_round_info'), _set_threshold=rec('_set_threshold'))
        if inline_rounds:
            methods.update(_init_new_round=inline(vc, SMCQ + '_init_new_round'), _set_rejection_round=inline(vc, SMCQ + '_set_rejection_round'))
        methods.update(extra_methods or {})
        s.THR = make_object('CurrentPopulationThreshold')
        me = make_object('SMCUnderContract', methods=methods, properties=dict(seed=lambda self_: SInt(s.seed), current_population_threshold=lambda self_: s.THR))
        me.model, me.discrepancy_name, me.output_names = make_object('Model'), make_object('DiscrepancyName'), make_object('OutputNames')
        me.batch_size, me.max_parallel_batches = SInt(vc.fresh_int('batch_size', size=True)), SInt(vc.fresh_int('max_parallel_batches', size=True))
        me.bar = True
        me._round_random_state = s.gen0
        s.q0 = make_object('Quantile0')
        me._quantiles = [s.q0, make_object('Quantile1')] if quantiles else None
        s.n_samples = make_object('NSamples')
        s.me = me
        return me

    def env(self, vc):
        from pyvc import npspec
        s = self._s

        def RandomState(seed=None):
            g = RoundGen(s.gen0.epoch + 1 + len([e for e in s.events if e[0] == 'RandomState']), seed)
            s.events.append(('RandomState', g, T(s.me.state['n_batches']) if 'n_batches' in s.me.state else None, s.W.snap() if s.get('W') is not None else None))
            return g

        def get_sub_seed(seed, index, **kw):
            s.events.append(('get_sub_seed', seed, index))
            return SInt(SUBSEED(T(seed), T(index)))

        class RejectionStub:
            def __init__(self_, model, **kw):
                self_.args, self_.kw = (model,), kw
                self_.objective = {'n_batches': SInt(vc.fresh_int('rejection_objective', size=True))}
                self_.state = {'n_batches': SInt(z3.IntVal(0))}
                s.rej_made.append(self_)
                s.events.append(('Rejection', self_))

            def set_objective(self_, *a, **kw):
                s.events.append(('Rejection.set_objective', self_, a, kw))
        rnd = type('random', (), {'RandomState': staticmethod(RandomState)})
        return dict(np=npspec.module(extra={'random': rnd}), get_sub_seed=get_sub_seed, Rejection=RejectionStub,
                    super=lambda cls, obj: obj._vc_super(), SMC=object())


SUBSEED = z3.Function('SUBSEED', I, I, I)


class SetRejectionRound(SmcBase):
    target = SMCQ + '_set_rejection_round'

    def setup(self, vc):
        self._s = s = NS()
        me = self.smc_object(vc, s)
        s.r = vc.fresh_int('round', size=True)
        me.state = {'round': SInt(s.r)}
        me.objective = {'round': SInt(vc.fresh_int('objective_round', size=True))}
        return s, (me, SInt(s.r)), {}

    def requires(self, s):
        return [s.r >= 0]

    def ensures(self, s, result):
        me = s.me
        g, rj = me._round_random_state, s.rej_made
        new_gen = [e for e in s.events if e[0] == 'RandomState']
        if not (len(new_gen) == 1 and new_gen[0][1] is g and len(rj) == 1 and me._rejection is rj[0]):
            return [('exactly one new round generator and one new Rejection are created and stored', z3.BoolVal(False))]
        seed_r = z3.If(s.r == 0, s.seed, SUBSEED(s.seed, s.r))
        kw = rj[0].kw
        return [('the round generator is re-created from the seed of the round: the master seed in round 0, get_sub_seed(seed, round) otherwise', T(g.seed) == seed_r),
                ('the round\'s Rejection runs the same model and outputs with the same batch_size, max_parallel_batches and the seed of the round',
                 A(z3.BoolVal(rj[0].args == (me.model,) and set(kw) == {'discrepancy_name', 'output_names', 'batch_size', 'seed', 'max_parallel_batches'}
                              and kw['discrepancy_name'] is me.discrepancy_name and kw['output_names'] is me.output_names
                              and kw['batch_size'] is me.batch_size and kw['max_parallel_batches'] is me.max_parallel_batches), T(kw['seed']) == seed_r))]


class InitNewRound(SmcBase):
    target = SMCQ + '_init_new_round'

    def __init__(self, quantiles):
        self.quantiles = quantiles
        self.label = 'quantiles' if quantiles else 'thresholds'

    def setup(self, vc):
        self._s = s = NS()
        me = self.smc_object(vc, s, quantiles=self.quantiles, extra_methods=dict(
            _set_rejection_round=lambda self_, r: (s.events.append(('_set_rejection_round', T(r))), setattr(self_, '_rejection', RejMarker(s)))[0]),
            inline_rounds=False)
        s.r = vc.fresh_int('round', size=True)
        me.state = {'round': SInt(s.r)}
        me.objective = {'n_samples': s.n_samples}
        return s, (me,), {}

    def requires(self, s):
        return [s.r >= 0]

    def ensures(self, s, result):
        names = [e[0] for e in s.events]
        first = self.quantiles is True
        out = [('the round generator / Rejection are re-created for the current round first', z3.BoolVal(names[:1] == ['_set_rejection_round']) if names[:1] != ['_set_rejection_round'] else s.events[0][1] == s.r)]
        so = [e for e in s.events if e[0] == 'Rejection.set_objective']
        if len(so) != 1:
            return out + [('the new Rejection gets its objective exactly once', z3.BoolVal(False))]
        a, kw = so[0][2], so[0][3]
        if self.quantiles:
            q0 = a == (s.n_samples,) and set(kw) == {'quantile'} and kw['quantile'] is s.q0 and '_set_threshold' not in names
            later = a == (s.n_samples,) and set(kw) == {'threshold'} and kw['threshold'] is s.THR and names == ['_set_rejection_round', '_set_threshold', 'Rejection.set_objective']
            out.append(('quantile mode: round 0 samples with the first quantile; later rounds first select the threshold from the previous population',
                        z3.If(s.r == 0, z3.BoolVal(q0), z3.BoolVal(later))))
        else:
            out.append(('threshold mode: the new Rejection samples n_samples under the current population threshold',
                        z3.BoolVal(a == (s.n_samples,) and set(kw) == {'threshold'} and kw['threshold'] is s.THR and '_set_threshold' not in names)))
        return out


class RejMarker:
    def __init__(self, s):
        self.s = s

    def set_objective(self, *a, **kw):
        self.s.events.append(('Rejection.set_objective', self, a, kw))


class SmcUpdate(SmcBase):
    """SMC.update with the REAL _init_new_round / _set_rejection_round / _update_objective / ParameterInference.update inlined.
    `earlier` = number of populations already stored (the list is concrete: 0 or 2)"""
    target = SMCQ + 'update'

    def __init__(self, earlier):
        self.earlier = earlier
        self.label = '%d-earlier-populations' % earlier

    def setup(self, vc):
        self._s = s = NS()
        W = World(vc)
        real_handler(vc, W, stubs=handler_stubs(W))
        s.W = W
        base_update = inline(vc, PI + 'update')

        def extract_population(self_):
            s.events.append(('_extract_population', self_._rejection, W.snap()))
            return make_object('Population', attrs=dict(n_batches=self_._rejection.state['n_batches']))
        me = self.smc_object(vc, s, W=W, extra_methods=dict(
            _vc_super=lambda self_: make_object('ParameterInferenceBase', methods=dict(update=lambda b_, batch, i: (s.events.append(('base.update', batch, i)), base_update(self_, batch, i))[1])),
            _extract_population=extract_population, _update_objective=inline(vc, SMCQ + '_update_objective')))
        s.nb, s.ns, s.r, s.R, s.N = (vc.fresh_int(n, size=True) for n in ('n_batches', 'n_sim', 'round', 'objective_round', 'objective_n_batches'))
        me.state = {'n_batches': SInt(s.nb), 'n_sim': SInt(s.ns), 'round': SInt(s.r)}
        me.objective = {'n_batches': SInt(s.N), 'round': SInt(s.R), 'n_samples': s.n_samples}
        me.batches = W.handler
        s.pops = [make_object('Population', attrs=dict(n_batches=SInt(vc.fresh_int('pop_n_batches', size=True)))) for _ in range(self.earlier)]
        me._populations = list(s.pops)
        s.rej_fin = vc.fresh('rejection_finished_after_update', B)
        s.rnb, s.rN = vc.fresh_int('rejection_n_batches', size=True), vc.fresh_int('rejection_objective_after_update', size=True)

        class Rej0:
            state = {'n_batches': SInt(s.rnb)}
            objective = {'n_batches': SInt(vc.fresh_int('rejection_objective', size=True))}

            def update(self_, batch, i):
                s.events.append(('rejection.update', batch, i))
                self_.state = {'n_batches': SInt(s.rnb + 1)}          # C01/BaseUpdate
                self_.objective = {'n_batches': SInt(s.rN)}            # C01/UpdateObjective
            finished = property(lambda self_: SBool(s.rej_fin))
        s.rej0 = me._rejection = Rej0()
        s.batch, s.idx = make_object('Batch'), SInt(s.nb)
        return s, (me, s.batch, s.idx), {}

    def requires(self, s):
        ps = sum([T(p.n_batches) for p in s.pops], z3.IntVal(0))
        return handler_ok(s.W) + [('J', J(s.W)), s.nb >= 0, s.r >= 0, s.rnb >= 0,
                                  ('accounting: consumed batches = batches of the stored populations + batches of the running round', s.nb == ps + s.rnb),
                                  ('finished of the round\'s Rejection is its real definition (objective <= consumed)', s.rej_fin == (s.rN <= s.rnb + 1)),
                                  ('called from iterate: index = consumed batches = oldest pending index after wait_next', s.W.lo == s.nb + 1)]

    def snapshot(self, s):
        return dict(W=s.W.snap())

    def ensures(self, s, result):
        W, old, me = s.W, s.old.W, s.me
        ev = s.events
        names = [e[0] for e in ev]
        gens = [e for e in ev if e[0] == 'RandomState']
        cancels = W.events('cancel_pending')
        more = A(s.rej_fin, s.r < s.R)
        E = old.snap()
        eff_cancel(E)
        nb1 = T(me.state['n_batches'])
        out = [('the base update and the round\'s Rejection.update run first, once each, on the consumed batch and index',
                z3.BoolVal(names[:2] == ['base.update', 'rejection.update'] and names.count('base.update') == 1 and names.count('rejection.update') == 1
                           and ev[0][1] is s.batch and ev[0][2] is s.idx and ev[1][1] is s.batch and ev[1][2] is s.idx)),
               ('one more consumed batch', nb1 == s.nb + 1),
               ('nothing is submitted inside update', z3.BoolVal(not W.events('submit') and not W.events('wait_next'))),
               ('round not over: handler, client and round generator untouched', z3.Implies(z3.Not(s.rej_fin), A(z3.BoolVal(not cancels and not gens and me._round_random_state is s.gen0), *facts(same_view(W, old))))),
               ('round over: every pending (speculative) batch is cancelled - the view is eff_cancel of the old one', z3.Implies(s.rej_fin, A(z3.BoolVal(len(cancels) == 1), *facts(same_view(W, E))))),
               ('the round generator is re-created exactly when the round is over and more rounds follow', z3.BoolVal(len(gens) == 1 and me._round_random_state is gens[0][1]) == more
                if len(gens) <= 1 else z3.BoolVal(False)),
               ('whenever the generator was re-created the index is rewound when update returns: no batch pending, next index = consumed batches (= round_start of the new epoch)',
                z3.Implies(more, A(W.hi == W.lo, W.nxt == nb1, (gens[0][2] == nb1) if gens else z3.BoolVal(False)))),
               ('a new round: the population is extracted from the finished Rejection before the generator is re-created, round + 1',
                z3.Implies(more, A(z3.BoolVal('_extract_population' in names and 'RandomState' in names and names.index('_extract_population') < names.index('RandomState')
                                              and [e for e in ev if e[0] == '_extract_population'][0][1] is s.rej0 and len(me._populations) == self.earlier + 1),
                                   T(me.state['round']) == s.r + 1))),
               ('otherwise the round and the stored populations stay', z3.Implies(z3.Not(more), A(T(me.state['round']) == s.r, z3.BoolVal(len(me._populations) == self.earlier or len(gens) == 1)))),
               ('the last round over: inference is finished', z3.Implies(A(s.rej_fin, z3.Not(s.r < s.R)), T(me.objective['n_batches']) <= nb1)),
               ('J preserved', J(W))] + [('handler_ok preserved: ' + n, f) for n, f in handler_ok(W)[:2]]
        return out


class PrepareNewBatch(SmcBase):
    target = SMCQ + 'prepare_new_batch'

    def setup(self, vc):
        self._s = s = NS()
        s.gm = (make_object('Means'), make_object('Cov'), make_object('Weights'))
        def logpdf(self_, x):
            raise OutOfSubset('the prior density is not evaluated here')
        s.prior = make_object('ModelPrior', methods=dict(logpdf=logpdf))
        me = self.smc_object(vc, s, inline_rounds=False)
        type(me)._gm_params = property(lambda self_: s.gm)
        me._prior, me.parameter_names = s.prior, make_object('ParameterNames')
        s.r = vc.fresh_int('round', size=True)
        me.state = {'round': SInt(s.r)}
        s.calls0 = s.gen0.calls
        return s, (me, SInt(vc.fresh_int('batch_index', size=True))), {}

    def env(self, vc):
        e = SmcBase.env(self, vc)
        s = self._s

        class GMDistribution:
            @classmethod
            def rvs(cls, *params, size=1, prior_logpdf=None, random_state=None):
                okay = (params == s.gm and size is s.me.batch_size and random_state is s.gen0 and getattr(prior_logpdf, '__self__', None) is s.prior
                        and getattr(prior_logpdf, '__name__', '') == 'logpdf')
                vc.oblige('call-pre[GMDistribution.rvs: proposal of the last population, batch_size points, conditioned on the prior, drawn from THE round generator]', z3.BoolVal(okay))
                k = random_state.calls
                random_state.calls = random_state.calls + 1
                s.events.append(('rvs', k))
                return ('params', random_state.epoch, k)

        def arr2d_to_batch(params, names):
            vc.oblige('call-pre[arr2d_to_batch: the drawn points under the parameter names]', z3.BoolVal(isinstance(params, tuple) and params[0] == 'params' and names is s.me.parameter_names))
            return OvVal(PROPOSAL(params[1], params[2]))       # DEFINITION of PROPOSAL(epoch, k)
        e.update(GMDistribution=GMDistribution, arr2d_to_batch=arr2d_to_batch)
        return e

    def requires(self, s):
        return [s.r >= 0, s.calls0 >= 0]

    def ensures(self, s, result):
        draws = [e for e in s.events if e[0] == 'rvs']
        if result is None:
            return [('round 0 uses the prior: no override, the round generator is not touched', A(s.r == 0, z3.BoolVal(not draws), s.gen0.calls == s.calls0))]
        if not isinstance(result, OvVal):
            return [('returns an override dict', z3.BoolVal(False))]
        return [('later rounds: the override is the calls-th proposal of the current generator epoch; exactly one draw call per prepared batch',
                 A(s.r != 0, result.t == PROPOSAL(s.gen0.epoch, s.calls0), z3.BoolVal(len(draws) == 1), s.gen0.calls == s.calls0 + 1)),
                ('the generator object itself is not replaced', z3.BoolVal(s.me._round_random_state is s.gen0))]


CONTRACTS = [Submit('none'), Submit('empty'), Submit('overrides'), WaitNext(), CancelPending(), Reset(), HasReady()] + \
    [Counters(n) for n in ('next_index', 'total', 'num_pending', 'num_ready', 'has_pending', 'pending_indices')] + [Compute()] + \
    [Definitional('_allow_submit'), Definitional('_has_batches_to_submit'), Definitional('finished'), Definitional('_objective_n_batches', 'n_batches'),
     Definitional('_objective_n_batches', 'n_sim'), Definitional('_objective_n_batches', 'neither'),
     Iterate('rejection'), Iterate('smc'), Infer('rejection'), Infer('smc'), Infer('rejection', True)] + \
    [NativeClient(n) for n in ('apply', 'apply_sync', 'get_result', 'is_ready', 'remove_task', 'reset', 'num_cores')] + [ClientBaseGlue('submit'), ClientBaseGlue('compute')] + \
    [SmcUpdate(0), SmcUpdate(2), PrepareNewBatch(), InitNewRound(False), InitNewRound(True), SetRejectionRound()] + \
    [HandlerInit(True), HandlerInit(False), SamplerInit(True), SamplerInit(False)]

for _c in CONTRACTS:
    if not hasattr(type(_c), 'witness'):
        type(_c).witness = _witness

TRUSTED_BASE = ['pyvc engine: proxies, loop cutting, decision-prefix path exploration, inlining of real helper bodies',
                'collections.OrderedDict proxy ODictRange (contiguous-range view): new key appended at the end, existing key keeps its position, popitem(last=False) pops the first / '
                'popitem() the last item, pop(key), len, truthiness, keys()/items() in insertion order, list(items()) is a snapshot, reversed(list) (sanity-tested each run)',
                'python dict proxy TaskDict and itertools.count proxy for the native client (sanity-tested)',
                'z3 array theory with lambda terms (eff_cancel is stated as a lambda array)',
                'Executor.execute(net) and ClientBase.load_data(compiled_net, context, i) are functions of their arguments (EXEC, LOADED uninterpreted; their determinism is C02/C03)']
ASSUMPTIONS = ['A-INT', 'A-LOG: logging / progress-bar calls have no effect (dropped by the front end)',
               'abstract client contract: apply returns an id that is not in the task table; get_result(id) returns the result of the net stored under id and removes it; '
               'is_ready(id) returns ANY Boolean (uninterpreted oracle, fresh per call); remove_task(id) removes; proved for the native client, ASSUMED for the process-pool clients',
               'update() touches the handler only through cancel_pending (Rejection.update: not at all - C01/RejectionUpdate runs it on a self without a handler; SMC.update: proved here)',
               'prepare_new_batch() does not touch the handler (base class: real body inlined; SMC: proved here on a self without a handler); other subclasses (BOLFI, ROMC, BSL) are C11 / out of C04',
               'Rejection.set_objective resets state and handler (C01/SetObjective + BatchHandler.reset here); SMC.set_objective creates a new generator epoch and does not touch the handler (its numpy body is C07)',
               'SMC.update: the list of earlier populations is concrete (0 and 2 entries) - the sum in _update_objective runs natively over it',
               'GMDistribution.rvs / arr2d_to_batch are functions of (generator state, arguments): PROPOSAL(epoch, k) (C13); the round generator is advanced by nothing but prepare_new_batch',
               'composition (paper step): iterate/infer posts + C01 update contracts => the sequence of update calls, hence the Sample, is a function of (model, seed, objective); '
               'in threshold mode objective[n_batches] itself depends on max_parallel_batches - only the stop decision (C01/UpdateObjective: finished <=> n_samples acceptable) does not, '
               'and nothing here demands equal objectives across max_parallel_batches']
NOT_PROVED = ['multiprocessing / ipyparallel / dask clients satisfy the abstract client contract (OS processes, pickling, Pool.apply_async): not decidable here; assumed',
              'real timing ("whatever the ... timing in which the client\'s workers finish batches"): only the answers ELFI can observe (is_ready) are quantified over',
              'thread safety of handler / client when driven from several threads',
              '"every execution order of outstanding tasks" inside worker processes: covered only by the bounded stand-in (eager scheduled client) and by purity of EXEC (C02/C03)',
              'BatchHandler.has_ready(any=True) (not used anywhere in the tree)',
              'equality of whole Sample objects across schedules: induction over the consumed sequence is a paper step; checked end to end only by the bounded stand-in']


def sanity():
    import itertools
    from collections import OrderedDict
    out = []
    d = OrderedDict()
    d[3] = 'a'
    d[4] = 'b'
    d[5] = 'c'
    out.append(('OrderedDict keeps insertion order', list(d.items()) == [(3, 'a'), (4, 'b'), (5, 'c')] and list(d.keys()) == [3, 4, 5]))
    d[4] = 'B'
    out.append(('assignment to an existing key keeps its position', list(d.items()) == [(3, 'a'), (4, 'B'), (5, 'c')]))
    out.append(('popitem(last=False) pops the first item', d.popitem(last=False) == (3, 'a') and list(d) == [4, 5]))
    out.append(('popitem() pops the last item', d.popitem() == (5, 'c') and list(d) == [4]))
    d[5] = 'c'
    d[6] = 'd'
    seen = []
    for k, v in reversed(list(d.items())):
        seen.append(k)
        d.pop(k)
    out.append(('reversed(list(items())) is a snapshot, newest first; pop(key) removes', seen == [6, 5, 4] and len(d) == 0 and not d))
    d[9] = 'x'
    out.append(('a new key in an emptied map starts a new order', list(d) == [9] and len(d.keys()) == 1))
    c = itertools.count()
    out.append(('itertools.count().__next__ counts from 0', [c.__next__(), c.__next__(), c.__next__()] == [0, 1, 2]))
    t = {1: 'a'}
    out.append(('dict.pop removes and returns; `in` / del / clear', t.pop(1) == 'a' and 1 not in t and not t))
    return out


def bounded(tier, seed):
    from bounded import c04 as b
    return [b.run(tier, seed), b.run_native(tier, seed)]


_replay_cache = {}


def replay_refuted(cname, rf):
    """a refuted obligation: look for a failing schedule of the executable property on the real samplers (or, for the native client, a failing operation sequence)"""
    from bounded import c04 as b
    key = 'native' if cname.startswith('Client.') else 'sched'
    if key not in _replay_cache:
        r = b.run_native('quick', 0) if key == 'native' else b.run('quick', 0, stop_first=True)
        _replay_cache[key] = dict(found=True, input=r['failures'][0]['input'], observed=r['failures'][0]['what']) if r['failures'] else \
            dict(found=False, searched=r['bound'], cases=r['cases'])
    return _replay_cache[key]


def replay_input(inp):
    from bounded import c04 as b
    return b.replay_input(inp)
