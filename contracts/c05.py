"""C05 - Output pools are transparent: reuse never changes results or re-simulates.

Abstract view of an OutputPool (class PoolView; node names = uninterpreted sort Key, batch indices = Int, values = opaque sort Val):
  st(k)        k in pool.stores                         none(k)   pool.stores[k] is None (store not materialised yet)
  has(k, i)    i in pool.stores[k]                      val(k, i) pool.stores[k][i]            ln(k)  len(pool.stores[k])
  held(k, i) := st(k) & ~none(k) & has(k, i)            view_wf := ln >= 0, a None store holds nothing
Stores are dict-like library objects (proxy StoreRef: `in`, getitem, setitem, delitem, len, clear with the python dict contract;
kind 'array' = elfi ArrayStore as specified by C06: indices are a prefix [0, ln), setitem at i = ln appends, i > ln raises IndexError).
The loaded net is a networkx DiGraph seen through NetProxy: node(k), has_out(k) / out(k) ('output' attribute), has_op(k)
('operation' attribute), outs(k) (k in graph['outputs']).

Functions under contract (REAL bodies): ComputationContext.__init__ / callback, OutputPool.set_context / add_batch / get_batch /
__len__ / __contains__ / remove_batch / add_store / remove_store / clear, PoolLoader.load.  Lemmas over these contracts (ghost lemma
functions, lemmas/c05_lemmas.py): no re-simulation, pool content after a run, generator position under store_set_admissible.
"""
MANIFEST = {
    'category': 'proof',
    'text': 'The pool bookkeeping is verified on the real source for all node sets, batch indices and pool contents (whole-view postconditions with frames, '
            'loops over the stores / the batch cut at visited-set invariants): ComputationContext.__init__ refuses exactly a differing batch_size or seed and otherwise adopts the pool context, '
            'set_context is called iff the pool had none and raises iff already set; add_batch adds exactly the absent (node, index) pairs of stored nodes and never overwrites; '
            'get_batch / __len__ / __contains__ / remove_batch / add_store / remove_store / clear are definitional on the view; PoolLoader.load gives every stored node that holds the batch its stored '
            'output and no operation, adds every other stored node to the requested outputs and leaves the rest of the net alone; callback hands the batch to add_batch exactly once. '
            'Lemmas over these contracts: no operation of a held node can be invoked, the pool ends with (what it had) | [0, consumed) holding fresh values, and under store_set_admissible every '
            'executed stochastic node sees the generator position of the pool-free run. End-to-end equality with the pool-free run (histories of <= 4 operations, dict and on-disk pools, call counters) is the labelled bounded stand-in.',
    'note': 'Trusted: pyvc engine, the dict / networkx-attribute / ArrayStore(C06) proxies of this module (sanity-tested), callee contracts assumed from C03 (Executor.execute invokes only nodes that have an operation and returns '
            'exactly the requested outputs) and C04 (every consumed batch is offered to the callback exactly once, in index order), determinism of user operations. '
            'Known finding C05-K1: a store set "node computed from the simulator + all parameters" WITHOUT the simulator is of the stated form but not admissible (the re-executed simulator sees a shifted generator).',
    'technique': 'deductive: whole-view VCs from the real AST (pyvc) with visited-set loop invariants + ghost lemma functions, z3/cvc5; bounded: pool histories <= 4 vs pool-free run, pool API sequences <= 3',
}

import z3

from pyvc import core
from pyvc.core import cur, OutOfSubset, program_exception, forall_range
from pyvc.engine import Contract, Loop, NS, make_object, inline, Stub, SetIter
from pyvc.values import SInt, SBool, SKey, Sym, term as T
from pyvc.sdict import Key

I, B = z3.IntSort(), z3.BoolSort()
Val = z3.DeclareSort('C05Val')
NK = [z3.Const('key_n%d' % j, Key) for j in range(3)]        # finitised universe of node names


# ---------------------------------------------------------------- quantifiers (expanded in finitised mode)
def key_axioms(vc):
    if vc.fin is None:
        return []
    k = z3.Const('kq', Key)
    return [z3.Distinct(*NK), z3.ForAll([k], z3.Or([k == n for n in NK]))]


def _bound(name, sort):
    v = z3.Const('%s@%d' % (name, core._DEPTH[0]), sort)
    core._DEPTH[0] += 1
    return v


def fa_key(body):
    vc = cur()
    if vc.fin is not None:
        return z3.And([core._z(body(n)) for n in NK])
    v = _bound('key', Key)
    try:
        return z3.ForAll([v], core._z(body(v)))
    finally:
        core._DEPTH[0] -= 1


def ex_key(body):
    vc = cur()
    if vc.fin is not None:
        return z3.Or([core._z(body(n)) for n in NK])
    v = _bound('xkey', Key)
    try:
        return z3.Exists([v], core._z(body(v)))
    finally:
        core._DEPTH[0] -= 1


def fa_ki(body):
    """forall node k, batch index i (ALL integers; finitised: the index grid [-1, fin_range))"""
    vc = cur()
    if vc.fin is not None:
        return z3.And([core._z(body(n, z3.IntVal(j))) for n in NK for j in range(-1, vc.fin_range)])
    k = _bound('key', Key)
    i = _bound('idx', I)
    try:
        return z3.ForAll([k, i], core._z(body(k, i)))
    finally:
        core._DEPTH[0] -= 2


def fa_i(body):
    vc = cur()
    if vc.fin is not None:
        return z3.And([core._z(body(z3.IntVal(j))) for j in range(-1, vc.fin_range)])
    i = _bound('idx', I)
    try:
        return z3.ForAll([i], core._z(body(i)))
    finally:
        core._DEPTH[0] -= 1


# ---------------------------------------------------------------- proxies of the library objects
class SVal(Sym):
    """an opaque python object (a batch of node output)"""

    def __init__(self, t):
        self.t = t


def _val(v):
    if isinstance(v, SVal):
        return v.t
    raise OutOfSubset('a store / batch value that is not an opaque output: %r' % (type(v).__name__,))


def _key(k):
    if isinstance(k, SKey):
        return k.t
    if isinstance(k, z3.ExprRef) and k.sort() == Key:
        return k
    raise OutOfSubset('node name %r' % (k,))


class PoolView:
    """ghost state of the stores of one pool: python closures over z3 terms (functional updates, havoc = fresh functions)"""

    def __init__(self, st, none, has, val, ln, kind='dict'):
        self.st, self.none, self.has, self.val, self.ln, self.kind = st, none, has, val, ln, kind

    @classmethod
    def fresh(cls, name, kind='dict'):
        v = cls(None, None, None, None, None, kind)
        v._vc_havoc(name)
        return v

    def _vc_havoc(self, name='hv'):
        vc = cur()
        a, b = vc.fresh_fn(name + '_st', Key, B), vc.fresh_fn(name + '_none', Key, B)
        c, d, e = vc.fresh_fn(name + '_has', Key, I, B), vc.fresh_fn(name + '_val', Key, I, Val), vc.fresh_fn(name + '_len', Key, I)
        self.st, self.none = (lambda k: a(k)), (lambda k: b(k))
        self.has, self.val, self.ln = (lambda k, i: c(k, i)), (lambda k, i: d(k, i)), (lambda k: e(k))

    def snap(self):
        return PoolView(self.st, self.none, self.has, self.val, self.ln, self.kind)

    def live(self, k):
        return z3.And(self.st(k), z3.Not(self.none(k)))

    def held(self, k, i):
        return z3.And(self.st(k), z3.Not(self.none(k)), self.has(k, i))

    def wf(self):
        out = [('view_wf: lengths are >= 0, a None store has length 0', fa_key(lambda k: z3.And(self.ln(k) >= 0, z3.Implies(self.none(k), self.ln(k) == 0)))),
               ('view_wf: a None store holds nothing', fa_ki(lambda k, i: z3.Implies(self.none(k), z3.Not(self.has(k, i)))))]
        if self.kind == 'array':
            out.append(self.contiguous())
        return out

    def contiguous(self):
        return ('every store holds a prefix [0, len) of the batch indices', fa_ki(lambda k, i: z3.Implies(self.live(k), self.has(k, i) == z3.And(i >= 0, i < self.ln(k)))))


def same_store(a, b, k):
    """store k is the same object with the same content in views a and b"""
    return z3.And(a.st(k) == b.st(k), a.none(k) == b.none(k), a.ln(k) == b.ln(k),
                  fa_i(lambda i: z3.And(a.has(k, i) == b.has(k, i), z3.Implies(a.has(k, i), a.val(k, i) == b.val(k, i)))))


def same_view(a, b):
    return fa_key(lambda k: same_store(a, b, k))


class StoreVal(Sym):
    """a store OBJECT that is not (or no longer) in the pool: its own index -> value map"""

    def __init__(self, has, val, ln):
        self.has, self.val, self.ln = has, val, ln
        self.t = None

    @classmethod
    def fresh(cls, name):
        vc = cur()
        a, b, n = vc.fresh_fn(name + '_has', I, B), vc.fresh_fn(name + '_val', I, Val), vc.fresh_int(name + '_len')
        return cls(lambda i: a(i), lambda i: b(i), n)

    def _vc_is_none(self):
        return False


class StoreRef(Sym):
    """pool.stores[k]: None or a dict-like store, read and written THROUGH the view (so aliases stay in sync)"""

    def __init__(self, view, k):
        self.view, self.k = view, k
        self.t = None

    def _vc_is_none(self):
        return SBool(self.view.none(self.k))

    def _live(self, what):
        # python: `x in None` -> TypeError, None[i] -> TypeError, None.clear() -> AttributeError, len(None) -> TypeError
        cur().oblige('call-pre[%s: the store is not None]' % what, z3.Not(self.view.none(self.k)))

    def __contains__(self, i):
        self._live('`batch_index in store`')
        return SBool(self.view.has(self.k, T(i)))

    def __getitem__(self, i):
        self._live('store[batch_index]')
        cur().oblige('call-pre[store[batch_index]: index present]', self.view.has(self.k, T(i)))
        return SVal(self.view.val(self.k, T(i)))

    def _vc_len(self):
        self._live('len(store)')
        return SInt(self.view.ln(self.k))

    def __setitem__(self, i, v):
        self._live('store[batch_index] = values')
        vw, k, i, v = self.view, self.k, T(i), _val(v)
        has, val, ln = vw.has, vw.val, vw.ln
        had = has(k, i)
        if vw.kind == 'array':
            # elfi.store.ArrayStore.__setitem__ (contract of C06): append at len, overwrite below, IndexError above
            if cur().branch(i > ln(k)):
                raise program_exception(IndexError('Appending further than to the end of the store array is currently not supported.'))
        vw.has = lambda q, j: z3.Or(has(q, j), z3.And(q == k, j == i))
        vw.val = lambda q, j: z3.If(z3.And(q == k, j == i), v, val(q, j))
        vw.ln = lambda q: z3.If(q == k, ln(q) + z3.If(had, 0, 1), ln(q))

    def __delitem__(self, i):
        self._live('del store[batch_index]')
        vw, k, i = self.view, self.k, T(i)
        if vw.kind == 'array':
            raise OutOfSubset('del on an array store (C06)')
        has, ln = vw.has, vw.ln
        cur().oblige('call-pre[del store[batch_index]: index present]', has(k, i))
        vw.has = lambda q, j: z3.And(has(q, j), z3.Not(z3.And(q == k, j == i)))
        vw.ln = lambda q: z3.If(q == k, ln(q) - 1, ln(q))

    def clear(self):
        self._live('store.clear()')
        vw, k = self.view, self.k
        has, ln = vw.has, vw.ln
        vw.has = lambda q, j: z3.And(has(q, j), q != k)
        vw.ln = lambda q: z3.If(q == k, 0, ln(q))


class StoresProxy(Sym):
    """the dict pool.stores: node name -> None | store"""

    def __init__(self, view):
        self.view = view
        self.t = None

    def __contains__(self, key):
        return SBool(self.view.st(_key(key)))

    def __getitem__(self, key):
        k = _key(key)
        cur().oblige('call-pre[stores[node]: node in stores]', self.view.st(k))
        return StoreRef(self.view, k)

    def __setitem__(self, key, value):
        k, vw = _key(key), self.view
        st, none, has, val, ln = vw.st, vw.none, vw.has, vw.val, vw.ln
        if isinstance(value, StoreRef):
            if value.view is vw and z3.eq(value.k, k):
                return
            raise OutOfSubset('one store object under two node names')
        if value is None:
            nn, h, v, n = True, (lambda j: z3.BoolVal(False)), None, z3.IntVal(0)
        elif isinstance(value, dict) and not value:
            nn, h, v, n = False, (lambda j: z3.BoolVal(False)), None, z3.IntVal(0)
        elif isinstance(value, StoreVal):
            nn, h, v, n = False, value.has, value.val, value.ln
        else:
            raise OutOfSubset('store object of type %s' % type(value).__name__)
        vw.st = lambda q: z3.Or(st(q), q == k)
        vw.none = lambda q: z3.If(q == k, z3.BoolVal(nn), none(q))
        vw.has = lambda q, j: z3.If(q == k, h(j), has(q, j))
        vw.val = (lambda q, j: z3.If(q == k, v(j), val(q, j))) if v is not None else val
        vw.ln = lambda q: z3.If(q == k, n, ln(q))

    def pop(self, key):
        k, vw = _key(key), self.view
        if not cur().branch(vw.st(k)):
            raise program_exception(KeyError('node not in stores'))
        if cur().branch(vw.none(k)):
            out = None
        else:
            has, val, ln = vw.has, vw.val, vw.ln
            out = StoreVal(lambda j: has(k, j), lambda j: val(k, j), ln(k))
        st = vw.st
        vw.st = lambda q: z3.And(st(q), q != k)
        return out

    def _set_iter(self, make):
        vw = self.view
        st = vw.st                  # the key set at loop entry (a python dict must not change size during iteration)
        return SetIter(Key, lambda q: st(q), make)

    def _vc_iter(self):
        return self._set_iter(lambda q: SKey(q))

    def keys(self):
        return _DView(self, lambda q: SKey(q))

    def values(self):
        return _DView(self, lambda q: StoreRef(self.view, q))

    def items(self):
        return _DView(self, lambda q: (SKey(q), StoreRef(self.view, q)))

    def __iter__(self):
        raise OutOfSubset('iteration over the stores needs a loop contract')

    def _vc_havoc(self, name='stores'):
        self.view._vc_havoc(name)


class _DView:
    def __init__(self, d, make):
        self.d, self.make = d, make

    def _vc_iter(self):
        return self.d._set_iter(self.make)

    def _vc_list(self):         # list(stores.keys()): the list is only iterated, order irrelevant for the dict built from it
        return self

    def __bool__(self):
        return cur().branch(ex_key(lambda q: self.d.view.st(q)))

    def __iter__(self):
        raise OutOfSubset('iteration over the stores needs a loop contract')


class BatchProxy(Sym):
    """a batch: python dict node name -> output value"""

    def __init__(self, has, val):
        self.has, self.val = has, val
        self.t = None

    @classmethod
    def fresh(cls, name):
        b = cls(None, None)
        b._vc_havoc(name)
        return b

    @classmethod
    def empty(cls):
        vc = cur()
        junk = vc.fresh_fn('unset', Key, Val)
        return cls(lambda k: z3.BoolVal(False), lambda k: junk(k))

    def _vc_havoc(self, name='batch'):
        vc = cur()
        a, b = vc.fresh_fn(name + '_has', Key, B), vc.fresh_fn(name + '_val', Key, Val)
        self.has, self.val = (lambda k: a(k)), (lambda k: b(k))

    def __contains__(self, key):
        return SBool(self.has(_key(key)))

    def __getitem__(self, key):
        k = _key(key)
        cur().oblige('call-pre[batch[node]: node in batch]', self.has(k))
        return SVal(self.val(k))

    def __setitem__(self, key, value):
        k, v = _key(key), _val(value)
        has, val = self.has, self.val
        self.has = lambda q: z3.Or(has(q), q == k)
        self.val = lambda q: z3.If(q == k, v, val(q))

    def items(self):
        has, val = self.has, self.val
        return _Iterable(lambda: SetIter(Key, lambda q: has(q), lambda q: (SKey(q), SVal(val(q)))))

    def __iter__(self):
        raise OutOfSubset('iteration over a batch needs a loop contract')


class _Iterable:
    def __init__(self, mk):
        self.mk = mk

    def _vc_iter(self):
        return self.mk()

    def __iter__(self):
        raise OutOfSubset('needs a loop contract')


class NetProxy(Sym):
    """networkx.DiGraph as PoolLoader uses it: has_node, nodes[n]['output'] = v, nodes[n].pop('operation', None), graph['outputs'] (a set)"""

    def __init__(self, name='net'):
        self.t = None
        self._vc_havoc(name)

    def _vc_havoc(self, name='net'):
        vc = cur()
        a, b, c = vc.fresh_fn(name + '_node', Key, B), vc.fresh_fn(name + '_has_out', Key, B), vc.fresh_fn(name + '_out', Key, Val)
        d, e = vc.fresh_fn(name + '_has_op', Key, B), vc.fresh_fn(name + '_outputs', Key, B)
        self.node, self.has_out, self.out = (lambda k: a(k)), (lambda k: b(k)), (lambda k: c(k))
        self.has_op, self.outs = (lambda k: d(k)), (lambda k: e(k))

    def snap(self):
        n = NetProxy.__new__(NetProxy)
        n.t = None
        n.node, n.has_out, n.out, n.has_op, n.outs = self.node, self.has_out, self.out, self.has_op, self.outs
        return n

    def has_node(self, key):
        return SBool(self.node(_key(key)))

    def __contains__(self, key):
        return SBool(self.node(_key(key)))

    @property
    def nodes(self):
        return _NodeView(self)

    @property
    def graph(self):
        return _GraphDict(self)


class _NodeView:
    def __init__(self, net):
        self.net = net

    def __getitem__(self, key):
        k = _key(key)
        cur().oblige('call-pre[net.nodes[node]: node in the net]', self.net.node(k))
        return _NodeAttr(self.net, k)


class _NodeAttr:
    def __init__(self, net, k):
        self.net, self.k = net, k

    def __setitem__(self, attr, value):
        net, k = self.net, self.k
        if attr != 'output':
            raise OutOfSubset('node attribute %r written' % (attr,))
        v = _val(value)
        ho, o = net.has_out, net.out
        net.has_out = lambda q: z3.Or(ho(q), q == k)
        net.out = lambda q: z3.If(q == k, v, o(q))

    def pop(self, attr, *default):
        net, k = self.net, self.k
        if attr != 'operation' or not default:
            raise OutOfSubset('pop(%r) without default' % (attr,))
        hp = net.has_op
        net.has_op = lambda q: z3.And(hp(q), q != k)
        return None          # the popped operation object is not used by the caller

    def __contains__(self, attr):
        if attr == 'operation':
            return SBool(self.net.has_op(self.k))
        if attr == 'output':
            return SBool(self.net.has_out(self.k))
        raise OutOfSubset('node attribute %r tested' % (attr,))


class _GraphDict:
    def __init__(self, net):
        self.net = net

    def __getitem__(self, k):
        if k != 'outputs':
            raise OutOfSubset('graph attribute %r' % (k,))
        return _OutputsSet(self.net)


class _OutputsSet:
    def __init__(self, net):
        self.net = net

    def __contains__(self, key):
        return SBool(self.net.outs(_key(key)))

    def add(self, key):
        k, net = _key(key), self.net
        o = net.outs
        net.outs = lambda q: z3.Or(o(q), q == k)


# ---------------------------------------------------------------- shared postconditions (proved by one contract, used by callers / lemmas)
def add_batch_post(v0, v1, bhas, bval, idx):
    added = lambda k: z3.And(bhas(k), v0.st(k), z3.Not(v0.has(k, idx)))
    return [('adds exactly the (node, batch_index) pairs with node in stores and in the batch; nothing else appears or disappears',
             fa_ki(lambda k, i: v1.has(k, i) == z3.Or(v0.has(k, i), z3.And(i == idx, bhas(k), v0.st(k))))),
            ('NEVER overwrites: every pair held before keeps its value (frame over all other pairs)',
             fa_ki(lambda k, i: z3.Implies(v0.has(k, i), v1.val(k, i) == v0.val(k, i)))),
            ('an added pair holds the value of the batch', fa_key(lambda k: z3.Implies(added(k), v1.val(k, idx) == bval(k)))),
            ('the set of stores is unchanged; a store is materialised only for a node of the batch',
             fa_key(lambda k: z3.And(v1.st(k) == v0.st(k), z3.Implies(v0.st(k), v1.none(k) == z3.And(v0.none(k), z3.Not(bhas(k))))))),
            ('len of a store grows by the number of pairs added to it', fa_key(lambda k: z3.Implies(v0.st(k), v1.ln(k) == v0.ln(k) + z3.If(added(k), 1, 0))))]


def get_batch_post(v, bhas, bval, idx):
    return [('the batch holds exactly the stored nodes that hold batch_index', fa_key(lambda k: bhas(k) == v.held(k, idx))),
            ('... with the stored values', fa_key(lambda k: z3.Implies(bhas(k), bval(k) == v.val(k, idx))))]


def load_post(v, n0, n1, idx):
    stored = lambda k: z3.And(v.st(k), n0.node(k))
    return [('a stored node of the net that holds the batch gets the stored value as output and has NO operation',
             fa_key(lambda k: z3.Implies(z3.And(stored(k), v.held(k, idx)), z3.And(n1.has_out(k), n1.out(k) == v.val(k, idx), z3.Not(n1.has_op(k)), n1.outs(k) == n0.outs(k))))),
            ('a stored node of the net that does not hold the batch is added to the requested outputs (so that it gets stored), otherwise untouched',
             fa_key(lambda k: z3.Implies(z3.And(stored(k), z3.Not(v.held(k, idx))),
                                         z3.And(n1.outs(k), n1.has_out(k) == n0.has_out(k), z3.Implies(n0.has_out(k), n1.out(k) == n0.out(k)), n1.has_op(k) == n0.has_op(k))))),
            ('frame: every other node (not stored, or not in the net) is unchanged and the requested outputs gain nothing else',
             fa_key(lambda k: z3.Implies(z3.Not(stored(k)), z3.And(n1.outs(k) == n0.outs(k), n1.has_out(k) == n0.has_out(k), z3.Implies(n0.has_out(k), n1.out(k) == n0.out(k)),
                                                                    n1.has_op(k) == n0.has_op(k))))),
            ('the node set of the net is unchanged', fa_key(lambda k: n1.node(k) == n0.node(k)))]


# ---------------------------------------------------------------- stubs of `self` / of a pool that follow the class in the tree
_members_cache = {}


def tree_class(vc, path, clsname):
    """fresh parse of a class of the tree under analysis: {member name: 'static' | 'class' | 'property' | 'method'}"""
    import ast
    import os
    from pyvc import instrument
    full = os.path.join(getattr(vc, 'repo', None) or os.environ.get('PYVC_REPO') or instrument.REPO, path)
    st = os.stat(full)
    key = (full, st.st_mtime_ns, st.st_size, clsname)
    if key not in _members_cache:
        out = {}
        for n in ast.parse(open(full).read()).body:
            if isinstance(n, ast.ClassDef) and n.name == clsname:
                for f in n.body:
                    if isinstance(f, ast.FunctionDef):
                        decos = {d.id if isinstance(d, ast.Name) else getattr(d, 'attr', '?') for d in f.decorator_list}
                        out.setdefault(f.name, 'static' if 'staticmethod' in decos else 'class' if 'classmethod' in decos else 'property' if 'property' in decos else
                                       'other' if decos else 'method')
        _members_cache[key] = out
    return _members_cache[key]


def sibling_fallback(vc, path, clsname):
    """__getattr__ of a stub object: a member the contract did not supply explicitly is the REAL member of the class in the tree, inlined
    (so an analysed method may call sibling helper methods / static methods / properties of its class and stays in the subset)"""
    import types
    members = tree_class(vc, path, clsname)

    def __getattr__(self_, name):
        kind = members.get(name)
        if kind is None or name.startswith('_vc_') or name.startswith('__'):
            raise AttributeError(name)
        if kind == 'other':
            raise OutOfSubset('%s.%s has a decorator the engine does not model' % (clsname, name))
        fn = inline(vc, '%s::%s.%s' % (path, clsname, name))
        if kind == 'static':
            return fn
        if kind == 'class':
            return types.MethodType(fn, type(self_))
        if kind == 'property':
            return fn(self_)
        return types.MethodType(fn, self_)
    return __getattr__


def pool_methods(vc, s, extra=None):
    """methods every OutputPool stub gets: python TRUTHINESS as the real class has it (no __bool__; __len__ defined => `not pool` is True
    for a pool that holds no batch; len(pool) is the symbolic s.pool_len >= 0, see the contract of OutputPool.__len__) + the sibling fallback"""
    members = tree_class(vc, 'elfi/store.py', 'OutputPool')
    m = dict(__getattr__=sibling_fallback(vc, 'elfi/store.py', 'OutputPool'))
    if '__bool__' in members:
        raise OutOfSubset('OutputPool defines __bool__: truthiness of a pool is not modelled')
    if '__len__' in members:
        s.pool_len = vc.fresh_int('pool_len', nonneg=True)
        m['__bool__'] = lambda self_: cur().branch(s.pool_len > 0)
        m['__len__'] = lambda self_: s.pool_len
    if '__contains__' in members:
        # OutputPool.__contains__ by its own (inlined) definition in the tree: `len(self) > batch_index`, len = the LONGEST store; the stub
        # answers with the same term, so `batch_index in pool` forks on pool_len > batch_index (a pool whose stores have different lengths
        # "contains" a batch that some store lacks)
        m['__contains__'] = lambda self_, i: cur().branch(s.pool_len > T(i))
    m.update(extra or {})
    return m


# ---------------------------------------------------------------- ComputationContext.__init__ / callback, OutputPool.set_context
class _Base(Contract):
    prop = 'C05'
    fin = 3
    fin_range = 4

    def witness(self, vc, model, ob):
        return dict(contract=self.cname)


class ContextInit(_Base):
    """raises ValueError iff pool.has_context and ((batch_size given and != pool.batch_size) or (seed given and != pool.seed));
    otherwise adopts the pool's values; set_context called iff the pool had none (the real has_context / set_context run inline)"""
    target = 'elfi/model/elfi_model.py::ComputationContext.__init__'

    def setup(self, vc):
        b, sd, pb, ps = z3.Ints('batch_size seed pool_batch_size pool_seed')
        vc.fin_bounds.extend([b, sd, pb, ps])
        s = NS(b=b, sd=sd, pb=pb, ps=ps, set_calls=[])
        s.b_given = vc.fork_values('batch_size', [True, False])
        s.sd_given = vc.fork_values('seed', [True, False])
        s.pool_kind = vc.fork_values('pool', ['context', 'no-context', 'half-context', 'none'])
        if s.pool_kind == 'none':
            s.pool = None
        else:
            real_set = inline(vc, 'elfi/store.py::OutputPool.set_context')

            def set_context(self_, context):
                s.set_calls.append(context)
                return real_set(self_, context)
            s.pool = make_object('OutputPool', attrs=dict(batch_size=SInt(pb) if s.pool_kind == 'context' else None,
                                                          seed=SInt(ps) if s.pool_kind in ('context', 'half-context') else None, name='pool'),
                                 methods=pool_methods(vc, s, dict(set_context=set_context)), properties=dict(has_context=inline(vc, 'elfi/store.py::OutputPool.has_context')))
        s.self = make_object('ComputationContext', methods=dict(__getattr__=sibling_fallback(vc, 'elfi/model/elfi_model.py', 'ComputationContext')), properties=dict(batch_size=inline(vc, 'elfi/model/elfi_model.py::ComputationContext.batch_size'),
                                                                   seed=inline(vc, 'elfi/model/elfi_model.py::ComputationContext.seed'),
                                                                   pool=inline(vc, 'elfi/model/elfi_model.py::ComputationContext.pool')))
        s.rseed = z3.Int('random_seed')
        return s, (s.self,), dict(batch_size=SInt(b) if s.b_given else None, seed=SInt(sd) if s.sd_given else None, pool=s.pool)

    def env(self, vc):
        return dict(random_seed=lambda: SInt(z3.Int('random_seed')))

    def requires(self, s):
        return [s.b >= 1, s.pb >= 1]          # batch sizes are positive (a pool context is always set from a context: batch_size or 1)

    def _differs(self, s):
        if s.pool_kind != 'context':
            return z3.BoolVal(False)
        return z3.Or(z3.And(z3.BoolVal(s.b_given), s.b != s.pb), z3.And(z3.BoolVal(s.sd_given), s.sd != s.ps))

    def raises(self, s):
        return {'ValueError': self._differs(s)}

    def iff_raises(self, s):
        return [('a batch_size or seed that differs from the pool context is refused', z3.Not(self._differs(s)))]

    def ensures(self, s, result):
        me = s.self
        out = [('the context keeps the pool it was given', z3.BoolVal(me.pool is s.pool))]
        if s.pool_kind == 'context':
            out += [('the pool context is adopted', z3.And(T(me.batch_size) == s.pb, T(me.seed) == s.ps)),
                    ('set_context is not called on a pool that has a context', z3.BoolVal(len(s.set_calls) == 0)),
                    ('the pool context is not changed', z3.And(T(s.pool.batch_size) == s.pb, T(s.pool.seed) == s.ps))]
        else:
            out += [('without a pool context the given values are used (batch_size default 1, seed default random_seed())',
                     z3.And(T(me.batch_size) == (s.b if s.b_given else 1), T(me.seed) == (s.sd if s.sd_given else s.rseed)))]
            if s.pool is not None:
                out += [('set_context is called exactly once, with this context, on a pool that had none', z3.BoolVal(len(s.set_calls) == 1 and s.set_calls[0] is me)),
                        ('afterwards the pool carries the context values', z3.And(T(s.pool.batch_size) == T(me.batch_size), T(s.pool.seed) == T(me.seed)))]
        return out


class SetContext(_Base):
    target = 'elfi/store.py::OutputPool.set_context'

    def setup(self, vc):
        b, sd, pb, ps = z3.Ints('batch_size seed pool_batch_size pool_seed')
        vc.fin_bounds.extend([b, sd, pb, ps])
        s = NS(b=b, sd=sd, pb=pb, ps=ps)
        s.has_b = vc.fork_values('pool_batch_size', [True, False])
        s.has_s = vc.fork_values('pool_seed', [True, False])
        s.named = vc.fork_values('name', [True, False])
        s.self = make_object('OutputPool', attrs=dict(batch_size=SInt(pb) if s.has_b else None, seed=SInt(ps) if s.has_s else None, name='given' if s.named else None),
                             methods=pool_methods(vc, s), properties=dict(has_context=inline(vc, 'elfi/store.py::OutputPool.has_context')))
        ctx = make_object('ComputationContext', attrs=dict(batch_size=SInt(b), seed=SInt(sd)))
        return s, (s.self, ctx), {}

    def raises(self, s):
        return {'ValueError': z3.BoolVal(s.has_b and s.has_s)}

    def iff_raises(self, s):
        return [('raises iff the context is already set', z3.BoolVal(not (s.has_b and s.has_s)))]

    def ensures(self, s, result):
        me = s.self
        return [('the pool takes batch_size and seed of the context', z3.And(T(me.batch_size) == s.b, T(me.seed) == s.sd)),
                ('a given name is kept, a missing one is set', z3.BoolVal((me.name == 'given') if s.named else isinstance(me.name, str)))]


class Callback(_Base):
    target = 'elfi/model/elfi_model.py::ComputationContext.callback'

    def setup(self, vc):
        s = NS(calls=[], batch=object(), idx=SInt(z3.Int('batch_index')))
        s.with_pool = vc.fork_values('pool', [True, False])
        pool = make_object('OutputPool', methods=pool_methods(vc, s, dict(add_batch=lambda self_, *a, **kw: s.calls.append((a, kw))))) if s.with_pool else None
        s.self = make_object('ComputationContext', attrs=dict(_pool=pool), methods=dict(__getattr__=sibling_fallback(vc, 'elfi/model/elfi_model.py', 'ComputationContext')))
        return s, (s.self, s.batch, s.idx), {}

    def ensures(self, s, result):
        if not s.with_pool:
            return [('without a pool nothing happens', z3.BoolVal(s.calls == []))]
        # 'exactly once' would be a clause read off the code (a correct fast path may skip add_batch for a batch every store already holds); the
        # property-level clause - the pool ends up holding the batch - is CallbackView's.  Here only: nothing else is ever handed to the pool.
        ok = len(s.calls) <= 1 and all(not kw and len(a) == 2 and a[0] is s.batch and a[1] is s.idx for a, kw in s.calls)
        return [('pool.add_batch is called at most once, and only with the received batch under its own batch index', z3.BoolVal(ok))]


# ---------------------------------------------------------------- OutputPool over the view
class _PoolContract(_Base):
    kind = 'dict'
    contiguous = False

    def _pool(self, vc, s, extra_methods=None):
        vc.axioms = key_axioms(vc)
        s.view = PoolView.fresh('pool', self.kind)
        s.v0 = s.view.snap()
        s.stores = StoresProxy(s.view)
        methods = dict(_get_store_for=inline(vc, 'elfi/store.py::OutputPool._get_store_for'),
                       _make_store_for=inline(vc, 'elfi/store.py::OutputPool._make_store_for'))
        methods.update(extra_methods or {})
        methods = pool_methods(vc, s, methods)
        s.self = make_object('OutputPool', attrs=dict(stores=s.stores), methods=methods,
                             properties=dict(output_names=inline(vc, 'elfi/store.py::OutputPool.output_names')))
        return s.self

    def requires(self, s):
        return s.v0.wf() + ([s.v0.contiguous()] if self.contiguous and self.kind != 'array' else [])


class AddBatch(_PoolContract):
    target = 'elfi/store.py::OutputPool.add_batch'

    def __init__(self, kind):
        self.kind = kind
        self.label = kind + '-stores'

    def setup(self, vc):
        s = NS(idx=z3.Int('batch_index'))
        vc.fin_bounds.append(s.idx)
        extra = None
        if self.kind == 'array':
            # ArrayPool._make_store_for creates an empty NpyStore over a new file (file system: C06); here: an empty array store
            extra = dict(_make_store_for=lambda self_, node: StoreVal(lambda i: z3.BoolVal(False), lambda i: z3.Const('nothing', Val), z3.IntVal(0)))
        self._pool(vc, s, extra)
        s.batch = BatchProxy.fresh('batch')
        s.bhas, s.bval = s.batch.has, s.batch.val
        return s, (s.self, s.batch, SInt(s.idx)), {}

    def requires(self, s):
        return _PoolContract.requires(self, s) + [s.idx >= 0]

    def _inv(self, s, l):
        vis = l.it.visited
        bh = lambda k: z3.And(vis(k), s.bhas(k))
        out = add_batch_post(s.v0, s.view, bh, s.bval, s.idx) + s.view.wf()
        if self.kind == 'array':
            out.append(('no visited store lies short of the batch', fa_key(lambda k: z3.Implies(z3.And(bh(k), s.v0.st(k)), s.idx <= s.v0.ln(k)))))
        return out

    @property
    def loops(self):
        return {0: Loop(inv=self._inv, modifies=lambda s, l: [s.view])}

    def _too_far(self, s):
        return ex_key(lambda k: z3.And(s.bhas(k), s.v0.st(k), s.idx > s.v0.ln(k)))

    def raises(self, s):
        if self.kind == 'array':
            return {'IndexError': self._too_far(s)}
        return {}

    def iff_raises(self, s):
        if self.kind == 'array':
            return [('an array store accepts the batch unless it lies beyond its end', z3.Not(self._too_far(s)))]
        return []

    def ensures(self, s, result):
        return add_batch_post(s.v0, s.view, s.bhas, s.bval, s.idx) + [('view_wf is preserved: ' + n, f) for n, f in s.view.wf()]


class CallbackView(_PoolContract):
    """ComputationContext.callback against the POOL VIEW (property level): whatever route the code takes (always add_batch, or a fast path that
    skips it), after the callback the pool holds the received batch exactly as OutputPool.add_batch would have left it - every stored node
    that is in the batch holds it at batch_index, nothing is overwritten, nothing else changes.  add_batch is the callee under its contract
    (AddBatch: havoc of the view + its post), `batch_index in pool` and len(pool) are the real definitions over the view
    (len = length of the LONGEST live store)."""
    target = 'elfi/model/elfi_model.py::ComputationContext.callback'
    label = 'pool-view'

    def __init__(self, kind='dict'):
        self.kind = kind
        self.label = 'pool-view,%s-stores' % kind

    def setup(self, vc):
        s = NS(idx=z3.Int('batch_index'), n_add=0)
        vc.fin_bounds.append(s.idx)
        vc.axioms = key_axioms(vc)
        s.view = PoolView.fresh('pool', self.kind)
        s.v0 = s.view.snap()
        s.batch = BatchProxy.fresh('batch')
        s.bhas, s.bval = s.batch.has, s.batch.val
        s.L = vc.fresh_int('len_pool', nonneg=True)          # len(pool): the maximum of the live stores' lengths (0 without a live store)

        def add_batch(self_, batch, batch_index, *a, **kw):
            if a or kw or batch is not s.batch:
                raise OutOfSubset('add_batch called with other arguments than the received batch')
            cur().oblige('call-pre[add_batch receives the batch index of the callback]', T(batch_index) == s.idx)
            if self.kind == 'array':
                cur().oblige('call-pre[add_batch on array stores: no store lies short of the batch]',
                             fa_key(lambda k: z3.Implies(z3.And(s.bhas(k), s.view.st(k)), s.idx <= s.view.ln(k))))
            before = s.view.snap()
            after = PoolView.fresh('after_add%d' % s.n_add, self.kind)
            s.n_add += 1
            cur().assume(*[f for _, f in add_batch_post(before, after, s.bhas, s.bval, s.idx)], *[f for _, f in after.wf()])
            s.view = after
        pool = make_object('OutputPool', methods=dict(add_batch=add_batch, __len__=lambda self_: s.L, __bool__=lambda self_: cur().branch(s.L > 0),
                                                      __contains__=lambda self_, i: cur().branch(s.L > T(i)),
                                                      __getattr__=sibling_fallback(vc, 'elfi/store.py', 'OutputPool')))
        s.self = make_object('ComputationContext', attrs=dict(_pool=pool), methods=dict(__getattr__=sibling_fallback(vc, 'elfi/model/elfi_model.py', 'ComputationContext')))
        return s, (s.self, s.batch, SInt(s.idx)), {}

    def requires(self, s):
        v = s.v0
        out = list(v.wf()) + [s.idx >= 0,
                              ('len(pool) is an upper bound of the live stores\' lengths', fa_key(lambda k: z3.Implies(v.live(k), v.ln(k) <= s.L))),
                              ('len(pool) is attained by a live store, or 0', z3.Or(s.L == 0, ex_key(lambda k: z3.And(v.live(k), v.ln(k) == s.L))))]
        if self.kind == 'array':
            # the precondition add_batch itself has for array stores (batches are consumed in index order: C04)
            out.append(('no store of a batch node lies short of the batch', fa_key(lambda k: z3.Implies(z3.And(s.bhas(k), v.st(k)), s.idx <= v.ln(k)))))
        return out

    def ensures(self, s, result):
        return [(n.replace('adds exactly', 'the pool ends up as add_batch leaves it: it holds exactly'), f) for n, f in add_batch_post(s.v0, s.view, s.bhas, s.bval, s.idx)]


class GetBatch(_PoolContract):
    target = 'elfi/store.py::OutputPool.get_batch'

    def setup(self, vc):
        s = NS(idx=z3.Int('batch_index'), made=[])
        vc.fin_bounds.append(s.idx)
        self._pool(vc, s)
        self._s = s
        return s, (s.self, SInt(s.idx)), {}

    def env(self, vc):
        s = self._s

        def dict_():
            b = BatchProxy.empty()
            s.made.append(b)
            return b
        return dict(dict=dict_)

    def _inv(self, s, l):
        b = l.batch
        if not isinstance(b, BatchProxy):
            return [('batch is the dict built by get_batch', z3.BoolVal(False))]
        vis = l.it.visited
        return [('visited stores that hold batch_index are in the batch with their value; nothing else is',
                 fa_key(lambda k: z3.And(b.has(k) == z3.And(vis(k), s.v0.held(k, s.idx)), z3.Implies(b.has(k), b.val(k) == s.v0.val(k, s.idx)))))]

    @property
    def loops(self):
        return {0: Loop(inv=self._inv, modifies=lambda s, l: [l.batch])}

    def ensures(self, s, result):
        if not isinstance(result, BatchProxy):
            return [('a batch dict is returned', z3.BoolVal(False))]
        return get_batch_post(s.v0, result.has, result.val, s.idx) + [('the pool is not modified', same_view(s.view, s.v0))]


class Len(_PoolContract):
    target = 'elfi/store.py::OutputPool.__len__'
    contiguous = True

    def setup(self, vc):
        s = NS()
        self._pool(vc, s)
        return s, (s.self,), {}

    def _inv(self, s, l):
        vis, v, r = l.it.visited, s.v0, T(l.largest)
        return [('largest bounds the visited stores', z3.And(r >= 0, fa_key(lambda k: z3.Implies(z3.And(vis(k), v.live(k)), v.ln(k) <= r)))),
                ('largest is attained', z3.Or(r == 0, ex_key(lambda k: z3.And(vis(k), v.live(k), v.ln(k) == r)))),
                ('the pool is not modified', same_view(s.view, s.v0))]

    @property
    def loops(self):
        return {0: Loop(inv=self._inv)}

    def ensures(self, s, result):
        return len_post(s.v0, T(result)) + [('the pool is not modified', same_view(s.view, s.v0))]


def len_post(v, r):
    return [('len(pool) = number of leading batch indices held by some store: i < len <=> some store holds batch i (i >= 0)',
             z3.And(r >= 0, fa_i(lambda i: z3.Implies(i >= 0, (i < r) == ex_key(lambda k: v.held(k, i))))))]


class ContainsC(_PoolContract):
    target = 'elfi/store.py::OutputPool.__contains__'
    contiguous = True

    def setup(self, vc):
        s = NS(idx=z3.Int('batch_index'))
        vc.fin_bounds.append(s.idx)

        def pool_len(self_):
            r = vc.fresh_int('pool_len')
            for n, f in s.view.wf() + [s.view.contiguous()]:
                vc.oblige('call-pre[len(pool): %s]' % n[:40], f)
            for n, f in len_post(s.view, r):       # proved by the contract of OutputPool.__len__
                vc.assume(f)
            return SInt(r)
        self._pool(vc, s, dict(_vc_len=pool_len))
        return s, (s.self, SInt(s.idx)), {}

    def requires(self, s):
        return _PoolContract.requires(self, s) + [s.idx >= 0]

    def ensures(self, s, result):
        return [('batch_index in pool <=> some store holds that batch', T(result) == ex_key(lambda k: s.v0.held(k, s.idx))),
                ('the pool is not modified', same_view(s.view, s.v0))]


class RemoveBatch(_PoolContract):
    target = 'elfi/store.py::OutputPool.remove_batch'

    def setup(self, vc):
        s = NS(idx=z3.Int('batch_index'))
        vc.fin_bounds.append(s.idx)
        self._pool(vc, s)
        return s, (s.self, SInt(s.idx)), {}

    def _post(self, s, vis):
        v0, v1, idx = s.v0, s.view, s.idx
        return [('exactly the pairs (node, batch_index) are removed', fa_ki(lambda k, i: v1.has(k, i) == z3.And(v0.has(k, i), z3.Not(z3.And(vis(k), i == idx))))),
                ('every other pair keeps its value', fa_ki(lambda k, i: z3.Implies(v1.has(k, i), v1.val(k, i) == v0.val(k, i)))),
                ('the stores themselves stay', fa_key(lambda k: z3.And(v1.st(k) == v0.st(k), v1.none(k) == v0.none(k)))),
                ('len of a store shrinks by the number of pairs removed', fa_key(lambda k: v1.ln(k) == v0.ln(k) - z3.If(z3.And(vis(k), v0.has(k, idx)), 1, 0)))]

    @property
    def loops(self):
        return {0: Loop(inv=lambda s, l: self._post(s, l.it.visited), modifies=lambda s, l: [s.view])}

    def ensures(self, s, result):
        return self._post(s, lambda k: s.v0.st(k))


class Clear(_PoolContract):
    target = 'elfi/store.py::OutputPool.clear'

    def setup(self, vc):
        s = NS()
        self._pool(vc, s)
        return s, (s.self,), {}

    def _post(self, s, vis):
        v0, v1 = s.v0, s.view
        return [('every store is emptied', fa_ki(lambda k, i: v1.has(k, i) == z3.And(v0.has(k, i), z3.Not(vis(k))))),
                ('the stores themselves stay', fa_key(lambda k: z3.And(v1.st(k) == v0.st(k), v1.none(k) == v0.none(k)))),
                ('len of every store is 0', fa_key(lambda k: v1.ln(k) == z3.If(vis(k), 0, v0.ln(k))))]

    @property
    def loops(self):
        return {0: Loop(inv=lambda s, l: self._post(s, l.it.visited), modifies=lambda s, l: [s.view])}

    def ensures(self, s, result):
        return self._post(s, lambda k: s.v0.st(k))


class AddStore(_PoolContract):
    target = 'elfi/store.py::OutputPool.add_store'

    def setup(self, vc):
        s = NS(node=z3.Const('node', Key))
        self._pool(vc, s)
        s.given = StoreVal.fresh('given') if vc.fork_values('store', [True, False]) else None
        return s, (s.self, SKey(s.node)), dict(store=s.given)

    def raises(self, s):
        return {'ValueError': s.v0.live(s.node)}

    def iff_raises(self, s):
        return [('an existing store is never replaced', z3.Not(s.v0.live(s.node)))]

    def ensures(self, s, result):
        v0, v1, n, g = s.v0, s.view, s.node, s.given
        return [('the node has a (non-None) store afterwards', v1.live(n)),
                ('... holding what the given store holds (nothing for a default store)',
                 fa_i(lambda i: z3.And(v1.has(n, i) == (g.has(i) if g else z3.BoolVal(False)), z3.Implies(v1.has(n, i), v1.val(n, i) == g.val(i)) if g else z3.BoolVal(True)))),
                ('len of the new store', v1.ln(n) == (g.ln if g else 0)),
                ('every other store is unchanged', fa_key(lambda k: z3.Implies(k != n, same_store(v1, v0, k))))]


class RemoveStore(_PoolContract):
    target = 'elfi/store.py::OutputPool.remove_store'

    def setup(self, vc):
        s = NS(node=z3.Const('node', Key))
        self._pool(vc, s)
        return s, (s.self, SKey(s.node)), {}

    def raises(self, s):
        return {'KeyError': z3.Not(s.v0.st(s.node))}

    def iff_raises(self, s):
        return [('only a node that has a store can be removed', s.v0.st(s.node))]

    def ensures(self, s, result):
        v0, v1, n = s.v0, s.view, s.node
        if result is None:
            ret = v0.none(n)
        elif isinstance(result, StoreVal):
            ret = z3.And(z3.Not(v0.none(n)), result.ln == v0.ln(n), fa_i(lambda i: z3.And(result.has(i) == v0.has(n, i), z3.Implies(v0.has(n, i), result.val(i) == v0.val(n, i)))))
        else:
            ret = z3.BoolVal(False)
        return [('the node has no store afterwards', z3.Not(v1.st(n))),
                ('the removed store is returned with its content', ret),
                ('every other store is unchanged', fa_key(lambda k: z3.Implies(k != n, same_store(v1, v0, k))))]


# ---------------------------------------------------------------- PoolLoader.load
class PoolLoad(_PoolContract):
    target = 'elfi/loader.py::PoolLoader.load'

    def __init__(self, with_pool=True):
        self.with_pool = with_pool
        self.label = 'pool' if with_pool else 'no-pool'

    def setup(self, vc):
        s = NS(idx=z3.Int('batch_index'))
        vc.fin_bounds.append(s.idx)
        vc.axioms = key_axioms(vc)
        s.net = NetProxy('net')
        s.n0 = s.net.snap()
        s.view = PoolView.fresh('pool')
        s.v0 = s.view.snap()
        pool = None
        if self.with_pool:
            def get_batch(self_, batch_index, output_names=None):
                # callee under contract: OutputPool.get_batch (GetBatch above)
                if output_names is not None:
                    raise OutOfSubset('get_batch with explicit output names')
                for n, f in s.view.wf():
                    vc.oblige('call-pre[get_batch: %s]' % n[:40], f)
                b = BatchProxy.fresh('got')
                for n, f in get_batch_post(s.view, b.has, b.val, T(batch_index)):
                    vc.assume(f)
                return b
            pool = make_object('OutputPool', attrs=dict(stores=StoresProxy(s.view)), methods=pool_methods(vc, s, dict(get_batch=Stub('OutputPool.get_batch', lambda vc_, *a, **k: get_batch(None, *a, **k), 'GetBatch'))))
        s.ctx = make_object('ComputationContext', attrs=dict(pool=pool))
        return s, (object(), s.ctx, s.net, SInt(s.idx)), {}

    def requires(self, s):
        return s.v0.wf()

    def _inv(self, s, l):
        vis = l.it.visited
        part = PoolView(lambda k: z3.And(s.v0.st(k), vis(k)), s.v0.none, s.v0.has, s.v0.val, s.v0.ln)
        return load_post(part, s.n0, s.net, s.idx) + [('the pool is not modified', same_view(s.view, s.v0))]

    @property
    def loops(self):
        return {0: Loop(inv=self._inv, modifies=lambda s, l: [s.net])} if self.with_pool else {}

    def ensures(self, s, result):
        out = [('the loaded net is the compiled net object', z3.BoolVal(result is s.net)), ('the pool is not modified', same_view(s.view, s.v0))]
        if not self.with_pool:
            nothing = PoolView(lambda k: z3.BoolVal(False), s.v0.none, s.v0.has, s.v0.val, s.v0.ln)
            return out + load_post(nothing, s.n0, s.net, s.idx)
        return out + load_post(s.v0, s.n0, s.net, s.idx)


# ---------------------------------------------------------------- lemmas over the contracts
class LemmaNoResim(_Base):
    """(i) no re-simulation: PoolLoader.load post + assumed C03 contract of Executor.execute (only nodes that have an operation in the net
    it receives are invoked) => the operation of a stored node is not invoked for a batch the pool holds"""
    target = '@verif/lemmas/c05_lemmas.py::lemma_no_resimulation'

    def setup(self, vc):
        vc.axioms = key_axioms(vc)
        s = NS(idx=z3.Int('batch_index'), v=PoolView.fresh('pool'), n0=NetProxy('net0'), n1=NetProxy('net1'), calls=z3.Function('calls', Key, I))
        vc.fin_bounds.append(s.idx)
        return s, (), {}

    def requires(self, s):
        return load_post(s.v, s.n0, s.n1, s.idx) + \
            [('C03 (assumed): Executor.execute invokes only operations present in the loaded net', fa_key(lambda k: z3.And(s.calls(k) >= 0, z3.Implies(s.calls(k) > 0, s.n1.has_op(k)))))]

    def ensures(self, s, result):
        return [("a stored node's operation is never invoked again for a batch the pool holds",
                 fa_key(lambda k: z3.Implies(z3.And(s.v.st(k), s.n0.node(k), s.v.held(k, s.idx)), s.calls(k) == 0)))]


FRESH = z3.Function('fresh_value', Key, I, Val)        # the value a fresh (pool-free) computation of node k produces in batch i


class LemmaPoolContent(_Base):
    """(ii) pool content: a run that consumes the batches 0 .. n-1 (C04: each offered to callback exactly once; Callback: -> add_batch once;
    PoolLoader.load: every stored node of the net that does not hold batch t is a requested output; C03: the batch has exactly the requested
    outputs, with fresh values) leaves every stored node of the net with the index set (before) | [0, n) and fresh values"""
    target = '@verif/lemmas/c05_lemmas.py::lemma_pool_content'
    fin = 3
    fin_range = 4

    def setup(self, vc):
        vc.axioms = key_axioms(vc)
        s = NS(n=z3.Int('n_consumed'), view=PoolView.fresh('pool'), node=z3.Function('net_node', Key, B))
        s.v0 = s.view.snap()
        vc.fin_bounds.append(s.n)
        self._s = s
        return s, (SInt(s.n),), {}

    def env(self, vc):
        s = self._s

        def consume(t):
            t = T(t)
            v = s.view.snap()
            b = BatchProxy.fresh('consumed')
            vc.assume(fa_key(lambda k: z3.Implies(z3.And(v.st(k), s.node(k), z3.Not(v.held(k, t))), z3.And(b.has(k), b.val(k) == FRESH(k, t)))),   # load post + C03
                      fa_key(lambda k: z3.Implies(b.has(k), z3.And(s.node(k), z3.Implies(v.held(k, t), b.val(k) == v.val(k, t))))))                  # outputs are nodes of the net; a loaded output is the stored value
            s.view._vc_havoc('after')
            for n, f in add_batch_post(v, s.view, b.has, b.val, t) + s.view.wf():
                vc.assume(f)
        return dict(consume=consume)

    def requires(self, s):
        return [s.n >= 0] + s.v0.wf() + [('the pool content before the run is fresh', fa_ki(lambda k, i: z3.Implies(s.v0.held(k, i), s.v0.val(k, i) == FRESH(k, i))))]

    def _post(self, s, t):
        v0, v1 = s.v0, s.view
        mine = lambda k: z3.And(v0.st(k), s.node(k))
        return [('every stored node of the net holds exactly (what it held before) | [0, consumed)',
                 fa_ki(lambda k, i: z3.Implies(mine(k), v1.has(k, i) == z3.Or(v0.has(k, i), z3.And(0 <= i, i < t))))),
                ('stores of nodes outside the net keep their content', fa_ki(lambda k, i: z3.Implies(z3.Not(mine(k)), v1.has(k, i) == v0.has(k, i)))),
                ('every held value is the one a fresh computation produces', fa_ki(lambda k, i: z3.Implies(v1.held(k, i), v1.val(k, i) == FRESH(k, i)))),
                ('the set of stores is unchanged', fa_key(lambda k: z3.And(v1.st(k) == v0.st(k), z3.Implies(z3.And(v0.st(k), v1.none(k)), v0.none(k)))))]

    def _inv(self, s, l):
        t = T(l.t)
        return [z3.And(t >= 0, t <= s.n)] + self._post(s, t) + s.view.wf()

    @property
    def loops(self):
        return {0: Loop(inv=self._inv, modifies=lambda s, l: [s.view])}

    def ensures(self, s, result):
        return self._post(s, s.n)


POS_FREE = z3.Function('pos_free', I, I)       # generator position seen by the j-th stochastic node (execution order) in the pool-free run
POS_POOL = z3.Function('pos_pool', I, I)       # ... in the run with the pool
DRAWS = z3.Function('draws', I, I)             # number of values node j takes from the generator when it executes
SKIP = z3.Function('skipped', I, B)            # node j is loaded from the pool (its operation is dropped)


class LemmaGenerator(_Base):
    """(iii) the generator position seen by an EXECUTED stochastic node.  Stochastic nodes 0 .. m-1 in execution order, the simulator
    last (m-1), parameters before it; one RandomState per batch, consumed sequentially (loader / executor: C02, C03).
    'admissible'  requires store_set_admissible: the skipped stochastic nodes form a suffix  =>  positions agree   (proved)
    'stated-form' requires only the form in the property text (all parameters stored or none; the simulator stored or not) =>  REFUTED:
                  parameters stored, simulator not stored but re-executed sees position 0 instead of sum(draws)  = known finding C05-K1"""
    target = '@verif/lemmas/c05_lemmas.py::lemma_generator_position'
    fin = 3
    fin_range = 4

    def __init__(self, form):
        self.form = form
        self.label = form

    def setup(self, vc):
        s = NS(j=z3.Int('j'), m=z3.Int('m'), params_stored=z3.Bool('params_stored'))
        vc.fin_bounds.extend([s.j, s.m])
        self._s = s
        return s, (SInt(s.j),), {}

    def env(self, vc):
        def unfold(k):
            k = T(k)
            vc.oblige('call-pre[unfold at k >= 0]', k >= 0)
            vc.assume(POS_FREE(k + 1) == POS_FREE(k) + DRAWS(k), POS_POOL(k + 1) == POS_POOL(k) + z3.If(SKIP(k), 0, DRAWS(k)))
        return dict(unfold=unfold)

    def requires(self, s):
        r = [s.m >= 1, s.j >= 0, s.j < s.m, POS_FREE(0) == 0, POS_POOL(0) == 0, z3.Not(SKIP(s.j)),
             ('stated form: the parameters are stored all together or not at all', forall_range(0, s.m - 1, lambda q: SKIP(q) == s.params_stored, 'q'))]
        if self.form == 'admissible':
            r.append(('store_set_admissible: the skipped stochastic nodes form a suffix in execution order',
                      forall_range(0, s.m, lambda q: z3.Implies(SKIP(q), forall_range(q, s.m, lambda p: SKIP(p), 'p')), 'q')))
        return r

    def _inv(self, s, l):
        k = T(l.k)
        return [z3.And(k >= 0, k <= s.j), POS_POOL(k) == POS_FREE(k)]

    @property
    def loops(self):
        return {0: Loop(inv=self._inv)}

    def ensures(self, s, result):
        return [('an executed stochastic node sees the generator position of the pool-free run', POS_POOL(s.j) == POS_FREE(s.j))]

    def witness(self, vc, model, ob):
        return dict(vehicle='history', kind='dict', stores=['t1', 't2', 'S1'], history=['R2', 'R2'], batch_size=2, seed=3)


class LemmaStatedFormAdmissible(_Base):
    """a store set of the stated form that contains the simulator whenever it contains the parameters is admissible"""
    target = '@verif/lemmas/c05_lemmas.py::lemma_stated_form_admissible'

    def setup(self, vc):
        s = NS(m=z3.Int('m'), params_stored=z3.Bool('params_stored'))
        vc.fin_bounds.append(s.m)
        return s, (), {}

    def requires(self, s):
        return [s.m >= 1, forall_range(0, s.m - 1, lambda q: SKIP(q) == s.params_stored, 'q'), z3.Implies(s.params_stored, SKIP(s.m - 1))]

    def ensures(self, s, result):
        return [('store_set_admissible', forall_range(0, s.m, lambda q: z3.Implies(SKIP(q), forall_range(q, s.m, lambda p: SKIP(p), 'p')), 'q'))]


VAL_FREE, VAL_POOL = z3.Function('value_free', I, Val), z3.Function('value_pool', I, Val)     # output of the j-th needed node (execution order) without / with the pool
LOADED, STOCH, PARENT = z3.Function('loaded', I, B), z3.Function('stochastic', I, B), z3.Function('parent', I, I, B)
GP_FREE, GP_POOL = z3.Function('gen_pos_free', I, I), z3.Function('gen_pos_pool', I, I)


class LemmaSameValues(_Base):
    """(iv) same node outputs as without a pool, over the abstract execution model: needed nodes 0 .. n-1 in execution order (parents first: C02),
    a node is either LOADED from the pool (value = stored value = fresh value: LemmaPoolContent + PoolLoader.load) or executed; an executed node is a
    deterministic function of its parents' outputs and, if stochastic, of the generator position (assumed); executed stochastic nodes see the
    pool-free generator position (LemmaGenerator under store_set_admissible)  =>  every node's output equals the pool-free one"""
    target = '@verif/lemmas/c05_lemmas.py::lemma_same_values'

    def setup(self, vc):
        s = NS(n=z3.Int('n_nodes'))
        vc.fin_bounds.append(s.n)
        return s, (SInt(s.n),), {}

    def env(self, vc):
        def step(k):
            k = T(k)
            vc.oblige('call-pre[step at k >= 0]', k >= 0)
            vc.assume(z3.Implies(z3.And(z3.Not(LOADED(k)), forall_range(0, k, lambda p: z3.Implies(PARENT(p, k), VAL_POOL(p) == VAL_FREE(p)), 'p'),
                                        z3.Implies(STOCH(k), GP_POOL(k) == GP_FREE(k))), VAL_POOL(k) == VAL_FREE(k)))       # determinism of node k (assumed)
        return dict(step=step)

    def requires(self, s):
        return [s.n >= 0,
                ('a loaded node carries the value a fresh computation produces', forall_range(0, s.n, lambda j: z3.Implies(LOADED(j), VAL_POOL(j) == VAL_FREE(j)), 'j')),
                ('an executed stochastic node sees the pool-free generator position', forall_range(0, s.n, lambda j: z3.Implies(z3.And(z3.Not(LOADED(j)), STOCH(j)), GP_POOL(j) == GP_FREE(j)), 'j'))]

    @property
    def loops(self):
        return {0: Loop(inv=lambda s, l: [z3.And(T(l.k) >= 0, T(l.k) <= s.n), forall_range(0, T(l.k), lambda j: VAL_POOL(j) == VAL_FREE(j), 'j')])}

    def ensures(self, s, result):
        return [('every needed node has the output of the pool-free run', forall_range(0, s.n, lambda j: VAL_POOL(j) == VAL_FREE(j), 'j'))]


CONTRACTS = [ContextInit(), SetContext(), Callback(), CallbackView('dict'), CallbackView('array'), AddBatch('dict'), AddBatch('array'), GetBatch(), Len(), ContainsC(), RemoveBatch(), Clear(),
             AddStore(), RemoveStore(), PoolLoad(True), PoolLoad(False),
             LemmaNoResim(), LemmaPoolContent(), LemmaGenerator('admissible'), LemmaGenerator('stated-form'), LemmaStatedFormAdmissible(), LemmaSameValues()]

TRUSTED_BASE = ["Lean lemma L4a (lemmas/L4.lean, re-checked in the thorough tier): an invariant preserved by every operation holds after ANY finite sequence of operations; the reading that its hypothesis is the conjunction of this module's per-operation obligations is not mechanised; L4b: per-operation refinement (pool content view) lifts to operation sequences",
                'pyvc engine: proxies, loop cutting (visited-set iteration over dicts), inlining of real helper methods / properties',
                'python dict contract of a store (in / getitem / setitem / delitem / len / clear); elfi ArrayStore as specified by C06 (prefix of indices, append at len, IndexError beyond) - proxy StoreRef, sanity-tested',
                'networkx node-attribute dicts and graph["outputs"] set as used by PoolLoader (proxy NetProxy, sanity-tested)',
                'C03 (assumed callee contract): Executor.execute invokes only nodes that have an operation in the net it receives and returns exactly the requested outputs',
                'C04 (assumed callee contract): BatchHandler.wait_next offers every consumed batch to context.callback exactly once, batches are consumed in index order 0, 1, ...']
ASSUMPTIONS = ['A-INT', 'A-LOG', 'user operations are deterministic functions of their inputs and of the generator position (FRESH(k, i) is a function)',
               'distinct node names have distinct store objects',
               'one RandomState per batch consumed sequentially by the stochastic nodes in a fixed execution order, the number of draws of a node does not depend on the pool (C02/C03)',
               'replaced downstream nodes and their descendants are not stored at the time of the rerun (a pool keyed by node name cannot notice a changed function)',
               'batch indices are >= 0']
NOT_PROVED = ['"gives exactly the results of the same seeded run without a pool": proved are the pool bookkeeping, the loaded net, no re-simulation, the pool content and the generator-position lemma under store_set_admissible; '
              'that the compiled net / executor / sampler turn equal node outputs into equal Sample results is bounded (histories <= 4 operations, 30 store sets, dict and on-disk pools, 2-3 batches)',
              '"on-disk pools": ArrayPool._make_store_for / save / close / open touch the file system and pickle: bounded only (close -> open -> reuse histories); the array-store content is C06',
              'store sets of the stated form that hold the parameters but not the simulator: KNOWN FINDING C05-K1 (results differ from the pool-free run when the simulator is re-executed)']


def sanity():
    out = []
    d = {}
    d[3] = 'a'
    before = len(d)
    d[3] = 'b'
    out.append(('dict store: setitem of a present key keeps len, of an absent key adds one', before == 1 and len(d) == 1 and (d.__setitem__(4, 'c') or len(d) == 2)))
    del d[3]
    out.append(('dict store: delitem removes exactly the key', 3 not in d and 4 in d and len(d) == 1))
    try:
        0 in None
        ok = False
    except TypeError:
        ok = True
    out.append(('`i in None` raises TypeError', ok))
    import networkx as nx
    g = nx.DiGraph()
    g.add_node('a', operation=1)
    g.graph['outputs'] = set()
    g.nodes['a']['output'] = 5
    r = g.nodes['a'].pop('operation', None)
    g.nodes['a'].pop('operation', None)
    g.graph['outputs'].add('a')
    out.append(('networkx node attribute dict / outputs set', g.has_node('a') and not g.has_node('b') and g.nodes['a'] == {'output': 5} and r == 1 and 'a' in g.graph['outputs']))
    from pyvc import native
    st = native.import_module('elfi.store')
    a = st.ArrayStore([0] * 6, 2, n_batches=1)
    a[1] = [7, 7]
    try:
        a[3] = [1, 1]
        ok = False
    except IndexError:
        ok = True
    out.append(('ArrayStore: append at len, IndexError beyond, prefix membership', ok and len(a) == 2 and 1 in a and 2 not in a))
    return out


def bounded(tier, seed):
    from bounded import c05 as b
    _cache['hist'], _cache['api'] = b.run_histories(tier, seed, stop_first=False), b.run_api(tier, seed)
    return [_cache['hist'], _cache['api']]


_cache = {}


def replay_refuted(cname, rf):
    from bounded import c05 as b
    if cname.startswith('lemma_generator_position'):
        inp = dict(vehicle='history', kind='dict', stores=['t1', 't2', 'S1'], history=['R2', 'R2'], batch_size=2, seed=3)
        return dict(found=not b.replay_input(inp), input=inp, observed='rerun with parameters stored and the simulator re-executed differs from the pool-free run')
    if cname.startswith('lemma_'):
        return dict(found=False, searched='a lemma over the contracts has no native input of its own')
    api_first = cname.startswith('OutputPool.') and not cname.startswith('OutputPool.set_context')
    want = cname.split('.')[-1].split('[')[0].strip('_')
    best = None
    for which in (['api', 'hist'] if api_first else ['hist', 'api']):
        if which not in _cache:
            _cache[which] = b.run_api('quick', 0) if which == 'api' else b.run_histories('quick', 0, stop_first=False)
        fs = [f for f in _cache[which]['failures'] if f['signature'] != 'c05:params-stored-sim-reexecuted']
        for f in fs:
            if want in f['signature']:
                return dict(found=True, input=f['input'], observed=f['what'])
        if fs and best is None:
            best = fs[0]
    if best:
        return dict(found=True, input=best['input'], observed=best['what'])
    return dict(found=False, searched='pool histories <= 4 and pool API sequences <= 3 (quick bounds)')


def replay_input(inp):
    from bounded import c05 as b
    return b.replay_input(inp)

USES_LEAN_LEMMAS = ['L4a invariant after any operation sequence', 'L4b refinement after any operation sequence']      # re-checked with lean (selftest/lean_check.sh) in the thorough tier
