"""C06 - On-disk array stores keep exactly what was written, across reopen and crash.

Functions under contract (real bodies read from elfi/store.py at run time, executed over proxies):
  NpyArray: size, closed, initialized, __len__, memmap, __getitem__, __setitem__, append (2 cases: initialised; first append to a new file),
            truncate, clear, flush, close, __getstate__, _prepare_header_data, _write_header_data (2 cases), _init_from_file_header,
            init_from_array, __init__ (3 cases: reopen or create; truncate=True; initial array), __setstate__, delete (2 cases)
  ArrayStore: __init__ (2 cases), _to_slice, __len__, __contains__, __getitem__, __setitem__, __delitem__, clear (2 cases)
  NpyStore:   __setitem__, __delitem__

Model of the LIBRARY objects only (file object, io.BytesIO, numpy.lib.format, np.memmap, ndarray data):
  ghost disk   = (hdr_rows, hdr_tail, hdr_dtype, prefix_H, data_rows, content : row -> value)
  ghost Hist   = logical contents (n, content) seen since the last completed flush, plus the content the operation in progress leads to
  fs (FileSpec) updates the ghost disk in program order and emits, after EVERY file operation (seek/write/truncate/flush/close, creation of
  a np.memmap, store through the memmap), the two crash obligations of the property's last sentence (kinds `crash[...]`):
     the file still loads (0 <= header rows <= data rows, header describes the row shape/dtype, length field = H)
     the content the file shows (its first hdr_rows rows) is a logical content of Hist
  ghost `buffered`: bytes written through fs may sit in its user-space buffer until the next seek/truncate/flush/close; a store through
  the memmap bypasses that buffer, so it carries the call-pre "nothing buffered".
Batches handed in by a caller (append / __setitem__ / init_from_array / store[i] = batch) carry a SYMBOLIC memory layout (C-contiguous or
not, Fortran-contiguous or not); ndarray.tobytes(order) has its real meaning ('C' = logical rows, 'F' = column-major image, 'A' = column-major
iff F- and not C-contiguous), a store through the memmap is layout-independent.  File names are opaque path ids; os.path.exists is an
arbitrary predicate (file-system oracle), os.path.basename / "+ '.npy'" / "[-4:] == '.npy'" uninterpreted functions with the three string
facts of path_facts; open() creates / reopens the ghost file; self.__init__ inside __setstate__ is a recording stub under the Init contract.
View of an NpyArray: rows = disk content on [0, shape[0]);  npy_ok is the representation invariant (precondition and postcondition of
every public method; the two header helpers, which run in the middle of an operation, have the weaker write_header_pre).
Callees under contract are replaced at call sites by their contract (spec_* functions / stub properties of NpySelf, ArrayModel, _Super).

Defects this check refutes on the pinned tree (each with a native replay from bounded/c06.py, both repaired by a 2-line hunk):
  F3   NpyArray.truncate cuts the file while the shorter header is only prepared  -> crash[killed after fs.truncate(): the file still loads]
  F19  NpyArray.__setitem__ overwrites visible rows in place while the header of appended rows is only prepared -> crash[killed after
       memmap store: file content = a logical content ...]  (new; repair: `if self._header_bytes_to_write: self.flush()` first)
"""
MANIFEST = {
    'category': 'proof',
    'text': 'NpyArray.append (also the first append to a new file)/truncate/clear/flush/close/__getstate__/__setstate__/__init__ (reopen, create, '
            'truncate=True, initial array)/delete/memmap/__getitem__/__setitem__/_prepare_header_data/_write_header_data/'
            '_init_from_file_header/init_from_array and the list-of-batches view of ArrayStore/NpyStore (__init__ of ArrayStore/__setitem__/__getitem__/__delitem__/'
            '__contains__/__len__/_to_slice/clear) are verified for all row counts, row widths, item sizes, header lengths, batch sizes, memory layouts of '
            'the batch handed in (C-/Fortran-ordered, transposed, strided: ndarray.tobytes(order) with its real meaning) and all file-system states '
            '(os.path.exists an arbitrary predicate: which file a reopened / unpickled store is bound to) against a '
            'ghost model of the .npy file: representation invariant npy_ok before and after every method, functional postconditions from '
            'the property text, and after EVERY file operation the two crash obligations (file still loads; visible content is a logical '
            'content seen since the last completed flush). Obligations are generated from the current source and discharged by z3/cvc5. '
            'Exhaustive operation sequences on the real NpyStore with numpy.load after every flush/close/pickle and a kill (child os._exit) '
            'around every low-level file call, the same sequences with Fortran-ordered / transposed / strided / byte-swapped batches, and file-name '
            'scenarios (namesake files in the working directory, moved folder, missing file, ArrayPool node stores, names with and without .npy, delete) '
            'are the labelled bounded stand-in and replay vehicle.',
    'note': 'Trusted: pyvc engine; file-object model (each seek/write/truncate/flush/close is atomic and applied in program order, buffered writes '
            'reach the OS at the next seek/truncate/flush/close, A-IO); numpy.lib.format header writer/reader (length non-decreasing in the row '
            'count, round trip with space padding; sanity-tested every run); np.memmap reads/writes the mapped rows immediately. Kill points inside '
            'one write or one memmap store, torn pages and durability beyond the page cache are outside the model. Callers must pass batches of '
            'exactly batch_size rows and 0 <= length <= len to truncate. File names are opaque ids under ONE working directory (a relative name keeps '
            'its meaning); the pickle library, NpyStore.__init__ and OutputPool save/open: bounded only.',
    'technique': 'deductive: crash-Hoare-logic VCs from the real AST (pyvc proxies for the file object / memmap, ghost disk + history), z3/cvc5; '
                 'file-system oracle (uninterpreted exists/basename) for __init__/__setstate__/delete; symbolic array layout flags; '
                 'bounded stand-in: all op sequences <= 4 (quick) / <= 5, one configuration <= 6 (thorough) x kill around every file call of the last op; sequences <= 3/4 on stores opened over an existing longer or ragged file; sequences <= 4/5 with 6 batch layouts; 56 file-name scenarios',
}

import z3

from pyvc.core import cur, forall_range, OutOfSubset, program_exception
from pyvc.engine import Contract, NS
from pyvc.values import Sym, SInt, SBool, SOpt, lift, term as T

I = z3.IntSort()
Wf = z3.Function('row_items', I, I)            # number of items in one row, as a function of the row-shape id (prod(shape[1:]))
ISZ = z3.Function('itemsize_of', I, I)         # bytes per item, as a function of the dtype id
HLEN = z3.Function('npy_header_len', I, I, I, I)   # bytes written by numpy.lib.format.write_array_header_2_0 for ((rows,)+tail, descr)
MAXROWS = z3.IntVal(2 ** 64)                   # NpyArray.MAX_SHAPE_LEN
IV = z3.IntVal


def And(*a):
    return z3.And(*a)


def same(n1, c1, n2, c2):
    """content (n1, c1) == content (n2, c2): same row count, same rows"""
    return z3.And(n1 == n2, forall_range(0, n1, lambda i: c1(i) == c2(i), 'r'))


def hlen_facts(rows, tail, dtype):
    """ASSUMED library contract (sanity-tested): the header numpy writes is longer than the 12-byte prefix and, for
    0 <= rows <= 2**64, not longer than the one written for 2**64 rows (explicit instance, never a quantified axiom)"""
    return z3.And(HLEN(rows, tail, dtype) >= 13,
                  z3.Implies(z3.And(rows >= 0, rows <= MAXROWS), HLEN(rows, tail, dtype) <= HLEN(MAXROWS, tail, dtype)))


# ------------------------------------------------------------------------------------------------ small value proxies
class SIntB(SInt):
    """an SInt that also supports `bytes * n` (-> Fill); arithmetic stays in SIntB"""
    __slots__ = ()

    def _bin(self, o, f, rev=False):
        r = SInt._bin(self, o, f, rev)
        return SIntB(r.t) if type(r) is SInt else r

    def __rmul__(self, o):
        if isinstance(o, bytes):
            return Fill(o, self.t)
        return self._bin(o, lambda a, b: a * b, True)

    def __mul__(self, o):
        if isinstance(o, bytes):
            return Fill(o, self.t)
        return self._bin(o, lambda a, b: a * b)

    def __rsub__(self, o):
        return self._bin(o, lambda a, b: a - b, True)

    def __radd__(self, o):
        return self._bin(o, lambda a, b: a + b, True)


class Fill(Sym):
    """bytes object `byte * n`"""

    def __init__(self, byte, n):
        self.byte, self.n, self.t = byte, n, None


class Tail(Sym):
    """shape[1:] of an array: an opaque row shape (its id); Wf(id) items per row"""

    def __init__(self, t):
        self.t = t

    def __eq__(self, o):
        if isinstance(o, Tail):
            return SBool(self.t == o.t)
        raise OutOfSubset('row shape compared with %s' % type(o).__name__)

    def __ne__(self, o):
        return ~self.__eq__(o)

    __hash__ = Sym.__hash__

    def __radd__(self, o):
        if isinstance(o, tuple) and len(o) == 1:
            return Shape(T(o[0]), self)
        raise OutOfSubset('tuple + row shape')


class Shape(Sym):
    """shape tuple (rows,) + tail"""

    def __init__(self, rows, tail):
        self.rows, self.tail, self.t = rows, tail, None

    def __getitem__(self, k):
        if isinstance(k, int) and not isinstance(k, bool) and k == 0:
            return SInt(self.rows)
        if isinstance(k, slice) and (k.start, k.stop, k.step) == (1, None, None):
            return self.tail
        raise OutOfSubset('shape[%r]' % (k,))

    def __bool__(self):
        return True

    def __eq__(self, o):
        if isinstance(o, Shape):
            return SBool(z3.And(self.rows == o.rows, self.tail.t == o.tail.t))
        raise OutOfSubset('shape compared with %s' % type(o).__name__)

    def __ne__(self, o):
        return ~self.__eq__(o)

    __hash__ = Sym.__hash__


class DType(Sym):
    def __init__(self, t):
        self.t = t

    def __eq__(self, o):
        if isinstance(o, DType):
            return SBool(self.t == o.t)
        raise OutOfSubset('dtype compared with %s' % type(o).__name__)

    def __ne__(self, o):
        return ~self.__eq__(o)

    __hash__ = Sym.__hash__

    @property
    def itemsize(self):
        return SInt(ISZ(self.t))


COLMAJ = z3.Function('colmajor_row', I, I, I)    # (array id, j) -> value of "row" j of the column-major byte image of the array, read back row-major


class Flags:
    """ndarray.flags of a Rows proxy"""

    def __init__(self, a):
        self._a = a

    def _get(self, k):
        k = str(k).upper()
        if k in ('C_CONTIGUOUS', 'C', 'CONTIGUOUS'):
            return SBool(self._a.cc)
        if k in ('F_CONTIGUOUS', 'F', 'FORTRAN'):
            return SBool(self._a.fc)
        if k in ('FNC',):
            return SBool(z3.And(self._a.fc, z3.Not(self._a.cc)))
        if k in ('FORC',):
            return SBool(z3.Or(self._a.fc, self._a.cc))
        raise OutOfSubset('ndarray.flags[%r]' % (k,))

    def __getitem__(self, k):
        return self._get(k)

    def __getattr__(self, k):
        if k.startswith('_'):
            raise AttributeError(k)
        return self._get(k)


class Rows(Sym):
    """numpy array of k rows; row j has LOGICAL value val(j) (what a[j] shows, whatever the memory layout); shape (k,)+tail.
    Memory layout: cc = C-contiguous, fc = Fortran-contiguous (symbolic for the batches a caller passes; a transposed view or
    np.asfortranarray gives fc and not cc, a strided view x[::2] neither, a 1-d / one-row-of-width-1 array both)."""
    _ids = [100]             # ids of derived arrays (reset per path by the contracts' setup); argument arrays carry explicit ids

    def __init__(self, k, val, tail, dtype, cc=None, fc=None, aid=None):
        self.k, self.val, self.tail, self.dt, self.t = k, val, tail, dtype, None
        self.cc = z3.BoolVal(True) if cc is None else cc
        self.fc = z3.BoolVal(False) if fc is None else fc
        if aid is None:
            Rows._ids[0] += 1
            aid = Rows._ids[0]
        self.aid = IV(aid)

    @property
    def shape(self):
        return Shape(self.k, Tail(self.tail))

    @property
    def dtype(self):
        return DType(self.dt)

    @property
    def itemsize(self):
        return SInt(ISZ(self.dt))

    @property
    def flags(self):
        return Flags(self)

    def _vc_len(self):
        return SInt(self.k)

    def _colmajor(self):
        """the rows one reads (row-major) from the COLUMN-major byte image.  ASSUMED library fact (sanity-tested): the two images
        coincide when the array is empty or a row has one item (then there is a single axis of extent > 1); otherwise nothing is
        known about the re-read rows (they are a permutation of the items: in general different rows)."""
        val, k, aid = self.val, self.k, self.aid
        same_img = z3.Or(k <= 0, Wf(self.tail) <= 1)
        return Rows(k, lambda j: z3.If(same_img, val(j), COLMAJ(aid, j)), self.tail, self.dt, z3.BoolVal(True), z3.BoolVal(False))

    def _logical(self):
        return Rows(self.k, self.val, self.tail, self.dt, z3.BoolVal(True), z3.BoolVal(False))

    def tobytes(self, order='C'):
        """ndarray.tobytes: 'C' = logical row-major bytes whatever the layout; 'F' = column-major; 'A' = column-major iff the
        array is Fortran-contiguous and not C-contiguous ('K' = memory order: not modelled)"""
        if order is None or order == 'C':
            return DataBytes(self._logical())
        if order == 'F':
            return DataBytes(self._colmajor())
        if order == 'A':
            if cur().branch(z3.And(self.fc, z3.Not(self.cc))):
                return DataBytes(self._colmajor())
            return DataBytes(self._logical())
        raise OutOfSubset('tobytes order %r' % (order,))

    def copy(self, order='C'):
        if order == 'C':
            return self._logical()
        raise OutOfSubset('ndarray.copy(order=%r)' % (order,))


def arg_rows(k, val, tail, dtype):
    """a batch handed in by the caller: arbitrary memory layout (C-ordered, Fortran-ordered / transposed view, strided)"""
    Rows._ids[0] = 100
    return Rows(k, val, tail, dtype, z3.Bool('a_c_contiguous'), z3.Bool('a_f_contiguous'), aid=1)


def np_ascontiguousarray(a, dtype=None, **kw):
    if isinstance(a, Rows) and dtype is None and not kw:
        return a._logical()
    raise OutOfSubset('np.ascontiguousarray(%s)' % type(a).__name__)


def np_asfortranarray(a, dtype=None, **kw):
    if isinstance(a, Rows) and dtype is None and not kw:
        return Rows(a.k, a.val, a.tail, a.dt, z3.Or(a.k <= 0, Wf(a.tail) <= 1), z3.BoolVal(True))
    raise OutOfSubset('np.asfortranarray(%s)' % type(a).__name__)


class DataBytes(Sym):
    """bytes of an array image: k rows of Wf(tail)*ISZ(dtype) bytes each; rows.val(j) is the value a row-major reader sees in row j"""

    def __init__(self, rows):
        self.rows, self.t = rows, None


class HeaderBytes(Sym):
    """bytes [off, end) of a header image of `total` bytes (numpy header text + space padding) that encodes
    shape (rows,)+tail, C order and dtype"""

    def __init__(self, rows, tail, dtype, total, off, end):
        self.rows, self.tail, self.dtype, self.total, self.off, self.end, self.t = rows, tail, dtype, total, off, end, None

    def _vc_len(self):
        return SIntB(self.end - self.off)

    def __bool__(self):
        return cur().branch(self.end - self.off > 0)

    def __getitem__(self, sl):
        if not isinstance(sl, slice) or sl.step is not None or sl.stop is not None:
            raise OutOfSubset('header bytes index %r' % (sl,))
        a = IV(0) if sl.start is None else T(sl.start)
        if not cur().branch(a >= 0):
            raise OutOfSubset('negative slice start on bytes')
        noff = self.off + a if cur().branch(self.off + a <= self.end) else self.end
        return HeaderBytes(self.rows, self.tail, self.dtype, self.total, z3.simplify(noff), self.end)


def pend_state(x):
    """_header_bytes_to_write -> (isnone term, HeaderBytes or None)"""
    if x is None:
        return z3.BoolVal(True), None
    if isinstance(x, HeaderBytes):
        return z3.BoolVal(False), x
    if isinstance(x, SOpt) and isinstance(x.val, HeaderBytes):
        return x.isnone, x.val
    raise OutOfSubset('_header_bytes_to_write of type %s' % type(x).__name__)


# ------------------------------------------------------------------------------------------------ ghost disk and file object
class Disk:
    def __init__(self, hdr_rows, hdr_tail, hdr_dtype, prefix_H, data_rows, content):
        self.hdr_rows, self.hdr_tail, self.hdr_dtype, self.prefix_H = hdr_rows, hdr_tail, hdr_dtype, prefix_H
        self.data_rows, self.content = data_rows, content


class Ghost:
    """per-VC ghost state: constants of the array (H, row shape id, dtype id), the disk, the history"""

    def __init__(self, vc, crash=True):
        self.vc = vc
        self.H, self.tail, self.dtype = z3.Int('H'), z3.Int('tail'), z3.Int('dtype')
        self.n0, self.pend0, self.closed0 = z3.Int('rows'), z3.Bool('pending'), z3.Bool('closed')
        self.disk0 = z3.Function('disk_row', I, I)
        c0 = lambda i: self.disk0(i)
        self.c0 = c0
        self.disk = Disk(z3.Int('disk_hdr_rows'), z3.Int('disk_hdr_tail'), z3.Int('disk_hdr_dtype'), z3.Int('disk_prefix_H'),
                         z3.Int('disk_data_rows'), c0)
        self.hdr0, self.data0 = self.disk.hdr_rows, self.disk.data_rows
        self.crash = crash
        # Hist at entry: the logical content and what the file shows (the crash invariant holds between operations)
        self.hist = [(self.n0, c0), (self.hdr0, c0)]
        self.future = []             # spec: the logical content(s) the operation in progress leads to (its linearisation point is somewhere inside)
        self.ops = []
        self.write_row = None        # spec: row index at which the method's data write must land
        self.trunc_row = None        # spec: row count the method must cut the file to
        self.flush_content = None    # spec: logical content at the instant of a flush/close inside the method
        vc.fin_bounds.extend([self.n0, self.hdr0, self.data0, Wf(self.tail), ISZ(self.dtype)])

    @property
    def R(self):
        return Wf(self.tail) * ISZ(self.dtype)

    def loads(self):
        d = self.disk
        return z3.And(d.hdr_rows >= 0, d.hdr_rows <= d.data_rows, d.hdr_tail == self.tail, d.hdr_dtype == self.dtype, d.prefix_H == self.H)

    def visible_in_hist(self):
        d = self.disk
        return z3.Or([same(d.hdr_rows, d.content, n, c) for n, c in self.hist + self.future])

    def crash_point(self, after):
        self.ops.append(after)
        if not self.crash:
            return
        vc = cur()
        vc.oblige('crash[killed after %s: the file still loads (header rows <= data rows on disk)]' % after, self.loads())
        vc.oblige('crash[killed after %s: file content = a logical content since the last completed flush]' % after, self.visible_in_hist())


class FileSpec:
    """the binary file object NpyArray.fs (io.BufferedRandom) over the ghost disk.  ASSUMED (A-IO): every call is atomic and
    takes effect in program order; write at offset p replaces bytes [p, p+len); truncate() cuts/extends at the cursor."""

    def __init__(self, g, closed, pos, name='array.npy', dirty=None):
        self.g, self._closed, self.pos, self.name = g, closed, pos, name
        # ghost: bytes written through this object that may still sit in its user-space buffer.  seek/truncate/flush/close push the
        # buffer to the OS (assumed, sanity-tested); a store through a np.memmap bypasses the buffer.
        self.dirty = z3.BoolVal(False) if dirty is None else dirty

    @property
    def closed(self):
        c = z3.simplify(self._closed)
        if z3.is_true(c):
            return True
        if z3.is_false(c):
            return False
        return SBool(self._closed)

    def _need_open(self):
        if cur().branch(self._closed):
            raise program_exception(ValueError('I/O operation on closed file.'))

    def seek(self, pos, whence=0):
        if whence != 0:
            raise OutOfSubset('seek whence %r' % (whence,))
        self._need_open()
        self.pos = T(pos)
        self.dirty = z3.BoolVal(False)
        cur().oblige('call-pre[seek to a non-negative offset]', self.pos >= 0)
        self.g.crash_point('fs.seek()')
        return SIntB(self.pos)

    def tell(self):
        self._need_open()
        return SIntB(self.pos)

    def write(self, b):
        self._need_open()
        vc, g, d = cur(), self.g, self.g.disk
        self.dirty = z3.BoolVal(True)
        if isinstance(b, DataBytes):
            a = b.rows
            if g.write_row is None:
                raise OutOfSubset('data write in a method whose contract does not expect one')
            r = g.write_row
            vc.oblige('call-pre[data write starts exactly at the end of the logical rows: offset = H + |rows|*row_bytes]', self.pos == g.H + r * g.R)
            vc.oblige('call-pre[rows written have the row shape and dtype of the file]', z3.And(a.tail == g.tail, a.dt == g.dtype))
            old, k, val = d.content, a.k, a.val
            d.content = lambda i: z3.If(z3.And(r <= i, i < r + k), val(i - r), old(i))
            d.data_rows = z3.If(r + k > d.data_rows, r + k, d.data_rows)
            self.pos = self.pos + k * g.R
            g.crash_point('fs.write(data)')
            return SIntB(k * g.R)
        if isinstance(b, HeaderBytes):
            off, end = z3.simplify(b.off), z3.simplify(b.end)
            if z3.is_int_value(off) and z3.is_int_value(end) and off.as_long() == 0 and end.as_long() == 12:
                # magic + version + header-length field
                vc.oblige('call-pre[the 12-byte prefix is written at offset 0]', self.pos == 0)
                d.prefix_H = b.total
                self.pos = self.pos + 12
                g.crash_point('fs.write(prefix)')
                return SIntB(IV(12))
            vc.oblige('call-pre[header rewrite covers exactly bytes [12, H) of the file]',
                      z3.And(self.pos == 12, b.off == 12, b.end == b.total, b.total == g.H))
            d.hdr_rows, d.hdr_tail, d.hdr_dtype = b.rows, b.tail, b.dtype
            self.pos = self.pos + (b.end - b.off)
            g.crash_point('fs.write(header)')
            return SIntB(b.end - b.off)
        raise OutOfSubset('fs.write(%s)' % type(b).__name__)

    def truncate(self, size=None):
        self._need_open()
        if size is not None:
            raise OutOfSubset('truncate(size)')
        vc, g, d = cur(), self.g, self.g.disk
        if g.trunc_row is None:
            raise OutOfSubset('fs.truncate() in a method whose contract does not expect one')
        r = g.trunc_row
        vc.oblige('call-pre[file is cut exactly after the remaining rows: offset = H + length*row_bytes]', self.pos == g.H + r * g.R)
        d.data_rows = r
        self.dirty = z3.BoolVal(False)
        g.crash_point('fs.truncate()')
        return SIntB(self.pos)

    def _sync(self, what):
        g = self.g
        self.dirty = z3.BoolVal(False)
        if g.flush_content is not None:
            g.hist = [g.flush_content()]
        g.crash_point(what)

    def flush(self):
        self._need_open()
        self._sync('fs.flush()')

    def close(self):
        if z3.is_true(z3.simplify(self._closed)):
            return
        if cur().branch(self._closed):
            return
        self._closed = z3.BoolVal(True)
        self._sync('fs.close()')


class BytesIOSpec:
    """io.BytesIO used to build the header image"""

    def __init__(self, *a):
        if a:
            raise OutOfSubset('BytesIO(initial)')
        self.size, self.pos, self.hdr = IV(0), IV(0), None

    def tell(self):
        return SIntB(self.pos)

    def seek(self, p, whence=0):
        if whence != 0:
            raise OutOfSubset('seek whence')
        self.pos = T(p)
        return SIntB(self.pos)

    def write(self, b):
        if not isinstance(b, Fill):
            raise OutOfSubset('BytesIO.write(%s)' % type(b).__name__)
        if b.byte != b'\x20':
            raise OutOfSubset('header padded with %r' % (b.byte,))
        vc = cur()
        vc.oblige('call-pre[padding is appended at the end of the header text]', self.pos == self.size)
        vc.oblige('call-pre[bytes * n with n >= 0]', b.n >= 0)
        self.size = self.size + b.n
        self.pos = self.size
        return SIntB(b.n)

    def read(self, n=None):
        if self.hdr is None:
            raise OutOfSubset('BytesIO.read before a header was written')
        if n is None or (isinstance(n, int) and n < 0):
            end = self.size
        else:
            end = self.pos + T(n) if cur().branch(self.pos + T(n) <= self.size) else self.size
        hb = HeaderBytes(self.hdr[0], self.hdr[1], self.hdr[2], self.size, z3.simplify(self.pos), z3.simplify(end))
        self.pos = end
        return hb


class IOSpec:
    BytesIO = BytesIOSpec


class NpFormatSpec:
    """numpy.lib.format (assumed contract, sanity-tested in sanity())"""

    @staticmethod
    def dtype_to_descr(dt):
        if not isinstance(dt, DType):
            raise OutOfSubset('dtype_to_descr(%s)' % type(dt).__name__)
        return dt

    @staticmethod
    def header_data_from_array_1_0(a):
        if not isinstance(a, Rows):
            raise OutOfSubset('header_data_from_array_1_0(%s)' % type(a).__name__)
        return {'shape': a.shape, 'fortran_order': False, 'descr': a.dtype}

    @staticmethod
    def write_array_header_2_0(fp, d):
        if not isinstance(fp, BytesIOSpec) or fp.hdr is not None or not z3.is_int_value(z3.simplify(fp.size)) or z3.simplify(fp.size).as_long() != 0:
            raise OutOfSubset('write_array_header_2_0 on a non-empty buffer')
        if set(d.keys()) != {'shape', 'fortran_order', 'descr'} or d['fortran_order'] is not False:
            raise OutOfSubset('header dict %r' % (sorted(d.keys()),))
        sh, de = d['shape'], d['descr']
        if not isinstance(sh, Shape) or not isinstance(de, DType):
            raise OutOfSubset('header dict values')
        vc = cur()
        n = HLEN(sh.rows, sh.tail.t, de.t)
        vc.assume(hlen_facts(sh.rows, sh.tail.t, de.t))
        fp.size = fp.pos = n
        fp.hdr = (sh.rows, sh.tail.t, de.t)

    @staticmethod
    def read_array_header_2_0(fs):
        """reads the header text whose length the prefix records; leaves the cursor at the first data byte.
        ASSUMED: round trip of (shape, fortran_order, dtype) through write_array_header_2_0 + space padding."""
        if not isinstance(fs, FileSpec):
            raise OutOfSubset('read_array_header_2_0(%s)' % type(fs).__name__)
        fs._need_open()
        d = fs.g.disk
        cur().oblige('call-pre[read_array_header_2_0 starts at the header-length field (offset 8)]', fs.pos == 8)
        fs.pos = d.prefix_H
        return Shape(d.hdr_rows, Tail(d.hdr_tail)), False, DType(d.hdr_dtype)


class MemmapSpec(Sym):
    """np.memmap over the file object: `rows` rows of row shape `tail`, dtype `dt`, starting at byte `off`.  ASSUMED: item access
    reads/writes exactly the addressed rows of the file, immediately (shared mapping), bypassing the file object's buffer."""

    def __init__(self, g, fs, rows, tail, dt, off):
        self.g, self.fs, self.rows, self.tail, self.dt, self.off, self.t = g, fs, rows, tail, dt, off, None

    def maps_data(self, n):
        g = self.g
        return z3.And(self.rows == n, self.tail == g.tail, self.dt == g.dtype, self.off == g.H)

    def _slice(self, sl, what):
        if not isinstance(sl, slice) or sl.step is not None:
            raise OutOfSubset('memmap index %r' % (sl,))
        a, b = T(sl.start), T(sl.stop)
        vc, g = cur(), self.g
        vc.oblige('call-pre[memmap%s: the mapping covers rows [0, len) of the data region and they are in the file]' % what,
                  z3.And(self.tail == g.tail, self.dt == g.dtype, self.off == g.H, self.rows <= g.disk.data_rows))
        vc.oblige('call-pre[memmap%s: slice inside the mapping: 0 <= start <= stop <= len]' % what, z3.And(0 <= a, a <= b, b <= self.rows))
        return a, b

    def __getitem__(self, sl):
        a, b = self._slice(sl, '[sl]')
        c = self.g.disk.content
        return Rows(b - a, lambda j: c(a + j), self.tail, self.dt)

    def __setitem__(self, sl, value):
        a, b = self._slice(sl, '[sl] = value')
        if not isinstance(value, Rows):
            raise OutOfSubset('memmap[sl] = %s' % type(value).__name__)
        vc, g, d = cur(), self.g, self.g.disk
        vc.oblige('call-pre[memmap[sl] = value: value has exactly the rows of the slice, same row shape and dtype]',
                  z3.And(value.k == b - a, value.tail == self.tail, value.dt == self.dt))
        vc.oblige('call-pre[memmap[sl] = value: no earlier file write is still buffered in the file object (the store would overtake it)]',
                  z3.Not(self.fs.dirty))
        old, val = d.content, value.val
        d.content = lambda i: z3.If(z3.And(a <= i, i < b), val(i - a), old(i))
        g.crash_point('memmap store')


def np_memmap(g):
    def memmap(fs, dtype=None, mode='r+', offset=0, shape=None, order='C'):
        if not isinstance(fs, FileSpec) or not isinstance(dtype, DType) or not isinstance(shape, Shape) or mode != 'r+':
            raise OutOfSubset('np.memmap arguments')
        if order != 'C':
            raise OutOfSubset('np.memmap order %r' % (order,))
        fs._need_open()
        vc = cur()
        vc.oblige('call-pre[np.memmap: the mapped rows are present in the file (otherwise numpy extends the file)]',
                  z3.And(T(offset) == g.H, shape.tail.t == g.tail, dtype.t == g.dtype, shape.rows >= 0, shape.rows <= g.disk.data_rows))
        fs.dirty = z3.BoolVal(False)          # numpy seeks the file object to find its size: the buffer is pushed out
        g.crash_point('np.memmap()')
        return MemmapSpec(g, fs, shape.rows, shape.tail.t, dtype.t, T(offset))
    return memmap


def mm_state(x):
    """_memmap -> (isnone term, MemmapSpec or None)"""
    if x is None:
        return z3.BoolVal(True), None
    if isinstance(x, MemmapSpec):
        return z3.BoolVal(False), x
    if isinstance(x, SOpt) and isinstance(x.val, MemmapSpec):
        return x.isnone, x.val
    raise OutOfSubset('_memmap of type %s' % type(x).__name__)


class _Empty:
    def __init__(self, dt):
        self.itemsize = SInt(ISZ(dt.t))


def np_module(g=None):
    from pyvc import npspec

    def prod(x):
        if isinstance(x, Shape):
            return SInt(x.rows * Wf(x.tail.t))      # library fact: prod((r,)+tail) = r * prod(tail)
        raise OutOfSubset('np.prod(%s)' % type(x).__name__)

    def empty(shape=None, dtype=None):
        if isinstance(shape, Shape) and isinstance(dtype, DType):
            return _Empty(dtype)
        raise OutOfSubset('np.empty')
    extra = {'prod': prod, 'empty': empty, 'ascontiguousarray': np_ascontiguousarray, 'asfortranarray': np_asfortranarray}
    if g is not None:
        extra['memmap'] = np_memmap(g)
    return npspec.module(extra=extra)


# ------------------------------------------------------------------------------------------------ the stub `self` of NpyArray
def npy_fields(o, g):
    """the fields that never change after initialisation"""
    sh = o.shape
    if not isinstance(sh, Shape) or not isinstance(o.dtype, DType) or o.header_length is None or o.itemsize is None:
        return z3.BoolVal(False)
    return z3.And(T(o.header_length) == g.H, T(o.itemsize) == ISZ(g.dtype), sh.tail.t == g.tail, o.dtype.t == g.dtype,
                  g.H >= 13, g.H == HLEN(MAXROWS, g.tail, g.dtype), Wf(g.tail) >= 1, ISZ(g.dtype) >= 1,
                  o.fortran_order is False)


def pend_ok(o, g):
    isnone, hb = pend_state(o._header_bytes_to_write)
    if hb is None:
        return z3.BoolVal(True)
    return z3.Implies(z3.Not(isnone), z3.And(hb.rows == o.shape.rows, hb.tail == g.tail, hb.dtype == g.dtype, hb.total == g.H,
                                             hb.off == 0, hb.end == g.H))


def npy_ok(o, g, strong=True, mm=True):
    """representation invariant of an initialised NpyArray over the ghost disk -> [(name, fact)]"""
    if not isinstance(o.shape, Shape):
        return [('npy_ok: shape is a tuple', z3.BoolVal(False))]
    n, d = o.shape.rows, g.disk
    isnone, hb = pend_state(o._header_bytes_to_write)
    out = [('npy_ok: header_length, itemsize, row shape and dtype are those fixed at initialisation', npy_fields(o, g)),
           ('npy_ok: the logical rows are on disk (0 <= rows <= data rows <= 2**64)', z3.And(n >= 0, n <= d.data_rows, n <= MAXROWS)),
           ('npy_ok: the file loads (0 <= header rows <= data rows; header row shape, dtype and length field right)', g.loads()),
           ('npy_ok: a prepared header has the fixed length H and describes the logical rows', pend_ok(o, g)),
           ('npy_ok: no prepared header => the disk header shows the logical rows', z3.Implies(isnone, d.hdr_rows == n)),
           ('npy_ok: closed => nothing pending', z3.Implies(o.fs._closed, isnone))]
    if strong:
        out.append(('npy_ok: the disk header never shows more rows than the logical content', d.hdr_rows <= n))
    mnone, mmap = mm_state(o._memmap)
    if mm and mmap is not None:
        out.append(('npy_ok: a cached memmap maps exactly the logical rows', z3.Implies(z3.Not(mnone), mmap.maps_data(n))))
    if mm:
        out.append(('npy_ok: file writes still buffered => no cached memmap', z3.Implies(o.fs.dirty, mnone)))
    return out


class NpySelf:
    """stand-in for `self` of NpyArray: real fields, ghost `_g`; properties and callee methods follow their contracts
    (each is proved against its real body by its own Contract below)"""
    MAX_SHAPE_LEN = 2 ** 64
    HEADER_DATA_OFFSET = 12
    HEADER_DATA_SIZE_OFFSET = 8

    def __init__(self, g, stubs=()):
        self._g, self._stubs = g, set(stubs)

    # properties (contracts NpyArray.deleted/closed/initialized/size/__len__)
    @property
    def deleted(self):
        return self.fs is None

    @property
    def closed(self):
        if self.fs is None:
            return True
        return self.fs.closed

    @property
    def initialized(self):
        c = self.closed
        if isinstance(c, bool):
            return (not c) and (self.header_length is not None)
        return ~c if self.header_length is not None else False

    @property
    def size(self):
        if not isinstance(self.shape, Shape):
            raise OutOfSubset('size of an uninitialised array')
        return SInt(self.shape.rows * Wf(self.shape.tail.t))

    def _vc_len(self):
        return SInt(self.shape.rows) if isinstance(self.shape, Shape) else 0

    @property
    def memmap(self):
        """callee contract of the NpyArray.memmap property (proved by PropMemmap)"""
        if 'memmap' not in self._stubs:
            raise OutOfSubset('NpyArray.memmap is used but not declared as a callee of this contract')
        vc, g = cur(), self._g
        vc.libcall('stub:memmap', ())
        for nm, f in npy_ok(self, g):
            vc.oblige('call-pre[memmap: %s]' % nm, f)
        if vc.branch(self.fs._closed):
            raise program_exception(IndexError('NpyArray is not initialized'))
        mnone, mmap = mm_state(self._memmap)
        if mmap is None or vc.branch(mnone):
            self.fs.dirty = z3.BoolVal(False)
            self.fs.pos = vc.fresh_int('pos_after_memmap')
            mmap = MemmapSpec(g, self.fs, self.shape.rows, g.tail, g.dtype, g.H)
            g.ops.append('stub:memmap')
        self._memmap = mmap
        return mmap

    def __getattr__(self, name):
        if name.startswith('_vc') or name.startswith('__'):
            raise AttributeError(name)
        spec = METHOD_SPECS.get(name)
        if name == 'append' and 'append' in self._stubs:
            spec = spec_append_first
        if spec is None:
            raise OutOfSubset('NpyArray.%s is not modelled' % name)
        if name not in self._stubs:
            raise OutOfSubset('NpyArray.%s is called but not declared as a callee of this contract' % name)
        return lambda *a, **kw: spec(self, *a, **kw)


def spec_prepare_header_data(o):
    """callee contract of NpyArray._prepare_header_data (proved by PrepareHeader)"""
    vc, g = cur(), o._g
    vc.libcall('stub:_prepare_header_data', ())
    n = o.shape.rows
    vc.oblige('call-pre[_prepare_header_data: fields fixed at initialisation, rows >= 0]', z3.And(npy_fields(o, g), n >= 0))
    vc.assume(hlen_facts(n, g.tail, g.dtype))
    if vc.branch(HLEN(n, g.tail, g.dtype) > g.H):
        raise program_exception(OverflowError('header too short'))
    o._header_bytes_to_write = HeaderBytes(n, g.tail, g.dtype, g.H, IV(0), g.H)


def spec_write_header_data(o):
    """callee contract of NpyArray._write_header_data (proved by WriteHeader)"""
    vc, g, d = cur(), o._g, o._g.disk
    vc.libcall('stub:_write_header_data', ())
    isnone, hb = pend_state(o._header_bytes_to_write)
    if hb is not None and vc.branch(z3.Not(isnone)):
        for nm, f in write_header_pre(o, g, first=not g.crash):
            vc.oblige('call-pre[_write_header_data: %s]' % nm, f)
        d.hdr_rows, d.hdr_tail, d.hdr_dtype = hb.rows, hb.tail, hb.dtype
        o.fs.pos = vc.fresh_int('pos_after_header')
        o.fs.dirty = z3.BoolVal(True)
        g.ops.append('stub:_write_header_data')
    o._header_bytes_to_write = None


def write_header_pre(o, g, first=False):
    """first=True: the very first header of a new file (init_from_array): only the prefix is on disk, a header must be pending"""
    isnone, hb = pend_state(o._header_bytes_to_write)
    n, d = o.shape.rows, g.disk
    return [('fields fixed at initialisation', npy_fields(o, g)),
            ('file open when a header is pending', z3.Implies(z3.Not(isnone), z3.Not(o.fs._closed))),
            ('the prepared header has length H and describes the logical rows', pend_ok(o, g)),
            ('the logical rows are on disk and are a content recorded since the last flush',
             z3.And(n >= 0, n <= d.data_rows, n <= MAXROWS, z3.Or([same(n, d.content, m, c) for m, c in g.hist + g.future]))),
            (('the prefix with the length field H is on disk and a header is pending', z3.And(d.prefix_H == g.H, z3.Not(isnone))) if first else
             ('the file loads', g.loads())),
            ('no prepared header => the disk header shows the logical rows', z3.Implies(isnone, d.hdr_rows == n))]


def spec_truncate(o, length=0):
    """callee contract of NpyArray.truncate (proved by Truncate)"""
    vc, g, d = cur(), o._g, o._g.disk
    vc.libcall('stub:truncate', (length,))
    ln = T(length)
    for nm, f in npy_ok(o, g):
        vc.oblige('call-pre[truncate: %s]' % nm, f)
    if vc.branch(o.fs._closed):
        raise program_exception(ValueError('The array has been closed.'))
    vc.oblige('call-pre[truncate: 0 <= length <= len(self)]', z3.And(ln >= 0, ln <= o.shape.rows))
    g.hist = g.hist + [(ln, d.content)]
    o.shape = Shape(ln, Tail(g.tail))
    p, h = vc.fresh('pending_after_truncate', z3.BoolSort()), vc.fresh_int('hdr_rows_after_truncate')
    o._header_bytes_to_write = SOpt(z3.Not(p), HeaderBytes(ln, g.tail, g.dtype, g.H, IV(0), g.H))
    d.hdr_rows, d.data_rows = h, ln
    o.fs.dirty = z3.BoolVal(False)
    o.fs.pos = vc.fresh_int('pos_after_truncate')
    vc.assume(z3.And(h >= 0, h <= ln, z3.Implies(z3.Not(p), h == ln)), g.visible_in_hist())
    o._memmap = None
    g.ops.append('stub:truncate')


def spec_flush(o):
    """callee contract of NpyArray.flush (proved by Flush)"""
    vc, g, d = cur(), o._g, o._g.disk
    vc.libcall('stub:flush', ())
    for nm, f in npy_ok(o, g):
        vc.oblige('call-pre[flush: %s]' % nm, f)
    if vc.branch(o.fs._closed):
        raise program_exception(ValueError('I/O operation on closed file.'))
    d.hdr_rows = o.shape.rows
    o._header_bytes_to_write = None
    g.hist = [(o.shape.rows, d.content)]
    o.fs.pos = vc.fresh_int('pos_after_flush')
    o.fs.dirty = z3.BoolVal(False)
    g.ops.append('stub:flush')


METHOD_SPECS = {'_prepare_header_data': spec_prepare_header_data, '_write_header_data': spec_write_header_data,
                'truncate': spec_truncate, 'flush': spec_flush}


# ------------------------------------------------------------------------------------------------ NpyArray contracts
class NpyContract(Contract):
    prop = 'C06'
    fin = 6
    stubs = ()
    crash = True
    strong = True
    target_name = None

    mm_post = True

    def env(self, vc):
        return {'np': np_module(self._g), 'io': IOSpec, 'npformat': NpFormatSpec}

    def args(self, vc, s):
        return (), {}

    def setup(self, vc):
        g = Ghost(vc, crash=self.crash)
        self._g = g
        o = NpySelf(g, self.stubs)
        o.header_length = SIntB(g.H)
        o.itemsize = SInt(z3.Int('self_itemsize'))
        o.shape = Shape(g.n0, Tail(z3.Int('self_tail')))
        o.fortran_order = False
        o.dtype = DType(z3.Int('self_dtype'))
        plen = z3.Int('pend_len')
        o._header_bytes_to_write = SOpt(z3.Not(g.pend0), HeaderBytes(z3.Int('pend_rows'), z3.Int('pend_tail'), z3.Int('pend_dtype'), plen, IV(0), plen))
        o.filename = 'array.npy'
        o.fs = FileSpec(g, g.closed0, z3.Int('fs_pos'), dirty=z3.Bool('fs_buffered'))
        g.mm_none0 = z3.Bool('memmap_none')
        o._memmap = SOpt(g.mm_none0, MemmapSpec(g, o.fs, z3.Int('mm_rows'), z3.Int('mm_tail'), z3.Int('mm_dtype'), z3.Int('mm_off')))
        s = NS(g=g, o=o)
        a, kw = self.args(vc, s)
        return s, (o,) + tuple(a), kw

    def pre(self, s):
        return []

    def requires(self, s):
        return [f for _, f in npy_ok(s.o, s.g, self.strong)] + [s.g.R >= 1] + list(self.pre(s))

    def inv_post(self, s):
        g = s.g
        return npy_ok(s.o, g, mm=self.mm_post) + [('crash invariant: the file shows a logical content recorded since the last completed flush', g.visible_in_hist())]

    def witness(self, vc, model, ob):
        ev = lambda t: str(model.eval(t, model_completion=True))
        out = {}
        for nm in ('rows', 'disk_hdr_rows', 'disk_data_rows', 'H', 'length', 'k', 'pend_rows'):
            out[nm] = ev(z3.Int(nm))
        for nm in ('pending', 'closed', 'memmap_none', 'fs_buffered', 'a_c_contiguous', 'a_f_contiguous'):
            out[nm] = ev(z3.Bool(nm))
        out['row_items'] = ev(Wf(z3.Int('tail')))
        out['itemsize'] = ev(ISZ(z3.Int('dtype')))
        out['obligation'] = ob.kind
        return out


def final(s):
    """(rows, isnone, disk) at exit"""
    o = s.o
    isnone, hb = pend_state(o._header_bytes_to_write)
    return (o.shape.rows if isinstance(o.shape, Shape) else None), isnone, s.g.disk


class PropSize(NpyContract):
    target = 'elfi/store.py::NpyArray.size'
    crash = False

    def ensures(self, s, result):
        return [('size = rows * items per row', T(result) == s.g.n0 * Wf(s.g.tail)), ('no file operation', z3.BoolVal(not s.g.ops))]


class PropLen(NpyContract):
    target = 'elfi/store.py::NpyArray.__len__'
    crash = False

    def ensures(self, s, result):
        return [('len = logical row count', T(result) == s.g.n0), ('no file operation', z3.BoolVal(not s.g.ops))]


class PropClosed(NpyContract):
    target = 'elfi/store.py::NpyArray.closed'
    crash = False

    def ensures(self, s, result):
        return [('closed = file closed', T(lift(result)) == s.g.closed0), ('no file operation', z3.BoolVal(not s.g.ops))]


class PropInitialized(NpyContract):
    target = 'elfi/store.py::NpyArray.initialized'
    crash = False

    def ensures(self, s, result):
        return [('initialized = open (header_length is set)', T(lift(result)) == z3.Not(s.g.closed0)), ('no file operation', z3.BoolVal(not s.g.ops))]


class Append(NpyContract):
    target = 'elfi/store.py::NpyArray.append'
    stubs = ('_prepare_header_data',)

    def args(self, vc, s):
        k, at, ad = z3.Int('k'), z3.Int('a_tail'), z3.Int('a_dtype')
        aval = z3.Function('a_row', I, I)
        s.k, s.at, s.ad, s.aval = k, at, ad, aval
        vc.fin_bounds.append(k)
        s.g.write_row = s.g.n0
        g = s.g
        new = lambda i: z3.If(i < g.n0, g.disk0(i), aval(i - g.n0))
        s.new = new
        g.future = [(g.n0 + k, new)]
        return (arg_rows(k, lambda j: aval(j), at, ad),), {}

    def pre(self, s):
        return [s.k >= 0, s.g.n0 + s.k <= MAXROWS]

    def raises(self, s):
        g = s.g
        return {'ValueError': z3.Or(g.closed0, s.at != g.tail, s.ad != g.dtype)}

    def iff_raises(self, s):
        g = s.g
        return [('normal return only if open and the batch has the row shape and dtype of the file', z3.And(z3.Not(g.closed0), s.at == g.tail, s.ad == g.dtype))]

    def ensures(self, s, result):
        g = s.g
        n, isnone, d = final(s)
        return [("rows' = rows ++ a: row count", n == g.n0 + s.k),
                ("rows' = rows ++ a: existing rows unchanged", forall_range(0, g.n0, lambda i: d.content(i) == g.disk0(i), 'r')),
                ("rows' = rows ++ a: appended rows are those of a, in order", forall_range(0, s.k, lambda j: d.content(g.n0 + j) == s.aval(j), 'j')),
                ] + self.inv_post(s)


class Truncate(NpyContract):
    target = 'elfi/store.py::NpyArray.truncate'
    stubs = ('_prepare_header_data', '_write_header_data')

    def args(self, vc, s):
        ln = z3.Int('length')
        s.ln = ln
        vc.fin_bounds.append(ln)
        g = s.g
        g.trunc_row = ln
        g.future = [(ln, g.c0)]
        return (SInt(ln),), {}

    def pre(self, s):
        return [s.ln >= 0, s.ln <= s.g.n0]

    def raises(self, s):
        return {'ValueError': s.g.closed0}

    def iff_raises(self, s):
        return [('normal return only if open', z3.Not(s.g.closed0))]

    def ensures(self, s, result):
        g = s.g
        n, isnone, d = final(s)
        return [("rows' = rows[0:length]: row count", n == s.ln),
                ("rows' = rows[0:length]: remaining rows unchanged", forall_range(0, s.ln, lambda i: d.content(i) == g.disk0(i), 'r')),
                ('file length = H + length*row_bytes', d.data_rows == s.ln)] + self.inv_post(s)


class Clear(NpyContract):
    target = 'elfi/store.py::NpyArray.clear'
    stubs = ('truncate',)

    def raises(self, s):
        return {'ValueError': s.g.closed0}

    def iff_raises(self, s):
        return [('normal return only if open', z3.Not(s.g.closed0))]

    def ensures(self, s, result):
        n, isnone, d = final(s)
        return [('no rows left', n == 0), ('file length = H', d.data_rows == 0)] + self.inv_post(s)


class Flush(NpyContract):
    target = 'elfi/store.py::NpyArray.flush'
    stubs = ('_write_header_data',)

    def args(self, vc, s):
        g = s.g
        g.flush_content = lambda: (g.n0, g.c0)
        return (), {}

    def raises(self, s):
        return {'ValueError': s.g.closed0}

    def iff_raises(self, s):
        return [('normal return only if open', z3.Not(s.g.closed0))]

    def ensures(self, s, result):
        g = s.g
        n, isnone, d = final(s)
        return [('logical content unchanged', z3.And(n == g.n0, forall_range(0, g.n0, lambda i: d.content(i) == g.disk0(i), 'r'))),
                ('after flush the disk header shows the logical rows and nothing is pending', z3.And(d.hdr_rows == g.n0, isnone)),
                ('after flush the file is a .npy file that loads to the logical content', z3.And(g.loads(), same(d.hdr_rows, d.content, g.n0, g.c0))),
                ('the flush completed: history restarts at the logical content', z3.BoolVal(len(g.hist) == 1 and 'fs.flush()' in g.ops))] + self.inv_post(s)


class Close(NpyContract):
    target = 'elfi/store.py::NpyArray.close'
    stubs = ('_write_header_data',)

    def args(self, vc, s):
        g = s.g
        g.flush_content = lambda: (g.n0, g.c0)
        return (), {}

    def ensures(self, s, result):
        g = s.g
        n, isnone, d = final(s)
        return [('logical content unchanged', z3.And(n == g.n0, forall_range(0, g.n0, lambda i: d.content(i) == g.disk0(i), 'r'))),
                ('closed', s.o.fs._closed),
                ('after close the disk header shows the logical rows and nothing is pending', z3.And(d.hdr_rows == g.n0, isnone)),
                ('after close the file is a .npy file that loads to the logical content', z3.And(g.loads(), same(d.hdr_rows, d.content, g.n0, g.c0)))] + self.inv_post(s)


class GetState(NpyContract):
    target = 'elfi/store.py::NpyArray.__getstate__'
    stubs = ('flush',)

    def ensures(self, s, result):
        g = s.g
        n, isnone, d = final(s)
        ok = isinstance(result, dict) and set(result.keys()) == {'filename'} and result['filename'] == s.o.filename
        return [('the pickled state is the file name', z3.BoolVal(ok)),
                ('pickling flushes first: the file loads to the logical content', z3.And(g.loads(), same(d.hdr_rows, d.content, g.n0, g.c0), isnone)),
                ('logical content unchanged', n == g.n0)] + self.inv_post(s)


class PrepareHeader(NpyContract):
    """pre: only the fixed fields (it is called in the middle of append/truncate, when the rest of npy_ok does not hold)"""
    target = 'elfi/store.py::NpyArray._prepare_header_data'
    crash = False

    def requires(self, s):
        return [npy_fields(s.o, s.g), s.g.n0 >= 0]

    def raises(self, s):
        g = s.g
        return {'OverflowError': HLEN(g.n0, g.tail, g.dtype) > g.H}

    def iff_raises(self, s):
        g = s.g
        return [('normal return only if the header text fits', HLEN(g.n0, g.tail, g.dtype) <= g.H)]

    def ensures(self, s, result):
        g = s.g
        n, isnone, d = final(s)
        hb = pend_state(s.o._header_bytes_to_write)[1]
        if hb is None:
            return [('a header is prepared', z3.BoolVal(False))]
        return [('a header is prepared', z3.Not(isnone)),
                ('the prepared header has exactly the fixed length H and describes the logical rows', pend_ok(s.o, g)),
                ('shape unchanged', n == g.n0),
                ('no file operation', z3.BoolVal(not g.ops))]


class WriteHeader(NpyContract):
    """pre: the weaker mid-operation invariant (truncate calls it while the disk header still shows MORE rows than the logical content)"""
    target = 'elfi/store.py::NpyArray._write_header_data'
    mm_post = False

    def __init__(self, first=False):
        self.first = first
        if first:
            self.crash = False
            self.label = 'first header of a new file'

    def requires(self, s):
        return [f for _, f in write_header_pre(s.o, s.g, self.first)] + [s.g.R >= 1]

    def ensures(self, s, result):
        g = s.g
        n, isnone, d = final(s)
        return [('nothing pending afterwards', isnone),
                ('a pending header is now on disk: the disk header shows the logical rows', z3.And(d.hdr_rows == g.n0, g.loads())),
                ('data region untouched', z3.And(d.data_rows == g.data0, forall_range(0, g.data0, lambda i: d.content(i) == g.disk0(i), 'r'))),
                ('nothing pending before => no file operation', z3.Implies(z3.Not(g.pend0), z3.BoolVal(not g.ops))),
                ('shape unchanged', n == g.n0)] + self.inv_post(s)


class PropMemmap(NpyContract):
    target = 'elfi/store.py::NpyArray.memmap'

    def raises(self, s):
        return {'IndexError': s.g.closed0}

    def iff_raises(self, s):
        return [('normal return only if open', z3.Not(s.g.closed0))]

    def ensures(self, s, result):
        g = s.g
        n, isnone, d = final(s)
        rnone, r = mm_state(result)
        if r is None:
            return [('a memmap is returned', z3.BoolVal(False))]
        return [('a memmap is returned', z3.Not(rnone)),
                ('it maps exactly the logical rows of the data region (offset H, row shape, dtype, C order)', r.maps_data(g.n0)),
                ('content and headers untouched', z3.And(n == g.n0, d.hdr_rows == g.hdr0, d.data_rows == g.data0,
                                                         forall_range(0, g.data0, lambda i: d.content(i) == g.disk0(i), 'r')))] + self.inv_post(s)


class NpyGetItem(NpyContract):
    target = 'elfi/store.py::NpyArray.__getitem__'
    stubs = ('memmap',)

    def args(self, vc, s):
        a, b = z3.Int('sl_start'), z3.Int('sl_stop')
        s.a, s.b = a, b
        vc.fin_bounds.extend([a, b])
        return (slice(SInt(a), SInt(b)),), {}

    def pre(self, s):
        return [0 <= s.a, s.a <= s.b, s.b <= s.g.n0]

    def raises(self, s):
        return {'IndexError': s.g.closed0}

    def iff_raises(self, s):
        return [('normal return only if open', z3.Not(s.g.closed0))]

    def ensures(self, s, result):
        g = s.g
        n, isnone, d = final(s)
        if not isinstance(result, Rows):
            return [('rows returned', z3.BoolVal(False))]
        return [('array[a:b] has b-a rows', result.k == s.b - s.a),
                ('array[a:b] are the logical rows a..b-1 in order', forall_range(0, s.b - s.a, lambda j: result.val(j) == g.disk0(s.a + j), 'j')),
                ('content and headers untouched', z3.And(n == g.n0, d.hdr_rows == g.hdr0, d.data_rows == g.data0,
                                                         forall_range(0, g.data0, lambda i: d.content(i) == g.disk0(i), 'r')))] + self.inv_post(s)


class NpySetItem(NpyContract):
    """in-place overwrite of rows [a, b) through the memmap"""
    target = 'elfi/store.py::NpyArray.__setitem__'
    stubs = ('memmap', 'flush', '_write_header_data')

    def args(self, vc, s):
        g = s.g
        a, b, kv = z3.Int('sl_start'), z3.Int('sl_stop'), z3.Int('k')
        vval = z3.Function('a_row', I, I)
        s.a, s.b, s.kv, s.vval = a, b, kv, vval
        s.vt, s.vd = z3.Int('a_tail'), z3.Int('a_dtype')
        vc.fin_bounds.extend([a, b, kv])
        new = lambda i: z3.If(z3.And(a <= i, i < b), vval(i - a), g.disk0(i))
        s.new = new
        g.future = [(g.n0, new)]
        g.flush_content = lambda: (g.n0, g.c0)
        return (slice(SInt(a), SInt(b)), arg_rows(kv, lambda j: vval(j), s.vt, s.vd)), {}

    def pre(self, s):
        g = s.g
        return [0 <= s.a, s.a <= s.b, s.b <= g.n0, s.kv == s.b - s.a, s.vt == g.tail, s.vd == g.dtype]

    def raises(self, s):
        return {'IndexError': s.g.closed0}

    def iff_raises(self, s):
        return [('normal return only if open', z3.Not(s.g.closed0))]

    def ensures(self, s, result):
        g = s.g
        n, isnone, d = final(s)
        return [('row count unchanged', n == g.n0),
                ('rows [a, b) now hold the value, every other row is unchanged', forall_range(0, g.n0, lambda i: d.content(i) == s.new(i), 'r'))] + self.inv_post(s)


class InitFromFileHeader(NpyContract):
    """reopen: a freshly opened file object at offset 0 on a disk that loads; all other fields still unset"""
    target = 'elfi/store.py::NpyArray._init_from_file_header'

    def setup(self, vc):
        s, a, kw = NpyContract.setup(self, vc)
        o, g = s.o, s.g
        o.header_length = o.itemsize = o.shape = o.dtype = o._header_bytes_to_write = None
        o.fs = FileSpec(g, z3.BoolVal(False), IV(0))
        o._memmap = None
        g.hist = [(g.hdr0, g.c0)]         # nothing is known about the previous process: the file content IS the logical content
        return s, a, kw

    def requires(self, s):
        g = s.g
        return [g.loads(), g.H >= 13, g.H == HLEN(MAXROWS, g.tail, g.dtype), Wf(g.tail) >= 1, ISZ(g.dtype) >= 1, g.hdr0 <= MAXROWS]

    def ensures(self, s, result):
        g = s.g
        o = s.o
        if not isinstance(o.shape, Shape):
            return [('shape read from the file', z3.BoolVal(False))]
        return [('reopen yields rows = disk rows [0, header rows)', o.shape.rows == g.hdr0),
                ('no file content changed', z3.And(g.disk.hdr_rows == g.hdr0, g.disk.data_rows == g.data0))] + self.inv_post(s)


class InitFromArray(NpyContract):
    """first append to an empty, just created file: establishes npy_ok with 0 rows.  No crash obligations: the property's crash
    clause starts at the first flush."""
    target = 'elfi/store.py::NpyArray.init_from_array'
    crash = False
    stubs = ('_prepare_header_data', '_write_header_data')

    def setup(self, vc):
        s, a, kw = NpyContract.setup(self, vc)
        o, g = s.o, s.g
        o.header_length = o.itemsize = o.shape = o.dtype = o._header_bytes_to_write = None
        o.fs = FileSpec(g, z3.BoolVal(False), IV(0))
        o._memmap = None
        g.disk = Disk(IV(-1), IV(-1), IV(-1), IV(-1), IV(0), g.c0)      # empty file: no header at all
        g.hist = [(IV(0), g.c0)]
        k = z3.Int('k')
        vc.fin_bounds.append(k)
        s.k = k
        aval = z3.Function('a_row', I, I)
        return s, (o, arg_rows(k, lambda j: aval(j), g.tail, g.dtype)), {}

    def requires(self, s):
        g = s.g
        return [s.k >= 0, Wf(g.tail) >= 1, ISZ(g.dtype) >= 1, g.H == HLEN(MAXROWS, g.tail, g.dtype)]

    def ensures(self, s, result):
        o = s.o
        if not isinstance(o.shape, Shape):
            return [('initialised', z3.BoolVal(False))]
        return [('an empty, loadable file with the oversized fixed-length header', z3.And(o.shape.rows == 0, s.g.disk.hdr_rows == 0)),
                ('the header is written (nothing pending), no data row is written', z3.And(pend_state(o._header_bytes_to_write)[0], s.g.disk.data_rows == 0))] + npy_ok(o, s.g)


# ------------------------------------------------------------------------------------------------ store level (list of batches)
class ArrayModel:
    """the array under an ArrayStore, seen through the contracts of NpyArray (append/truncate/clear proved above; item access =
    np.memmap rows, assumed): L rows, content row -> value"""

    def __init__(self, L, content, tail, dtype, closed, has_clear=True):
        self.L, self.content, self.tail, self.dt, self._closed = L, content, tail, dtype, closed
        self.log = []
        if has_clear:
            self.clear = self._clear

    def _vc_len(self):
        return SInt(self.L)

    def append(self, data):
        vc = cur()
        if not isinstance(data, Rows):
            raise OutOfSubset('append(%s)' % type(data).__name__)
        vc.oblige('call-pre[array.append: array open, batch has the row shape and dtype of the array]',
                  z3.And(z3.Not(self._closed), data.tail == self.tail, data.dt == self.dt))
        old, L, k, val = self.content, self.L, data.k, data.val
        self.content = lambda i: z3.If(z3.And(L <= i, i < L + k), val(i - L), old(i))
        self.L = L + k
        self.log.append('append')

    def truncate(self, length=0):
        vc = cur()
        ln = T(length)
        vc.oblige('call-pre[array.truncate: array open and 0 <= length <= len(array)]', z3.And(z3.Not(self._closed), ln >= 0, ln <= self.L))
        self.L = ln
        self.log.append('truncate')

    def _clear(self):
        cur().oblige('call-pre[array.clear: array open]', z3.Not(self._closed))
        self.L = IV(0)
        self.log.append('clear')

    def _bounds(self, sl, what):
        if not isinstance(sl, slice) or sl.step is not None:
            raise OutOfSubset('array index %r' % (sl,))
        a, b = T(sl.start), T(sl.stop)
        cur().oblige('call-pre[array%s: slice inside the array: 0 <= start <= stop <= len]' % what, z3.And(0 <= a, a <= b, b <= self.L))
        return a, b

    def __getitem__(self, sl):
        a, b = self._bounds(sl, '[sl]')
        c = self.content
        return Rows(b - a, lambda j: c(a + j), self.tail, self.dt)

    def __setitem__(self, sl, data):
        a, b = self._bounds(sl, '[sl] = data')
        if not isinstance(data, Rows):
            raise OutOfSubset('array[sl] = %s' % type(data).__name__)
        cur().oblige('call-pre[array[sl] = data: array open, data has exactly the rows of the slice, same row shape and dtype]',
                     z3.And(z3.Not(self._closed), data.k == b - a, data.tail == self.tail, data.dt == self.dt))
        old, val = self.content, data.val
        self.content = lambda i: z3.If(z3.And(a <= i, i < b), val(i - a), old(i))
        self.log.append('setitem')


class _Super:
    """super(NpyStore, self): the ArrayStore methods, by their contracts (proved by ASet / ADel)"""

    def __init__(self, o):
        self.o = o

    def __setitem__(self, i, data):
        vc, o = cur(), self.o
        vc.libcall('stub:ArrayStore.__setitem__', (i,))
        i = T(i)
        bs, nb, arr = T(o.batch_size), T(o.n_batches), o.array
        vc.oblige('call-pre[ArrayStore.__setitem__: index >= 0, batch of batch_size rows]', z3.And(i >= 0, data.k == bs))
        if vc.branch(z3.Or(i > nb, bs * i + bs > arr.L)):
            raise program_exception(IndexError('ArrayStore.__setitem__'))
        arr[slice(SInt(bs * i), SInt(bs * i + bs))] = data
        o.n_batches = SInt(z3.If(i == nb, nb + 1, nb))

    def __delitem__(self, i):
        vc, o = cur(), self.o
        vc.libcall('stub:ArrayStore.__delitem__', (i,))
        i = T(i)
        nb = T(o.n_batches)
        vc.oblige('call-pre[ArrayStore.__delitem__: index >= 0]', i >= 0)
        if vc.branch(i != nb - 1):
            raise program_exception(IndexError('ArrayStore.__delitem__'))
        o.n_batches = SInt(nb - 1)


class StoreSelf:
    def __init__(self, array, bs, nb, stubs=()):
        self.array, self.batch_size, self.n_batches = array, SInt(bs), SInt(nb)
        self._stubs = set(stubs)

    def _to_slice(self, i):
        if '_to_slice' not in self._stubs:
            raise OutOfSubset('_to_slice not declared as a callee')
        cur().libcall('stub:_to_slice', (i,))
        a = T(self.batch_size) * T(i)
        return slice(SInt(a), SInt(a + T(self.batch_size)))

    def __contains__(self, i):
        if '__contains__' not in self._stubs:
            raise OutOfSubset('__contains__ not declared as a callee')
        return SBool(T(i) < T(self.n_batches))

    def _vc_super(self):
        if 'super' not in self._stubs:
            raise OutOfSubset('super() not declared as a callee')
        return _Super(self)


class StoreContract(Contract):
    prop = 'C06'
    fin = 5
    stubs = ()
    npy = False           # NpyStore: the array holds whole batches only (len(array) = batch_size * m)
    has_clear = True

    def env(self, vc):
        return {'super': lambda cls, obj: obj._vc_super(), 'NpyStore': 'NpyStore', 'ArrayStore': 'ArrayStore'}

    def setup(self, vc):
        L, bs, nb, i, m = z3.Int('array_len'), z3.Int('batch_size'), z3.Int('n_batches'), z3.Int('batch_index'), z3.Int('phys_batches')
        arr0 = z3.Function('array_row', I, I)
        c0 = lambda q: arr0(q)
        tail, dt = z3.Int('tail'), z3.Int('dtype')
        arr = ArrayModel(L, c0, tail, dt, z3.BoolVal(False), self.has_clear)
        o = StoreSelf(arr, bs, nb, self.stubs)
        dval = z3.Function('data_row', I, I)
        data = arg_rows(z3.Int('data_rows'), lambda j: dval(j), z3.Int('data_tail'), z3.Int('data_dtype'))
        s = NS(o=o, arr=arr, L=L, bs=bs, nb=nb, i=i, m=m, c0=c0, data=data, dval=dval)
        vc.fin_bounds.extend([L, bs, nb, i, m, data.k])
        a = self.args(s)
        return s, (o,) + tuple(a), {}

    def args(self, s):
        return ()

    def store_ok(self, s, nb=None, L=None):
        nb = s.nb if nb is None else nb
        L = s.L if L is None else L
        return z3.And(s.bs >= 1, nb >= 0, s.bs * nb <= L)

    def requires(self, s):
        f = [self.store_ok(s), s.i >= 0]
        if self.npy:
            f += [s.m >= s.nb, s.L == s.bs * s.m]
        return f + list(self.pre(s))

    def pre(self, s):
        return []

    def batch_pre(self, s):
        d = s.data
        return [d.k == s.bs, d.tail == s.arr.tail, d.dt == s.arr.dt]

    def witness(self, vc, model, ob):
        ev = lambda t: str(model.eval(t, model_completion=True))
        out = {nm: ev(z3.Int(nm)) for nm in ('array_len', 'batch_size', 'n_batches', 'batch_index', 'phys_batches', 'data_rows')}
        out['obligation'] = ob.kind
        return out


def set_post(c, s):
    """list-of-batches view after `store[i] = data` (rows of batch j are [bs*j, bs*j+bs) - the spec's own slicing)"""
    nb2, arr = T(s.o.n_batches), s.arr
    lo = s.bs * s.i
    return [("set at i == len appends one batch, at i < len the length stays", nb2 == z3.If(s.i == s.nb, s.nb + 1, s.nb)),
            ('batch i now holds the data, row by row', forall_range(0, s.bs, lambda r: arr.content(lo + r) == s.dval(r), 'r')),
            ('only batch i changed: every row outside [bs*i, bs*i+bs) is as before',
             forall_range(0, arr.L, lambda q: z3.Implies(z3.Or(q < lo, q >= lo + s.bs), arr.content(q) == s.c0(q)), 'q')),
            ('store_ok: the exposed batches are inside the array', c.store_ok(s, nb2, arr.L))]


class AToSlice(StoreContract):
    target = 'elfi/store.py::ArrayStore._to_slice'

    def args(self, s):
        return (SInt(s.i),)

    def ensures(self, s, result):
        ok = isinstance(result, slice) and result.step is None
        if not ok:
            return [('a slice', z3.BoolVal(False))]
        return [('rows of batch i are [bs*i, bs*i + bs)', z3.And(T(result.start) == s.bs * s.i, T(result.stop) == s.bs * s.i + s.bs))]


class ALen(StoreContract):
    target = 'elfi/store.py::ArrayStore.__len__'

    def ensures(self, s, result):
        return [('len(store) = number of batches', T(result) == s.nb)]


class AContains(StoreContract):
    target = 'elfi/store.py::ArrayStore.__contains__'

    def args(self, s):
        return (SInt(s.i),)

    def ensures(self, s, result):
        return [('i in store  <=>  0 <= i < len(store)', T(lift(result)) == z3.And(s.i >= 0, s.i < s.nb))]


class AGet(StoreContract):
    target = 'elfi/store.py::ArrayStore.__getitem__'
    stubs = ('_to_slice',)

    def args(self, s):
        return (SInt(s.i),)

    def pre(self, s):
        return [s.i < s.nb]

    def ensures(self, s, result):
        if not isinstance(result, Rows):
            return [('rows returned', z3.BoolVal(False))]
        return [('store[i] is batch i: batch_size rows', result.k == s.bs),
                ('store[i] is batch i: rows [bs*i, bs*i+bs) of the array, in order', forall_range(0, s.bs, lambda r: result.val(r) == s.c0(s.bs * s.i + r), 'r')),
                ('reading changes nothing', z3.BoolVal(not s.arr.log))]


class ASet(StoreContract):
    target = 'elfi/store.py::ArrayStore.__setitem__'
    stubs = ('_to_slice',)

    def args(self, s):
        return (SInt(s.i), s.data)

    def pre(self, s):
        return self.batch_pre(s)

    def raises(self, s):
        return {'IndexError': z3.Or(s.i > s.nb, s.bs * s.i + s.bs > s.L)}

    def iff_raises(self, s):
        return [('normal return only if i <= len and the array has room for batch i', z3.And(s.i <= s.nb, s.bs * s.i + s.bs <= s.L))]

    def ensures(self, s, result):
        return set_post(self, s) + [('array length unchanged', s.arr.L == s.L)]


class ADel(StoreContract):
    target = 'elfi/store.py::ArrayStore.__delitem__'
    stubs = ('__contains__',)

    def args(self, s):
        return (SInt(s.i),)

    def raises(self, s):
        return {'IndexError': s.i != s.nb - 1}

    def iff_raises(self, s):
        return [('delete only of the last batch', s.i == s.nb - 1)]

    def ensures(self, s, result):
        return [('one batch fewer', T(s.o.n_batches) == s.nb - 1), ('the array is untouched', z3.BoolVal(not s.arr.log)),
                ('store_ok', self.store_ok(s, T(s.o.n_batches), s.arr.L))]


class AClear(StoreContract):
    target = 'elfi/store.py::ArrayStore.clear'

    def __init__(self, has_clear):
        self.has_clear = has_clear
        self.label = 'array with clear()' if has_clear else 'array without clear()'

    def ensures(self, s, result):
        out = [('no batches left', T(s.o.n_batches) == 0), ('store_ok', self.store_ok(s, T(s.o.n_batches), s.arr.L))]
        if self.has_clear:
            out.append(('the array is cleared too (an NpyArray file then holds 0 rows)', s.arr.L == 0))
        return out


class NSet(StoreContract):
    target = 'elfi/store.py::NpyStore.__setitem__'
    stubs = ('_to_slice', 'super')
    npy = True

    def args(self, s):
        return (SInt(s.i), s.data)

    def pre(self, s):
        return self.batch_pre(s)

    def raises(self, s):
        return {'IndexError': s.i > s.nb}

    def iff_raises(self, s):
        return [('set at i > len raises', s.i <= s.nb)]

    def ensures(self, s, result):
        arr = s.arr
        m2 = z3.If(s.i == s.m, s.m + 1, s.m)
        return set_post(self, s) + [('the file holds whole batches only: len(array) = bs * m', z3.And(arr.L == s.bs * m2, m2 >= T(s.o.n_batches)))]


class NDel(StoreContract):
    target = 'elfi/store.py::NpyStore.__delitem__'
    stubs = ('_to_slice', 'super')
    npy = True

    def args(self, s):
        return (SInt(s.i),)

    def raises(self, s):
        return {'IndexError': s.i != s.nb - 1}

    def iff_raises(self, s):
        return [('delete only of the last batch', s.i == s.nb - 1)]

    def ensures(self, s, result):
        arr, nb2 = s.arr, T(s.o.n_batches)
        return [('one batch fewer', nb2 == s.nb - 1),
                ('the file is cut to exactly the remaining batches (numpy.load after a flush shows the same content)', arr.L == s.bs * nb2),
                ('remaining batches unchanged', forall_range(0, arr.L, lambda q: arr.content(q) == s.c0(q), 'q')),
                ('store_ok', self.store_ok(s, nb2, arr.L))]


# ------------------------------------------------------------------------------------------------ file names, os.path, open(): reopen / unpickle / delete
B = z3.BoolSort()
P_EXISTS = z3.Function('path_exists', I, B)         # os.path.exists at entry (the file system is an oracle: an arbitrary predicate over paths)
P_BASE = z3.Function('path_basename', I, I)         # os.path.basename
P_ENDS = z3.Function('path_ends_with_npy', I, B)    # p[-4:] == '.npy'
P_CAT = z3.Function('path_plus_npy', I, I)          # p + '.npy'
P_FILE = z3.Function('path_file', I, I)            # the file a path denotes NOW (two names of one file: a relative name and its absolute form)
P_ABS = z3.Function('path_abspath', I, I)           # os.path.abspath


def abs_facts(p):
    """ASSUMED os.path facts (sanity-tested), as explicit instances: abspath(p) names the file p names now, exists / ends with '.npy' / has the
    base name exactly as p does, and is idempotent"""
    a = P_ABS(p)
    return z3.And(P_FILE(a) == P_FILE(p), P_EXISTS(a) == P_EXISTS(p), P_ENDS(a) == P_ENDS(p), P_BASE(a) == P_BASE(p), P_ABS(a) == a)


def with_npy(p):
    """the file name an NpyArray made from `p` is bound to (statement of NpyArray.__init__: '.npy' is appended unless already there)"""
    return z3.If(P_ENDS(p), p, P_CAT(p))


def path_facts(p):
    """ASSUMED str / os.path facts (sanity-tested), as explicit instances: p + '.npy' ends with '.npy'; the base name of a name that
    ends with '.npy' ends with '.npy'"""
    return z3.And(P_ENDS(P_CAT(p)), z3.Implies(P_ENDS(p), P_ENDS(P_BASE(p))), P_ENDS(P_CAT(P_BASE(p))))


class Suffix4(Sym):
    """p[-4:]"""

    def __init__(self, p):
        self.p, self.t = p, None

    def __eq__(self, o):
        if isinstance(o, str) and o == '.npy':
            return SBool(P_ENDS(self.p))
        raise OutOfSubset('file name suffix compared with %r' % (o,))

    def __ne__(self, o):
        return ~self.__eq__(o)

    __hash__ = Sym.__hash__


class SPath(Sym):
    """a file name (str): an opaque path id"""

    def __init__(self, t):
        self.t = t

    def __getitem__(self, k):
        if isinstance(k, slice) and (k.start, k.stop, k.step) == (-4, None, None):
            return Suffix4(self.t)
        raise OutOfSubset('file name index %r' % (k,))

    def endswith(self, suf):
        if suf == '.npy':
            return SBool(P_ENDS(self.t))
        raise OutOfSubset('file name .endswith(%r)' % (suf,))

    def __add__(self, o):
        if isinstance(o, str) and o == '.npy':
            cur().assume(path_facts(self.t))
            return SPath(P_CAT(self.t))
        raise OutOfSubset('file name + %r' % (o,))

    def __eq__(self, o):
        if isinstance(o, SPath):
            return SBool(self.t == o.t)
        raise OutOfSubset('file name compared with %s' % type(o).__name__)

    def __ne__(self, o):
        return ~self.__eq__(o)

    __hash__ = Sym.__hash__

    def __bool__(self):
        return True

    def __format__(self, spec):
        return '<path>'

    def __str__(self):
        return '<path>'


class World:
    """ghost file system: which paths exist (oracle at entry + creations / removals in program order) and what the code did to it"""

    def __init__(self):
        self.exists = lambda p: P_EXISTS(p)
        self.opened, self.removed, self.queried = [], [], []

    def set_exists(self, p, val):
        old = self.exists
        self.exists = lambda q: z3.If(q == p, z3.BoolVal(val), old(q))


def _path(x, what):
    if not isinstance(x, SPath):
        raise OutOfSubset('%s(%s)' % (what, type(x).__name__))
    return x.t


class OsSpec:
    """the `os` module as elfi/store.py uses it for array files"""

    def __init__(self, w):
        self._w = w
        self.path = self

    def exists(self, p):
        t = _path(p, 'os.path.exists')
        self._w.queried.append(t)
        return SBool(self._w.exists(t))

    def basename(self, p):
        t = _path(p, 'os.path.basename')
        cur().assume(path_facts(t))
        return SPath(P_BASE(t))

    def abspath(self, p):
        t = _path(p, 'os.path.abspath')
        cur().assume(abs_facts(t), path_facts(P_ABS(t)))
        return SPath(P_ABS(t))

    def remove(self, p):
        t = _path(p, 'os.remove')
        w = self._w
        if not cur().branch(w.exists(t)):
            raise program_exception(FileNotFoundError('os.remove: no such file'))
        w.removed.append(t)
        w.set_exists(t, False)

    def __getattr__(self, k):
        raise OutOfSubset('os.%s is not modelled' % k)


def open_spec(g, w):
    """builtin open() for the array file.  'r+b': the file must exist (else FileNotFoundError), cursor at 0, content untouched;
    'w+b': the file is created or emptied"""
    def open_(name, mode='r', *a, **kw):
        t = _path(name, 'open')
        if a or kw or mode not in ('r+b', 'w+b', 'rb+', 'wb+'):
            raise OutOfSubset('open(..., %r, ...)' % (mode,))
        vc = cur()
        if mode in ('r+b', 'rb+'):
            if not vc.branch(w.exists(t)):
                raise program_exception(FileNotFoundError('open: no such file'))
        else:
            w.set_exists(t, True)
            g.disk = Disk(IV(-1), IV(-1), IV(-1), IV(-1), IV(0), g.c0)       # empty file: no header at all
        fs = FileSpec(g, z3.BoolVal(False), IV(0), name=SPath(t))
        w.opened.append((t, 'r+b' if mode[0] == 'r' else 'w+b', fs))
        return fs
    return open_


def file_pre(g):
    """an existing array file is one a store left behind after a completed flush / close (Flush / Close / GetState posts): it loads,
    its header has the fixed oversized length"""
    return z3.And(g.loads(), g.H >= 13, g.H == HLEN(MAXROWS, g.tail, g.dtype), Wf(g.tail) >= 1, ISZ(g.dtype) >= 1, g.hdr0 <= MAXROWS)


def spec_init_from_file_header(o):
    """callee contract of NpyArray._init_from_file_header (proved by InitFromFileHeader)"""
    vc, g = cur(), o._g
    vc.libcall('stub:_init_from_file_header', ())
    fs = o.__dict__.get('fs')
    if not isinstance(fs, FileSpec):
        raise OutOfSubset('_init_from_file_header before the file is opened')
    unset = all(o.__dict__.get(k, 0) is None for k in ('header_length', 'itemsize', 'shape', 'dtype', '_header_bytes_to_write'))
    vc.oblige('call-pre[_init_from_file_header: a freshly opened file (cursor 0, open), no field set yet]',
              z3.And(z3.BoolVal(unset), z3.Not(fs._closed), fs.pos == 0))
    vc.oblige('call-pre[_init_from_file_header: the file is a loadable .npy file with the fixed-length header]', file_pre(g))
    d = g.disk
    o.shape, o.dtype = Shape(d.hdr_rows, Tail(d.hdr_tail)), DType(d.hdr_dtype)
    o.header_length, o.itemsize = SIntB(g.H), SInt(ISZ(g.dtype))
    fs.pos = d.prefix_H
    g.ops.append('stub:_init_from_file_header')


def spec_close(o):
    """callee contract of NpyArray.close (proved by Close)"""
    vc, g, d = cur(), o._g, o._g.disk
    vc.libcall('stub:close', ())
    for nm, f in npy_ok(o, g):
        vc.oblige('call-pre[close: %s]' % nm, f)
    if vc.branch(o.fs._closed):
        return
    d.hdr_rows = o.shape.rows
    o._header_bytes_to_write = None
    o.fs._closed = z3.BoolVal(True)
    o.fs.dirty = z3.BoolVal(False)
    g.hist = [(o.shape.rows, d.content)]
    o._memmap = None
    g.ops.append('stub:close')


METHOD_SPECS['_init_from_file_header'] = spec_init_from_file_header
METHOD_SPECS['close'] = spec_close


class Init(NpyContract):
    """NpyArray.__init__(filename) / (filename, truncate=True): reopen of an existing file, or creation of a new, empty one.
    No crash obligations (nothing is written; with truncate=True the content is discarded on purpose)."""
    target = 'elfi/store.py::NpyArray.__init__'
    crash = False
    stubs = ('_init_from_file_header',)

    def __init__(self, truncate):
        self.truncate = truncate
        self.label = 'truncate=True' if truncate else 'reopen or create'

    def env(self, vc):
        e = NpyContract.env(self, vc)
        e.update({'os': OsSpec(self._w), 'open': open_spec(self._g, self._w)})
        return e

    def setup(self, vc):
        g = Ghost(vc, crash=False)
        self._g, self._w = g, World()
        o = NpySelf(g, self.stubs)            # no field set: __init__ sets them all
        g.hist = [(g.hdr0, g.c0)]
        fn = z3.Int('filename')
        s = NS(g=g, o=o, w=self._w, fn=fn, W=with_npy(fn), ex=P_EXISTS(with_npy(fn)))
        return s, (o, SPath(fn)), ({'truncate': True} if self.truncate else {})

    def requires(self, s):
        return [path_facts(s.fn), z3.Implies(s.ex, file_pre(s.g)), s.g.R >= 1]

    def ensures(self, s, result):
        o, g, w, d = s.o, s.g, s.w, s.g.disk
        fnm, fs = o.__dict__.get('filename'), o.__dict__.get('fs')
        if not isinstance(fnm, SPath) or not isinstance(fs, FileSpec) or not isinstance(fs.name, SPath):
            return [('the store is bound to an open file', z3.BoolVal(False))]
        one = len(w.opened) == 1
        mode = w.opened[0][1] if one else None
        reopened = (isinstance(o.shape, Shape) and '_memmap' in o.__dict__ and o._memmap is None and mode == 'r+b')
        created = (all(o.__dict__.get(k, 0) is None for k in ('header_length', 'itemsize', 'shape', 'dtype', '_header_bytes_to_write', '_memmap'))
                   and mode == 'w+b' and o.fortran_order is False)
        out = [("the store is bound to the named file: filename (+ '.npy' unless it ends with it)", z3.And(fnm.t == s.W, fs.name.t == s.W)),
               ('exactly that one file is opened, nothing is removed', z3.And(z3.BoolVal(one and not w.removed), (w.opened[0][0] == s.W) if one else z3.BoolVal(False))),
               ('the file object is open', z3.Not(fs._closed))]
        if self.truncate:
            out.append(('truncate=True: the file is emptied and the store is uninitialised (reports no rows)', z3.And(z3.BoolVal(created), d.data_rows == 0)))
            return out
        re_f = z3.BoolVal(False)
        if reopened:
            re_f = z3.And([f for _, f in self.inv_post(s)] +
                          [o.shape.rows == g.hdr0, d.hdr_rows == g.hdr0, d.data_rows == g.data0,
                           forall_range(0, g.data0, lambda i: d.content(i) == g.disk0(i), 'r')])
        out += [('reopening an existing file: the store reports exactly the rows the file shows (header rows), the file is untouched, npy_ok holds',
                 z3.Implies(s.ex, re_f)),
                ('no such file: a new, empty file of that name is created and the store is uninitialised (reports no rows)',
                 z3.Implies(z3.Not(s.ex), z3.And(z3.BoolVal(created), d.data_rows == 0)))]
        return out

    def witness(self, vc, model, ob):
        ev = lambda t: str(model.eval(t, model_completion=True))
        return {'obligation': ob.kind, 'filename_ends_with_npy': ev(P_ENDS(z3.Int('filename'))), 'file_exists': ev(P_EXISTS(with_npy(z3.Int('filename')))),
                'disk_hdr_rows': ev(z3.Int('disk_hdr_rows')), 'disk_data_rows': ev(z3.Int('disk_data_rows'))}


class _InitRec:
    """`self` while unpickling: pickle creates the object WITHOUT calling __init__, so it has no attribute at all; `self.__init__`
    is NpyArray.__init__ under its contract (Init): binds the object to filename(+'.npy'), reopening the file if it exists and
    creating an empty one otherwise"""

    def __init__(self, filename, array=None, truncate=False):
        w = self._w
        cur().libcall('stub:__init__', ())
        t = _path(filename, 'NpyArray.__init__')
        cur().assume(path_facts(t))
        bound = with_npy(t)
        self._inits.append((bound, array, truncate, w.exists(bound)))
        w.set_exists(bound, True)          # reopened if it existed, created (empty) otherwise
        self.filename = SPath(bound)
        self.fs = ('open file object', bound)

    def __getattr__(self, k):
        if k.startswith('_vc') or k.startswith('__'):
            raise AttributeError(k)
        raise OutOfSubset('NpyArray.%s is read while unpickling, before __init__ ran (the object has no attributes yet)' % k)


class SetState(Contract):
    """NpyArray.__setstate__: which file the unpickled store is bound to.  The file system is an oracle (os.path.exists arbitrary)."""
    target = 'elfi/store.py::NpyArray.__setstate__'
    prop = 'C06'
    fin = 3

    def env(self, vc):
        return {'os': OsSpec(self._w)}

    def setup(self, vc):
        w = World()
        self._w = w
        o = object.__new__(_InitRec)
        o.__dict__['_w'] = w
        o.__dict__['_inits'] = []
        fn = z3.Int('pickled_filename')
        s = NS(o=o, w=w, fn=fn, base=P_BASE(fn), state={'filename': SPath(fn)})
        return s, (o, s.state), {}

    def requires(self, s):
        # the pickled name is `self.filename` of a live NpyArray: __init__ made it end with '.npy' (Init post + GetState post)
        return [P_ENDS(s.fn), path_facts(s.fn)]

    def raises(self, s):
        o = s.o
        return {'FileNotFoundError': z3.And(z3.Not(P_EXISTS(s.fn)), z3.Not(P_EXISTS(s.base)),
                                            z3.BoolVal('fs' in o.__dict__ and o.__dict__['fs'] is None and not o._inits and not s.w.removed))}

    def iff_raises(self, s):
        return [('normal return only if the pickled path or its base name in the working directory exists', z3.Or(P_EXISTS(s.fn), P_EXISTS(s.base)))]

    def ensures(self, s, result):
        o = s.o
        ini = o._inits
        if len(ini) != 1:
            return [('the store is initialised exactly once', z3.BoolVal(False))]
        bound, array, truncate, existed = ini[0]
        return [('the store is initialised exactly once, as a reopen (no array, no truncation), nothing is removed',
                 z3.BoolVal(array is None and truncate is False and not s.w.removed)),
                ('the unpickled store is bound to the PICKLED path (a name of that very file) whenever that file exists', z3.Implies(P_EXISTS(s.fn), P_FILE(bound) == P_FILE(s.fn))),
                ('it is bound to the base name in the working directory (a name of that very file) only when the pickled path does not exist (and the base name does)',
                 z3.Implies(z3.Not(P_EXISTS(s.fn)), z3.And(P_FILE(bound) == P_FILE(s.base), P_EXISTS(s.base)))),
                ('the file it is bound to existed: unpickling never creates an (empty) array file', existed)]

    def witness(self, vc, model, ob):
        ev = lambda t: str(model.eval(t, model_completion=True))
        fn = z3.Int('pickled_filename')
        return {'obligation': ob.kind, 'pickled_path_exists': ev(P_EXISTS(fn)), 'base_name_exists_in_cwd': ev(P_EXISTS(P_BASE(fn))),
                'base_name_is_the_pickled_path': ev(P_BASE(fn) == fn)}


class Delete(NpyContract):
    """NpyArray.delete: closes, removes exactly the store's own file, invalidates the object; a no-op on a deleted array"""
    target = 'elfi/store.py::NpyArray.delete'
    crash = False
    stubs = ('close',)

    def __init__(self, live):
        self.live = live
        self.label = 'live array' if live else 'already deleted'

    def env(self, vc):
        e = NpyContract.env(self, vc)
        e['os'] = OsSpec(self._w)
        return e

    def setup(self, vc):
        s, a, kw = NpyContract.setup(self, vc)
        w = World()
        self._w = w
        s.w, s.name = w, z3.Int('file_name')
        if self.live:
            s.o.fs.name = SPath(s.name)
            s.o.filename = SPath(s.name)        # Init post: filename and fs.name are the same path
            w.opened.append((s.name, 'r+b', s.o.fs))
            s.fs0 = s.o.fs
        else:
            s.o.fs = None
            s.o.header_length = None
            s.o._memmap = None
        return s, a, kw

    def requires(self, s):
        if not self.live:
            return []
        return NpyContract.requires(self, s) + [P_EXISTS(s.name)]

    def ensures(self, s, result):
        o, w = s.o, s.w
        gone = z3.BoolVal(o.fs is None and o.header_length is None and o._memmap is None)
        if not self.live:
            return [('deleting a deleted array does nothing', z3.And(gone, z3.BoolVal(not w.removed and not s.g.ops)))]
        return [("exactly the store's own file is removed", z3.And(z3.BoolVal(len(w.removed) == 1), (w.removed[0] == s.name) if w.removed else z3.BoolVal(False))),
                ('the object is invalidated (deleted, uninitialised, no memmap)', gone)]


def new_file_pre(o, g):
    """a just created / emptied file under an uninitialised NpyArray"""
    d = g.disk
    fs = o.__dict__.get('fs')
    unset = all(o.__dict__.get(k, 0) is None for k in ('header_length', 'itemsize', 'shape', 'dtype', '_header_bytes_to_write'))
    if not isinstance(fs, FileSpec):
        return z3.BoolVal(False)
    return z3.And(z3.BoolVal(unset and o.__dict__.get('fortran_order') is False), z3.Not(fs._closed), d.data_rows == 0, d.prefix_H == -1, d.hdr_rows == -1)


def spec_init_from_array(o, array):
    """callee contract of NpyArray.init_from_array (proved by InitFromArray)"""
    vc, g, d = cur(), o._g, o._g.disk
    vc.libcall('stub:init_from_array', ())
    if not isinstance(array, Rows):
        raise OutOfSubset('init_from_array(%s)' % type(array).__name__)
    vc.oblige('call-pre[init_from_array: uninitialised array over an open, empty file]', new_file_pre(o, g))
    vc.oblige('call-pre[init_from_array: the array fixes the row shape and dtype of the file; fixed header length]',
              z3.And(array.tail == g.tail, array.dt == g.dtype, array.k >= 0, Wf(g.tail) >= 1, ISZ(g.dtype) >= 1, g.H == HLEN(MAXROWS, g.tail, g.dtype)))
    vc.assume(hlen_facts(IV(0), g.tail, g.dtype), g.H >= 13)
    o.shape, o.dtype = Shape(IV(0), Tail(g.tail)), DType(g.dtype)
    o.header_length, o.itemsize = SIntB(g.H), SInt(ISZ(g.dtype))
    o._header_bytes_to_write = None
    d.prefix_H, d.hdr_rows, d.hdr_tail, d.hdr_dtype = g.H, IV(0), g.tail, g.dtype
    o.fs.pos = vc.fresh_int('pos_after_init_from_array')
    o.fs.dirty = z3.BoolVal(True)
    g.ops.append('stub:init_from_array')


def spec_append_first(o, array):
    """callee contract of NpyArray.append on an uninitialised array over a new file (proved by AppendFirst)"""
    vc, g, d = cur(), o._g, o._g.disk
    vc.libcall('stub:append', ())
    if not isinstance(array, Rows):
        raise OutOfSubset('append(%s)' % type(array).__name__)
    vc.oblige('call-pre[append (first): uninitialised array over an open, empty file]', new_file_pre(o, g))
    vc.oblige('call-pre[append (first): the array fixes the row shape and dtype of the file; fixed header length]',
              z3.And(array.tail == g.tail, array.dt == g.dtype, array.k >= 0, array.k <= MAXROWS, Wf(g.tail) >= 1, ISZ(g.dtype) >= 1, g.H == HLEN(MAXROWS, g.tail, g.dtype)))
    vc.assume(hlen_facts(array.k, g.tail, g.dtype), g.H >= 13)
    k, val = array.k, array.val
    o.shape, o.dtype = Shape(k, Tail(g.tail)), DType(g.dtype)
    o.header_length, o.itemsize = SIntB(g.H), SInt(ISZ(g.dtype))
    o._header_bytes_to_write = HeaderBytes(k, g.tail, g.dtype, g.H, IV(0), g.H)
    d.prefix_H, d.hdr_rows, d.hdr_tail, d.hdr_dtype, d.data_rows = g.H, IV(0), g.tail, g.dtype, k
    d.content = lambda i: val(i)
    g.hist = [(IV(0), d.content), (k, d.content)]
    o.fs.pos = vc.fresh_int('pos_after_append')
    o.fs.dirty = z3.BoolVal(True)
    o._memmap = None
    g.ops.append('stub:append')


METHOD_SPECS['init_from_array'] = spec_init_from_array


class AppendFirst(NpyContract):
    """first append: the array is uninitialised over a just created, empty file.  Functional obligations only (the crash clause of the
    property starts at the first completed flush)."""
    target = 'elfi/store.py::NpyArray.append'
    label = 'first append to a new, empty file'
    crash = False
    stubs = ('init_from_array', '_prepare_header_data')

    def setup(self, vc):
        s, a, kw = NpyContract.setup(self, vc)
        o, g = s.o, s.g
        o.header_length = o.itemsize = o.shape = o.dtype = o._header_bytes_to_write = None
        o.fs = FileSpec(g, z3.BoolVal(False), z3.Int('fs_pos'))
        o._memmap = None
        g.disk = Disk(IV(-1), IV(-1), IV(-1), IV(-1), IV(0), g.c0)
        g.hist = [(IV(0), g.c0)]
        g.write_row = IV(0)
        k = z3.Int('k')
        vc.fin_bounds.append(k)
        aval = z3.Function('a_row', I, I)
        s.k, s.aval = k, aval
        return s, (o, arg_rows(k, lambda j: aval(j), g.tail, g.dtype)), {}

    def requires(self, s):
        g = s.g
        return [s.k >= 0, s.k <= MAXROWS, Wf(g.tail) >= 1, ISZ(g.dtype) >= 1, g.H == HLEN(MAXROWS, g.tail, g.dtype)]

    def ensures(self, s, result):
        o, g = s.o, s.g
        if not isinstance(o.shape, Shape):
            return [('initialised', z3.BoolVal(False))]
        n, isnone, d = final(s)
        return [("rows' = a: row count", n == s.k),
                ("rows' = a: the rows are those of a, in order", forall_range(0, s.k, lambda j: d.content(j) == s.aval(j), 'j')),
                ('the file holds exactly those rows and still loads (as an empty array until the header is flushed)', z3.And(d.data_rows == s.k, d.hdr_rows == 0)),
                ('a header for the new row count is prepared, no memmap is cached', z3.And(z3.Not(isnone), z3.BoolVal(o._memmap is None)))] + npy_ok(o, g)


class InitArray(Init):
    """NpyArray(filename, array): a new (or emptied) file that holds exactly `array`, flushed"""
    stubs = ('append', 'flush', '_init_from_file_header')

    def __init__(self):
        self.truncate = True
        self.label = 'initial array given'

    def setup(self, vc):
        s, a, kw = Init.setup(self, vc)
        g = s.g
        k = z3.Int('k')
        vc.fin_bounds.append(k)
        aval = z3.Function('a_row', I, I)
        s.k, s.aval = k, aval
        return s, a + (arg_rows(k, lambda j: aval(j), g.tail, g.dtype),), {}

    def requires(self, s):
        g = s.g
        return [path_facts(s.fn), s.k >= 0, s.k <= MAXROWS, Wf(g.tail) >= 1, ISZ(g.dtype) >= 1, g.H == HLEN(MAXROWS, g.tail, g.dtype)]

    def raises(self, s):
        g = s.g
        return {'OverflowError': HLEN(s.k, g.tail, g.dtype) > g.H}

    def ensures(self, s, result):
        o, g, w, d = s.o, s.g, s.w, s.g.disk
        fnm, fs = o.__dict__.get('filename'), o.__dict__.get('fs')
        if not isinstance(fnm, SPath) or not isinstance(fs, FileSpec) or not isinstance(fs.name, SPath) or not isinstance(o.shape, Shape):
            return [('the store is bound to an open, initialised file', z3.BoolVal(False))]
        one = len(w.opened) == 1
        isnone = pend_state(o._header_bytes_to_write)[0]
        return [("the store is bound to the named file: filename (+ '.npy' unless it ends with it)", z3.And(fnm.t == s.W, fs.name.t == s.W)),
                ('exactly that one file is opened (created or emptied), nothing is removed',
                 z3.And(z3.BoolVal(one and not w.removed and w.opened[0][1] == 'w+b'), (w.opened[0][0] == s.W) if one else z3.BoolVal(False))),
                ('the store reports exactly the rows of the initial array', z3.And(o.shape.rows == s.k, forall_range(0, s.k, lambda j: d.content(j) == s.aval(j), 'j'))),
                ('flushed: the file is a .npy file that loads to exactly the initial array', z3.And(g.loads(), d.hdr_rows == s.k, d.data_rows == s.k, isnone))] + npy_ok(o, g)

class _Logger:
    def __getattr__(self, k):
        if k in ('warning', 'info', 'debug', 'error'):
            return lambda *a, **kw: None
        raise AttributeError(k)


class AInit(StoreContract):
    """ArrayStore.__init__: how many batches a store opened over an array (an existing file) exposes"""
    target = 'elfi/store.py::ArrayStore.__init__'

    def __init__(self, given):
        self.given = given
        self.label = 'n_batches given' if given else 'n_batches default (-1)'

    def env(self, vc):
        e = StoreContract.env(self, vc)
        e['logger'] = _Logger()
        return e

    def setup(self, vc):
        s, a, kw = StoreContract.setup(self, vc)
        o = s.o
        del o.array, o.batch_size, o.n_batches          # __init__ sets them
        return s, (o, s.arr, SInt(s.bs)) + ((SInt(s.nb),) if self.given else ()), {}

    def requires(self, s):
        return [s.bs >= 1, s.L >= 0] + ([s.nb >= 0, s.bs * s.nb <= s.L] if self.given else [])

    def ensures(self, s, result):
        o = s.o
        d = o.__dict__
        if not all(k in d for k in ('array', 'batch_size', 'n_batches')):
            return [('array, batch_size and n_batches are set', z3.BoolVal(False))]
        nb2 = T(o.n_batches)
        out = [('the store is a view of the given array with the given batch size', z3.And(z3.BoolVal(o.array is s.arr), T(o.batch_size) == s.bs)),
               ('opening changes nothing in the array', z3.BoolVal(not s.arr.log)),
               ('store_ok: the exposed batches are inside the array', self.store_ok(s, nb2, s.arr.L))]
        if self.given:
            out.append(('exactly the requested number of batches is exposed', nb2 == s.nb))
        else:
            out.append(('all whole batches of the array are exposed: bs*n <= len(array) < bs*(n+1)', z3.And(s.bs * nb2 <= s.L, s.L < s.bs * (nb2 + 1))))
        return out

CONTRACTS = [PropSize(), PropLen(), PropClosed(), PropInitialized(),
             Append(), Truncate(), Clear(), Flush(), Close(), GetState(), PropMemmap(), NpyGetItem(), NpySetItem(), PrepareHeader(), WriteHeader(), WriteHeader(True), InitFromFileHeader(), InitFromArray(), AppendFirst(), Init(False), Init(True), InitArray(), SetState(), Delete(True), Delete(False), AInit(False), AInit(True),
             AToSlice(), ALen(), AContains(), AGet(), ASet(), ADel(), AClear(True), AClear(False), NSet(), NDel()]

TRUSTED_BASE = ['file object (io.BufferedRandom) model A-IO: seek/write/truncate/flush/close are atomic, applied in program order; written bytes may stay '
                'in the user-space buffer until the next seek/truncate/flush/close (sanity-tested), so a kill leaves the ghost disk state of some '
                'earlier operation boundary - every one of which carries the crash obligations',
                'numpy.lib.format.write_array_header_2_0: total length > 12, non-decreasing in the row count up to 2**64 (sanity-tested each run)',
                'numpy.lib.format.read_array_header_2_0 / numpy.load: round trip of (shape, C order, dtype) through a space-padded fixed-length header; '
                'numpy.load needs header rows <= rows present and ignores trailing bytes (sanity-tested each run)',
                'np.prod((r,)+tail) = r*prod(tail); ndarray.tobytes("C") / tobytes() = LOGICAL rows in order, prod(tail)*itemsize bytes each, whatever '
                'the memory layout; tobytes("F") = column-major image; tobytes("A") = tobytes("F") iff the array is Fortran- and not C-contiguous; the '
                'column-major image equals the row-major one when the array is empty or a row has one item, otherwise nothing is assumed about it '
                '(all sanity-tested on Fortran-ordered, transposed and strided arrays); np.ascontiguousarray / np.asfortranarray / copy() keep the logical value',
                'memmap[a:b] = value stores the logical rows of value for any layout / byte order of value (sanity-tested)',
                "file names: p + '.npy' ends with '.npy'; basename of a name ending with '.npy' ends with '.npy' (explicit instances); os.path.exists is an "
                "arbitrary predicate over path ids, changed only by open(.., 'w+b') (creates) and os.remove; open(p, 'r+b') needs an existing file and "
                "leaves it untouched, open(p, 'w+b') creates or empties it; the file object's name is p",
                'pickle creates the object without calling __init__ and hands the dict of __getstate__ to __setstate__ (bounded stand-in only)',
                'np.memmap(fileobj, offset, shape, dtype): item access reads/writes exactly the addressed rows of the file, immediately and bypassing the '
                'file object buffer; creating it seeks the file object, which pushes its buffer out (sanity-tested)',
                'pyvc engine: proxies, modular stubs, spec tables']
ASSUMPTIONS = ['A-IO: kill points inside one write/truncate call, torn pages, durability beyond the OS page cache and memmap write-back are outside the model',
               'A-INT: integers are mathematical',
               'callers pass batches of exactly batch_size rows with the row shape/dtype of the store (call-pre of __setitem__) and 0 <= length <= len(array) to truncate',
               'store[i] is specified for i in store only (the code does not raise for i >= len(store); callers guard with `in`)',
               'rows are non-empty (prod(shape[1:]) >= 1, itemsize >= 1); an array never holds more than 2**64 rows (MAX_SHAPE_LEN; then no OverflowError)',
               'the crash clause is checked from the first completed flush on; init_from_array (first append to an empty file) carries functional obligations only',
               'an existing array file that is reopened is one a store left behind after a completed flush / close (it loads and has the fixed oversized '
               'header: posts of Flush / Close / GetState); the name pickled by __getstate__ ends with .npy (Init post)',
               'ONE working directory: a path id denotes the same file throughout a call and between pickling and unpickling (a relative name '
               'interpreted against a different working directory is outside the model)',
               'NpyStore: the file holds whole batches (len(array) is a multiple of batch_size, as after any sequence of the operations of the property)']
NOT_PROVED = ['closing and reopening, or pickling and unpickling: proved are close, __getstate__ (flush first, the state is the file name), __setstate__ '
              '(bound to the pickled path whenever it exists, to the base name only otherwise, FileNotFoundError and deleted when neither exists, never '
              'creates a file), NpyArray.__init__ (reopen reports the rows the header shows and leaves the file untouched; missing file / truncate=True '
              '/ initial array: a new or emptied file holding exactly the array), _init_from_file_header, delete, ArrayStore.__init__. Bounded stand-in '
              'only: the pickle library itself (object creation, copy.deepcopy), the OS (meaning of a relative file name when the working directory '
              'changes between pickling and unpickling - see the report: stores obtained through ArrayPool.open carry the bare base name), NpyStore.__init__ '
              '(isinstance dispatch + the two proved constructors)',
              'OutputPool/ArrayPool save/open/_make_store_for (pickles stores next to the arrays): bounded stand-in only (NpyStore pickle round trip, '
              'ArrayPool node stores next to a namesake file, save/close/open)',
              'memory layouts outside the flags model: byte order of the batch (a byte-swapped batch has another dtype: append refuses it) and dtype '
              'conversion by the memmap store are covered by the bounded layouts E / X only']


def sanity():
    from bounded import c06 as b
    return b.sanity()


def bounded(tier, seed):
    from bounded import c06 as b
    return b.run(tier, seed)


_replay_cache = {}


def replay_refuted(cname, rf):
    """a refuted obligation: look for a failing native input (operation sequence, optionally with a kill point) on the real code"""
    from bounded import c06 as b
    meth = cname.split('[')[0].split('.')[-1]
    if cname.startswith('NpyArray.') and meth in ('__setstate__', '__init__', 'delete'):
        if ('fs', meth) not in _replay_cache:
            _replay_cache[('fs', meth)] = b.search_fs(cname)
        return _replay_cache[('fs', meth)]
    crash = rf['kind'].startswith('crash') or 'npy_ok' in rf['kind'] or 'crash invariant' in rf['kind']
    key = (cname.split('[')[0], crash)
    if key not in _replay_cache:
        _replay_cache[key] = b.search(cname, crash)
    return _replay_cache[key]


def replay_input(inp):
    from bounded import c06 as b
    if isinstance(inp, dict) and isinstance(inp.get('input'), dict) and 'signature' in inp:
        inp = inp['input']          # the driver's bounded-failure record wraps the input
    return b.replay_input(inp)
