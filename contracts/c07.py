"""C07 - SMC-ABC populations satisfy thresholds, prior support and importance weights.

SMC is a thin orchestration layer over three components that carry their own contracts:
the inner Rejection round (C01: with a threshold objective every held row satisfies it - clause G of
buffer_ok - and the run finishes exactly when n_samples held draws satisfy it), the weighted
statistics and the mixture proposal (C13: weighted_sample_quantile, weighted_var,
GMDistribution.logpdf / rvs with the finite-prior constraint) and the batch protocol (C04).
What is proved HERE, on the real SMC method bodies with recording stubs for those callees, is that
SMC hands them exactly the arguments the property names, in the order that makes the property true:
the previous population is read BEFORE the new one is appended, the threshold of round r is the
weighted quantile of population r-1, weights are exp(log prior - log mixture) of the previous
population's (means, cov, weights), cov = 2 * diag(weighted variance), proposals are drawn
conditioned on a finite prior log-density from the round's generator.
"""
MANIFEST = {
    'category': 'proof',
    'text': 'Every SMC method between the API and the contracted components (C01 rejection round, C13 weighted statistics / mixture proposal, C04 batch protocol) is verified on its real '
            'body with recording stubs: _compute_weights_means_and_cov (first-population weights 1; later w = exp(log prior - log q) with q the mixture of the PREVIOUS population\'s means, cov and weights; '
            'cov = 2 diag(weighted_var); RuntimeError iff all weights are zero), _gm_params / ordering in update and extract_result (previous population read before the new one is appended), '
            '_set_threshold (threshold of round r = weighted quantile of population r-1 at quantiles[r]), _init_new_round / _set_rejection_round (threshold in force handed to the inner Rejection; '
            'round seed by the C15 sub-seed), prepare_new_batch (proposals conditioned on finite prior log-density, drawn from the round generator), set_objective (round offsets for continued sampling), '
            '_update_objective and n_sim accounting. The population-level clauses then follow from the callee contracts; a bounded end-to-end run recomputes thresholds, weights and cov independently.',
    'note': 'Trusted: pyvc engine; callee contracts C01 (threshold-mode rejection), C13 (quantile, weighted_var, mixture logpdf/rvs), C15 (sub-seed), C04 (batches); scipy multivariate_normal; '
            'prior_logpdf acts row-wise; exp(log p - log q) = p/q over the reals. The implication from these argument-level contracts to the population-level statement is a paper step (DESIGN 5 C07). '
            'Parameter lists of concrete length 1-2 and population lists of concrete length 1-2 (array lengths symbolic). AdaptiveDistanceSMC / AdaptiveThresholdSMC are outside the property text.',
    'technique': 'deductive: VCs from the real SMC method bodies with recording stubs for callees under contract (pyvc), z3; bounded: end-to-end populations, <=3 rounds, 3 prior kinds',
}

import numpy as _np
import z3

from pyvc.core import cur, forall_range, exists_range, forall2_range, OutOfSubset
from pyvc.engine import Contract, Loop, NS, make_object, inline
from pyvc.values import SInt, SReal, SBool, SKey, SOpt, Sym, lift, term as T
from pyvc.sarray import SArr, Cell
from pyvc import npspec

R, I, B = z3.RealSort(), z3.IntSort(), z3.BoolSort()
LOGQ = z3.Function('log_mixture_density_of_row', I, R)
LOGP = z3.Function('log_prior_density_of_row', I, R)
WVAR = z3.Function('weighted_var_component', I, R)


class Pop:
    """a population (Sample object) as SMC sees it"""

    def __init__(self, tag, n=None):
        self.tag = tag
        self.means, self.cov, self.weights = ('means', tag), ('cov', tag), ('weights', tag)
        self.discrepancies = ('discrepancies', tag)
        self.n_batches = SInt(z3.Int('n_batches_' + tag))
        self.meta = {}

    def __repr__(self):
        return 'Pop(%s)' % self.tag


# ---------------------------------------------------------------- _compute_weights_means_and_cov
class ComputeWeights(Contract):
    target = 'elfi/methods/inference/samplers.py::SMC._compute_weights_means_and_cov'
    prop = 'C07'
    fin = 4

    def __init__(self, first, dim):
        self.first, self.dim = first, dim
        self.label = ('first-population' if first else 'later-population') + '-dim%d' % dim

    def setup(self, vc):
        n = z3.Int('n_samples')
        vc.fin_bounds.append(n)
        names = ['p%d' % i for i in range(self.dim)]
        cols = {nm: SArr.fresh('theta_' + nm, (n,), 'real') for nm in names}
        s = NS(n=n, names=names, cols=cols, calls=[], prev=Pop('prev'), older=Pop('older'))
        pop = make_object('SampleStub', attrs=dict(outputs=cols, n_samples=SInt(n)))
        pops = [] if self.first else [s.older, s.prev]

        def gm_logpdf(params, means, cov, weights):
            s.calls.append(('GMDistribution.logpdf', means, cov, weights))
            s.params_seen = params.snapshot()
            return SArr(Cell(lambda r: LOGQ(r), (n,), 'real'))

        def prior_logpdf(params):
            s.calls.append(('prior.logpdf',))
            s.prior_params_seen = params.snapshot()
            return SArr(Cell(lambda r: LOGP(r), (n,), 'real'))

        def weighted_var(params, w):
            s.calls.append(('weighted_var',))
            s.wvar_args = (params.snapshot(), w.snapshot())
            return SArr(Cell(lambda i: WVAR(i), (z3.IntVal(self.dim),), 'real'))
        s.env = dict(GMDistribution=make_object('GM', methods=dict(logpdf=staticmethod(gm_logpdf))), weighted_var=weighted_var)
        s.self = make_object('SMCStub', attrs=dict(parameter_names=names, _populations=pops, _prior=make_object('Prior', methods=dict(logpdf=staticmethod(prior_logpdf)))),
                             properties=dict(_gm_params=inline(vc, 'elfi/methods/inference/samplers.py::SMC._gm_params')))
        return s, (s.self, pop), {}

    def env(self, vc):
        return vc._s.env

    def requires(self, s):
        self._env = s.env
        return [s.n >= 1]

    def raises(self, s):
        if self.first:
            return {}
        return {'RuntimeError': forall_range(0, s.n, lambda r: npspec._exp(LOGP(r) - LOGQ(r)) == 0, 'r')}

    def ensures(self, s, result):
        means, w, cov = result
        n, d = s.n, self.dim
        out = []
        col = lambda j: s.cols[s.names[j]]
        out.append(('means = the parameter columns in parameter-name order (a copy)',
                    z3.And(means.shape[0] == n, z3.BoolVal(means.ndim == 2), means.shape[1] == d,
                           *[forall_range(0, n, lambda r, j=j: means.at(r, j) == col(j).at(r), 'r') for j in range(d)])))
        if self.first:
            out.append(('first-population weights are 1', z3.And(w.shape[0] == n, forall_range(0, n, lambda r: w.at(r) == 1, 'r'))))
            out.append(('no proposal density is evaluated for the first population', z3.BoolVal([c[0] for c in s.calls] == ['weighted_var'])))
        else:
            gm = [c for c in s.calls if c[0] == 'GMDistribution.logpdf']
            ok_args = len(gm) == 1 and gm[0][1:] == (s.prev.means, s.prev.cov, s.prev.weights)
            out.append(('the proposal density is the mixture of the PREVIOUS population: its means, cov and weights', z3.BoolVal(ok_args)))
            ps = s.params_seen
            out.append(('both densities are evaluated at the particles themselves',
                        z3.And(*[forall_range(0, n, lambda r, j=j: z3.And(ps.at(r, j) == col(j).at(r), s.prior_params_seen.at(r, j) == col(j).at(r)), 'r') for j in range(d)])))
            out.append(('weight = exp(log prior - log mixture) = prior density / proposal density',
                        z3.And(w.shape[0] == n, forall_range(0, n, lambda r: w.at(r) == npspec._exp(LOGP(r) - LOGQ(r)), 'r'))))
        pa, wa = s.wvar_args
        out.append(('weighted_var receives the particles and these weights',
                    z3.And(wa.shape[0] == n, forall_range(0, n, lambda r: wa.at(r) == w.at(r), 'r'),
                           *[forall_range(0, n, lambda r, j=j: pa.at(r, j) == col(j).at(r), 'r') for j in range(d)])))
        fin = z3.And(*[z3.And(2 * WVAR(i) != npspec.INF, 2 * WVAR(i) != -npspec.INF) for i in range(d)])
        out.append(('cov = 2 * diag(weighted variance) (unit covariance only when that is not finite)',
                    z3.And(*[cov.at(i, j) == z3.If(fin, (2 * WVAR(i) if i == j else 0), (1 if i == j else 0)) for i in range(d) for j in range(d)])))
        return out


# ---------------------------------------------------------------- ordering: the previous population is read before the new one is appended
class SmcUpdate(Contract):
    target = 'elfi/methods/inference/samplers.py::SMC.update'
    prop = 'C07'
    fin = 4

    def __init__(self, case):
        self.case = case            # not-finished | finished-more-rounds | finished-last-round
        self.label = case

    def setup(self, vc):
        rnd, last = (1, 2) if self.case != 'finished-last-round' else (2, 2)
        s = NS(calls=[], batch=object(), idx=SInt(z3.Int('batch_index')), pops=[Pop('p0')], new=Pop('new'))
        rej = make_object('RejStub', attrs=dict(finished=(self.case != 'not-finished')),
                          methods=dict(update=lambda self_, b, i: s.calls.append(('rejection.update', b is s.batch, i is s.idx))))
        batches = make_object('BH', methods=dict(cancel_pending=lambda self_: s.calls.append(('cancel_pending',))))
        base = make_object('Base', methods=dict(update=lambda self_, b, i: s.calls.append(('ParameterInference.update', b is s.batch, i is s.idx))))

        def extract(self_):
            s.calls.append(('_extract_population', len(self_._populations)))
            return s.new
        s.state = {'round': rnd}
        s.self = make_object('SMCStub', attrs=dict(_rejection=rej, batches=batches, bar=False, state=s.state, objective={'round': last}, _populations=s.pops),
                             methods=dict(_vc_super=lambda self_: base, _extract_population=extract,
                                          _init_new_round=lambda self_: s.calls.append(('_init_new_round', self_.state['round'], len(self_._populations))),
                                          _update_objective=lambda self_: s.calls.append(('_update_objective',))))
        return s, (s.self, s.batch, s.idx), {}

    def env(self, vc):
        return dict(super=lambda cls, obj: obj._vc_super(), SMC=object())

    def ensures(self, s, result):
        names = [c[0] for c in s.calls]
        head = [('ParameterInference.update', True, True), ('rejection.update', True, True)]
        if self.case == 'not-finished':
            want = head + [('_update_objective',)]
        elif self.case == 'finished-more-rounds':
            want = head + [('cancel_pending',), ('_extract_population', 1), ('_init_new_round', 2, 2), ('_update_objective',)]
        else:
            want = head + [('cancel_pending',), ('_update_objective',)]
        out = [('n_sim accounting first, then the inner rejection round, on the same batch; pending batches are cancelled as soon as the round is finished; '
                'the population is extracted BEFORE it is appended (the proposal of its weights is the previous population); the next round starts after round += 1',
                z3.BoolVal(s.calls == want))]
        if self.case == 'finished-more-rounds':
            out.append(('the finished population is appended and the round counter advanced', z3.BoolVal(s.pops == [s.pops[0], s.new] and s.state['round'] == 2)))
        else:
            out.append(('populations and round untouched', z3.BoolVal(len(s.pops) == 1 and s.state['round'] == (1 if self.case == 'not-finished' else 2))))
        return out


class SmcExtractResult(Contract):
    target = 'elfi/methods/inference/samplers.py::SMC.extract_result'
    prop = 'C07'
    fin = 4

    def setup(self, vc):
        s = NS(calls=[], pops=[Pop('p0')], new=Pop('new'), made=[])
        s.new.outputs, s.new.threshold = 'OUT', 'THR'

        def extract(self_):
            s.calls.append(('_extract_population', len(self_._populations)))
            return s.new
        s.self = make_object('SMCStub', attrs=dict(_populations=s.pops), methods=dict(_extract_population=extract, _extract_result_kwargs=lambda self_: dict(n_sim='NSIM')))
        return s, (s.self,), {}

    def env(self, vc):
        s = vc._s

        def SmcSample(**kw):
            s.made.append(kw)
            return ('SmcSample', kw)
        return dict(SmcSample=SmcSample)

    def requires(self, s):
        self._s = s
        return []

    def ensures(self, s, result):
        kw = s.made[0] if len(s.made) == 1 else {}
        return [('the last population is extracted before it is appended', z3.BoolVal(s.calls == [('_extract_population', 1)])),
                ('the result reports the last population (outputs, weights, threshold), all populations in order (a copy of the list) and the total n_sim',
                 z3.BoolVal(kw.get('outputs') == 'OUT' and kw.get('weights') == s.new.weights and kw.get('threshold') == 'THR' and kw.get('n_sim') == 'NSIM'
                            and kw.get('populations') == [s.pops[0], s.new] and kw.get('populations') is not s.pops))]


# ---------------------------------------------------------------- thresholds
class SetThreshold(Contract):
    target = 'elfi/methods/inference/samplers.py::SMC._set_threshold'
    prop = 'C07'
    fin = 4

    def __init__(self, rnd):
        self.rnd = rnd
        self.label = 'round%d' % rnd

    def setup(self, vc):
        s = NS(calls=[], pops=[Pop('p0'), Pop('p1'), Pop('p2')][:max(self.rnd, 1) + 1], q=[SReal(z3.Real('q%d' % i)) for i in range(4)],
               thr=_np.array([None] * 4, dtype=object), Q=SReal(z3.Real('quantile_value')))

        def wsq(x=None, alpha=None, weights=None):
            s.calls.append((x, alpha, weights))
            return s.Q
        s.wsq = wsq
        s.self = make_object('SMCStub', attrs=dict(_populations=s.pops, state={'round': self.rnd}, _quantiles=_np.array(s.q, dtype=object), objective={'thresholds': s.thr}))
        return s, (s.self,), {}

    def env(self, vc):
        return dict(weighted_sample_quantile=vc._s.wsq)

    def requires(self, s):
        self._s = s
        return []

    def ensures(self, s, result):
        prev = s.pops[self.rnd - 1]
        ok = len(s.calls) == 1 and s.calls[0][0] == prev.discrepancies and s.calls[0][1] is s.q[self.rnd] and s.calls[0][2] == prev.weights
        only = all((s.thr[i] is None) for i in range(4) if i != self.rnd) and s.thr[self.rnd] is s.Q
        return [('threshold of round r = weighted quantile (C13) of population r-1: its discrepancies, its weights, alpha = quantiles[r]', z3.BoolVal(ok)),
                ('stored as the threshold of round r only', z3.BoolVal(only))]


class InitNewRound(Contract):
    target = 'elfi/methods/inference/samplers.py::SMC._init_new_round'
    prop = 'C07'
    fin = 4

    def __init__(self, rnd, quantiles):
        self.rnd, self.quantiles = rnd, quantiles
        self.label = 'round%d-%s' % (rnd, 'quantiles' if quantiles else 'thresholds')

    def setup(self, vc):
        s = NS(calls=[], n=SInt(z3.Int('n_samples')), q=[SReal(z3.Real('q%d' % i)) for i in range(3)], t=[SReal(z3.Real('t%d' % i)) for i in range(3)])
        thr = _np.array([None] * 3 if self.quantiles else s.t, dtype=object)
        s.thr = thr
        s.newthr = SReal(z3.Real('new_threshold'))

        def set_threshold(self_):
            s.calls.append(('_set_threshold', self_.state['round']))
            thr[self_.state['round']] = s.newthr
        rej = make_object('RejStub', methods=dict(set_objective=lambda self_, n, **kw: s.calls.append(('rejection.set_objective', n, kw))))
        s.self = make_object('SMCStub', attrs=dict(state={'round': self.rnd}, _quantiles=(_np.array(s.q, dtype=object) if self.quantiles else None),
                                                   objective={'n_samples': s.n, 'thresholds': thr}, _rejection=rej),
                             methods=dict(_set_rejection_round=lambda self_, r: s.calls.append(('_set_rejection_round', r)), _set_threshold=set_threshold),
                             properties=dict(current_population_threshold=inline(vc, 'elfi/methods/inference/samplers.py::SMC.current_population_threshold')))
        return s, (s.self,), {}

    def ensures(self, s, result):
        r = self.rnd
        if r == 0 and self.quantiles:
            want = [('_set_rejection_round', 0), ('rejection.set_objective', s.n, {'quantile': s.q[0]})]
            ok = len(s.calls) == 2 and s.calls[0] == want[0] and s.calls[1][1] is s.n and list(s.calls[1][2]) == ['quantile'] and s.calls[1][2]['quantile'] is s.q[0]
            return [('round 0 with quantiles: a fresh rejection round with the quantile objective quantiles[0]', z3.BoolVal(ok))]
        if self.quantiles:
            ok = (len(s.calls) == 3 and s.calls[0] == ('_set_rejection_round', r) and s.calls[1] == ('_set_threshold', r) and s.calls[2][1] is s.n
                  and list(s.calls[2][2]) == ['threshold'] and s.calls[2][2]['threshold'] is s.newthr)
            return [('later round with quantiles: fresh rejection round, threshold := weighted quantile of the previous population, handed to the inner Rejection as its threshold objective', z3.BoolVal(ok))]
        ok = (len(s.calls) == 2 and s.calls[0] == ('_set_rejection_round', r) and s.calls[1][1] is s.n and list(s.calls[1][2]) == ['threshold'] and s.calls[1][2]['threshold'] is s.t[r])
        return [('user thresholds: the inner Rejection gets thresholds[round] as its threshold objective', z3.BoolVal(ok))]


class SetRejectionRound(Contract):
    target = 'elfi/methods/inference/samplers.py::SMC._set_rejection_round'
    prop = 'C07'
    fin = 4

    def __init__(self, rnd):
        self.rnd = rnd
        self.label = 'round%d' % rnd

    def setup(self, vc):
        seed = SInt(z3.Int('seed'))
        s = NS(calls=[], seed=seed, sub=SInt(z3.Int('sub_seed')), made=[])

        def gss(sd, index):
            cur().oblige('call-pre[get_sub_seed (C15): index >= 0 and the master seed]', z3.And(T(index) >= 0, z3.BoolVal(sd is seed)))
            s.calls.append(('get_sub_seed', index))
            return s.sub

        class RS:
            def __init__(self_, sd):
                self_.seed = sd
                s.calls.append(('RandomState', sd))

        def Rejection(model, **kw):
            s.made.append((model, kw))
            return ('Rejection', kw)
        s.env = dict(get_sub_seed=gss, Rejection=Rejection, np=npspec.module(extra=dict(random=make_object('random', attrs=dict(RandomState=RS)))))
        s.self = make_object('SMCStub', attrs=dict(state={'round': self.rnd}, seed=seed, model='MODEL', discrepancy_name='d', output_names=['d', 't'],
                                                   batch_size=SInt(z3.Int('batch_size')), max_parallel_batches=SInt(z3.Int('mp'))),
                             methods=dict(_update_round_info=lambda self_, r: s.calls.append(('_update_round_info', r))))
        return s, (s.self, self.rnd), {}

    def env(self, vc):
        return vc._s.env

    def requires(self, s):
        self._env = s.env
        return []

    def ensures(self, s, result):
        want_seed = s.seed if self.rnd == 0 else s.sub
        rs = s.self._round_random_state
        kw = s.made[0][1] if len(s.made) == 1 else {}
        return [('round seed: the master seed in round 0, else its sub-seed for the round (C15)', z3.BoolVal(rs.seed is want_seed and
                 (self.rnd == 0 or any(c[0] == 'get_sub_seed' and c[1] == self.rnd for c in s.calls)))),
                ('a fresh inner Rejection on the same model / discrepancy / outputs / batch_size / max_parallel_batches with the round seed',
                 z3.BoolVal(len(s.made) == 1 and s.made[0][0] == 'MODEL' and kw.get('seed') is want_seed and kw.get('discrepancy_name') == 'd' and kw.get('output_names') == ['d', 't']
                            and kw.get('batch_size') is s.self.batch_size and kw.get('max_parallel_batches') is s.self.max_parallel_batches))]


class PrepareNewBatch(Contract):
    target = 'elfi/methods/inference/samplers.py::SMC.prepare_new_batch'
    prop = 'C07'
    fin = 4

    def __init__(self, rnd):
        self.rnd = rnd
        self.label = 'round%d' % rnd

    def setup(self, vc):
        s = NS(calls=[], prev=Pop('prev'), older=Pop('older'), rs=object(), b=SInt(z3.Int('batch_size')))
        prior = make_object('Prior', methods=dict(logpdf=lambda self_, x: None))
        s.prior = prior

        def rvs(*a, **kw):
            s.calls.append(('rvs', a, kw))
            return 'PARAMS'

        def a2b(params, names):
            s.calls.append(('arr2d_to_batch', params, names))
            return 'BATCH'
        s.env = dict(GMDistribution=make_object('GM', methods=dict(rvs=staticmethod(rvs))), arr2d_to_batch=a2b)
        s.self = make_object('SMCStub', attrs=dict(state={'round': self.rnd}, _populations=[s.older, s.prev], batch_size=s.b, _prior=prior, _round_random_state=s.rs,
                                                   parameter_names=['t1', 't2']),
                             properties=dict(_gm_params=inline(vc, 'elfi/methods/inference/samplers.py::SMC._gm_params')))
        return s, (s.self, SInt(z3.Int('batch_index'))), {}

    def env(self, vc):
        return vc._s.env

    def requires(self, s):
        self._env = s.env
        return []

    def ensures(self, s, result):
        if self.rnd == 0:
            return [('round 0 draws from the actual prior (no override)', z3.BoolVal(result is None and not s.calls))]
        c = s.calls
        ok = (len(c) == 2 and c[0][0] == 'rvs' and c[0][1] == (s.prev.means, s.prev.cov, s.prev.weights) and c[0][2].get('size') is s.b
              and c[0][2].get('random_state') is s.rs and getattr(c[0][2].get('prior_logpdf'), '__self__', None) is s.prior
              and c[1] == ('arr2d_to_batch', 'PARAMS', ['t1', 't2']) and result == 'BATCH')
        return [('later rounds: batch_size proposals from the mixture of the previous population (its means, cov, weights), conditioned on a finite prior log-density (C13 rvs contract), '
                 'drawn from the round generator, mapped to the parameter names in order', z3.BoolVal(ok))]


class SmcSetObjective(Contract):
    target = 'elfi/methods/inference/samplers.py::SMC.set_objective'
    prop = 'C07'
    fin = 4

    def __init__(self, kind, continued):
        self.kind, self.continued = kind, continued
        self.label = kind + ('-continued' if continued else '')

    def setup(self, vc):
        vals = [SReal(z3.Real('v%d' % i)) for i in range(3)]
        s = NS(calls=[], vals=vals, pops=[Pop('a'), Pop('b')] if self.continued else [], n=SInt(z3.Int('n_samples')), mp=SInt(z3.Int('mp')))
        s.objective = {}
        s.state = {'round': 0}
        s.self = make_object('SMCStub', attrs=dict(_populations=s.pops, state=s.state, objective=s.objective, max_parallel_batches=s.mp, _quantiles=None),
                             methods=dict(_init_new_round=lambda self_: s.calls.append('_init_new_round'), _update_objective=lambda self_: s.calls.append('_update_objective')))
        kw = {self.kind: list(vals)}
        return s, (s.self, s.n), kw

    def env(self, vc):
        # concrete small object arrays: the installed numpy itself is the library here
        return dict(np=_np)

    def ensures(self, s, result):
        k = len(s.pops)
        thr = s.objective.get('thresholds')
        q = s.self._quantiles
        if self.kind == 'thresholds':
            ok_arr = thr is not None and len(thr) == k + 3 and all(thr[i] is None for i in range(k)) and all(thr[k + i] is s.vals[i] for i in range(3)) and q is None
        else:
            ok_arr = (thr is not None and len(thr) == k + 3 and all(t is None for t in thr) and q is not None and len(q) == k + 3
                      and all(q[i] is None for i in range(k)) and all(q[k + i] is s.vals[i] for i in range(3)))
        return [('rounds are offset by the populations already held (continued sampling); the new thresholds / quantiles are aligned with their round index',
                 z3.BoolVal(bool(ok_arr) and s.state['round'] == k and s.objective.get('round') == k + 2)),
                ('n_samples kept, n_batches starts at max_parallel_batches, then the first new round is initialised and the objective updated',
                 z3.BoolVal(s.objective.get('n_samples') is s.n and s.calls == ['_init_new_round', '_update_objective']))]


class SmcUpdateObjective(Contract):
    target = 'elfi/methods/inference/samplers.py::SMC._update_objective'
    prop = 'C07'
    fin = 4

    def setup(self, vc):
        s = NS(pops=[Pop('a'), Pop('b')], rej_n=SInt(z3.Int('rejection_objective_n_batches')), objective={'n_batches': SInt(z3.Int('old'))})
        s.self = make_object('SMCStub', attrs=dict(_populations=s.pops, objective=s.objective, _rejection=make_object('Rej', attrs=dict(objective={'n_batches': s.rej_n}))))
        return s, (s.self,), {}

    def ensures(self, s, result):
        return [('objective n_batches = batches of the finished populations + what the current inner round still wants',
                 T(s.objective['n_batches']) == T(s.pops[0].n_batches) + T(s.pops[1].n_batches) + T(s.rej_n))]


class ExtractPopulation(Contract):
    target = 'elfi/methods/inference/samplers.py::SMC._extract_population'
    prop = 'C07'
    fin = 4

    def setup(self, vc):
        s = NS(calls=[])
        sample = make_object('Sample', attrs=dict(meta={}, method_name='Rejection'))
        s.sample = sample

        def cw(self_, pop):
            s.calls.append(('_compute_weights_means_and_cov', pop is sample))
            return 'MEANS', 'W', 'COV'
        s.self = make_object('SMCStub', attrs=dict(_rejection=make_object('Rej', methods=dict(extract_result=lambda self_: sample))),
                             methods=dict(_compute_weights_means_and_cov=cw))
        return s, (s.self,), {}

    def ensures(self, s, result):
        return [('the population is the inner Rejection result (C01) with the means, weights and cov computed for it',
                 z3.BoolVal(result is s.sample and s.calls == [('_compute_weights_means_and_cov', True)] and result.means == 'MEANS' and result.weights == 'W' and result.meta.get('cov') == 'COV'))]


CONTRACTS = [ComputeWeights(True, 1), ComputeWeights(False, 1), ComputeWeights(False, 2), ComputeWeights(True, 2),
             SmcUpdate('not-finished'), SmcUpdate('finished-more-rounds'), SmcUpdate('finished-last-round'), SmcExtractResult(),
             SetThreshold(1), SetThreshold(2), InitNewRound(0, True), InitNewRound(1, True), InitNewRound(0, False), InitNewRound(2, False),
             SetRejectionRound(0), SetRejectionRound(2), PrepareNewBatch(0), PrepareNewBatch(1),
             SmcSetObjective('thresholds', False), SmcSetObjective('thresholds', True), SmcSetObjective('quantiles', False), SmcSetObjective('quantiles', True),
             SmcUpdateObjective(), ExtractPopulation()]

TRUSTED_BASE = ['pyvc engine and numpy spec table', 'callee contracts: C01 (inner Rejection with a threshold objective), C13 (weighted_sample_quantile, weighted_var, GMDistribution.logpdf / rvs), C15 (get_sub_seed), C04 (BatchHandler.cancel_pending)',
                'numpy itself for np.full / np.concatenate on concrete small object arrays in SMC.set_objective']
ASSUMPTIONS = ['A-REAL: exp(log p - log q) = p / q', 'prior_logpdf acts row-wise; scipy multivariate_normal is a pure function',
               'parameter lists of length 1-2, population lists of length 0-2 are concrete in the contracts (array lengths symbolic)',
               'the population-level statement is the conjunction of these contracts with the callee contracts (paper step, DESIGN 5 C07)']
NOT_PROVED = ['"every particle has positive prior density" for the FIRST population: needs that a scipy draw has positive density (assumed library behaviour); later populations: C13 rvs contract (finite prior log-density)']


def sanity():
    import numpy as np
    out = []
    out.append(('np.full(k, None) ++ list keeps alignment', np.concatenate((np.full((2), None), [0.5, 0.3])).tolist() == [None, None, 0.5, 0.3]))
    out.append(('np.diag of a vector', np.diag(np.array([1.0, 2.0])).tolist() == [[1.0, 0.0], [0.0, 2.0]]))
    out.append(('count_nonzero', int(np.count_nonzero(np.array([0.0, 2.0, 0.0]))) == 1))
    return out


def bounded(tier, seed):
    from bounded import c07 as b
    return b.run(tier, seed)


def replay_refuted(cname, rf):
    from bounded import c07 as b
    res = b.run('quick', 0)
    fails = [f for r in res for f in r['failures']]
    return dict(found=True, input=fails[0]['input'], observed=fails[0]['what']) if fails else dict(found=False, searched=[r['bound'] for r in res])


def replay_input(inp):
    from bounded import c07 as b
    return b.replay_input(inp)
