"""C08 - The joint model prior equals the product of the conditional prior densities.

Functions under contract (real bodies read from the tree at run time):
  elfi/model/augmenter.py   _add_distribution_nodes, add_reduce_node, add_pdf_nodes, add_pdf_gradient_nodes
  elfi/model/extensions.py  ModelPrior.__init__, _to_batch, _evaluate_pdf, pdf, logpdf, rvs, gradient_logpdf
  elfi/methods/utils.py     numgrad
  ghost lemmas (lemmas/c08_lemmas.py): product / log-sum over the extended reals

Spec side (independent of the code).  A model shape is a list of (parameter name, argument list); an argument is the name of
another parameter or a constant ('C', j).  For a requested name list R = [r_0 .. r_{k-1}] (closed under "is a parameter-valued
argument of") and a point matrix P (one row per point, column i = coordinate of r_i) the joint density is
      JOINT(P, r) = prod_i CD_{r_i}(P[r, i], arg_1, ..)      arg = P[r, idx(a)] for a parameter a, the constant c_j otherwise
with CD_n an UNINTERPRETED real function per parameter (the conditional density scipy's <dist_n>.pdf); LCD_n for logpdf.
The augmented graph that ModelPrior must build for R:  for each r_i a node whose operation is getattr(distribution(r_i), attr)
with positional parents [r_i] + parents(r_i) in declared order, and one joint node over these nodes, in the order of R, whose
operation multiplies (pdf) / adds (logpdf) its inputs.

Assumed by name (other builders): C03/exec_sem - every requested output of a compiled + loaded net equals the dataflow meaning
sem(G, x) (a node that carries an 'output' and no 'operation' means that output; a node with both is rejected); C14 -
GraphicalModel.add_edge gives the k-th positional parent the param k (param = len(get_parents(child))), get_parents lists the
positional parents by ascending param, ElfiModel.copy / parameter_names.
"""
MANIFEST = {
    'category': 'proof',
    'text': 'The real bodies of the augmenter (_add_distribution_nodes, add_reduce_node, add_pdf_nodes, add_pdf_gradient_nodes: one density node per '
            'REQUESTED name with positional parents [node] + parents in declared order, joint node reduced with mul / add), of ModelPrior.__init__ '
            '(raises iff a requested name is not a parameter; pdf nodes for exactly the requested parameters; nets compiled from the augmented copy), '
            '_to_batch / _evaluate_pdf / pdf / logpdf (column i overrides parameter_names[i], one execution, answer = joint output, scalar / vector / '
            'matrix shape rule), rvs, gradient_logpdf (loop invariant over the points) and numgrad (central-difference formula, probe matrix, zero '
            'vector iff a probe is -inf) are executed over symbolic arrays with any number of points (dim 1..3) and, for the graph-building code, over '
            'every model shape of an enumerated family (<= 3 parameters, <= 2 arguments each, every request in every order); NodeReference '
            'construction (Operation.__init__, NodeReference.__init__, _add_parents, add_node, add_edge) is verified for ALL graphs over a symbolic '
            'networkx graph + dict heap (k-th parent gets positional param k). With the dataflow semantics of compiled execution assumed from C03, '
            '"pdf(x) = product of the conditional densities given the parents\' values at x, logpdf = sum of their logs" is a postcondition over '
            'uninterpreted conditional densities, and "zero / -inf exactly where some conditional density is zero, logpdf = log pdf" are ghost lemmas '
            'over the extended reals for products / sums of any length (loop invariants).',
    'note': 'Trusted: pyvc engine and spec tables; C03 exec_sem (end-to-end compile+load+execute = sem is bounded-only in C03; Executor.execute and the '
            'induction step are proved there) and C14 get_parents / copy / parameter_names by name; ElfiModel.__getitem__, '
            'NodeReference.parents / .distribution / _new_name (sanity-tested); scipy densities pure, row-wise, finite, non-negative; real arithmetic. '
            'Graph-building contracts are exhaustive over the enumerated shape family only. Not decided: "draws have positive density", '
            '"gradient agrees with the derivative" (bounded stand-in only). Defects reported: F11 (strict subset request), N1 (integer-typed '
            'query truncates gradient_logpdf).',
    'technique': 'deductive: SMT VCs from the real AST over symbolic arrays, a symbolic networkx graph + dict heap and recording model stubs (pyvc, '
                 'z3/cvc5), ghost lemmas with loop invariants over extended reals; bounded stand-in: 9 hierarchical models <= 4 parameters against '
                 'scipy.stats products (every parent-closed subset and order, boundary and far-tail points, input ranks, draws, analytic gradients, '
                 'gradient matrices mixing rows inside / outside / on the boundary against single-point calls and an independent central difference, '
                 'inputs of 1..130000 rows and c-1, c, c+1, 2c+1 rows for every integer class constant c of the real ModelPrior)',
}

import itertools

import z3

from pyvc import npspec
from pyvc.core import cur, forall_range, OutOfSubset, program_exception
from pyvc.engine import Contract, Loop, NS, make_object, inline, Stub
from pyvc.values import SInt, SReal, SBool, Sym, lift, term as T
from pyvc.sarray import SArr, Cell, conc

R = z3.RealSort()
I = z3.IntSort()

EXT = 'elfi/model/extensions.py'
AUG = 'elfi/model/augmenter.py'
UTL = 'elfi/methods/utils.py'


# ====================================================================== model shapes (spec side)
def C(j):
    return ('C', j)


# name -> [(parameter, [argument, ...])]; listed in dependency order (a parameter-valued argument refers to an earlier entry)
SHAPES = {
    'one': [('a', [C(0), C(1)])],
    'two-indep': [('a', [C(0), C(1)]), ('b', [C(2)])],
    'two-hier': [('a', [C(0)]), ('b', ['a', C(1)])],
    'three-hier': [('a', [C(0), C(1)]), ('b', ['a', C(2)]), ('c', ['b', 'a'])],
    'three-rev': [('c', [C(0)]), ('b', [C(1), 'c']), ('a', ['c', 'b'])],      # dependency order is the reverse of the sorted order
    'three-fork': [('m', []), ('x', ['m']), ('y', ['m', C(0)])],
}


def shape_spec(shape):
    return {n: list(a) for n, a in SHAPES[shape]}


def param_names(shape):
    """what ElfiModel.parameter_names returns (C14: the parameter nodes, sorted)"""
    return sorted(n for n, _ in SHAPES[shape])


def is_closed(shape, names):
    sp = shape_spec(shape)
    return all(a in names for n in names for a in sp[n] if isinstance(a, str))


def requests(shape, closed_only=True):
    """every non-empty duplicate-free request (subset in some order); closed_only: closed under parameter-valued arguments"""
    ps = param_names(shape)
    out = []
    for k in range(1, len(ps) + 1):
        for sub in itertools.combinations(ps, k):
            if closed_only and not is_closed(shape, sub):
                continue
            out.extend(list(p) for p in itertools.permutations(sub))
    return out


def requests_eval(shape):
    """the requests the array-level contracts are instantiated for: every parent-closed subset, sorted and reversed; the full set also rotated"""
    ps = param_names(shape)
    out = []
    for k in range(1, len(ps) + 1):
        for sub in itertools.combinations(ps, k):
            if not is_closed(shape, sub):
                continue
            sub = list(sub)
            for od in (sub, sub[::-1], sub[1:] + sub[:1]) if k == len(ps) else (sub, sub[::-1]):
                if od not in out:
                    out.append(od)
    return out


def const_term(j):
    return z3.Real('const%d' % j)


def cd_fn(n, nargs, log):
    """the conditional density of parameter n as an uninterpreted function (value, arg_1 .. arg_k) -> Real"""
    return z3.Function(('LCD_' if log else 'CD_') + n, *([R] * (1 + nargs) + [R]))


def joint_spec(shape, request, row, log):
    """JOINT for one point: row[i] = coordinate (Real term) of request[i]"""
    sp = shape_spec(shape)
    idx = {n: i for i, n in enumerate(request)}
    acc = None
    for n in request:
        args = [row[idx[a]] if isinstance(a, str) else const_term(a[1]) for a in sp[n]]
        f = cd_fn(n, len(args), log)(row[idx[n]], *args)
        acc = f if acc is None else (acc + f if log else acc * f)
    return acc


# ====================================================================== C03 exec_sem, instantiated on the structure ModelPrior builds
class Method:
    """getattr(distribution(n), attr): a bound scipy-like method, known only by (n, attr)"""

    def __init__(self, dist, attr):
        self.dist, self.attr = dist, attr

    def __eq__(self, o):
        return isinstance(o, Method) and (self.dist, self.attr) == (o.dist, o.attr)

    def __hash__(self):
        return hash((self.dist, self.attr))

    def __repr__(self):
        return '<%s.%s>' % (self.dist, self.attr)


class Net:
    """the compiled net ModelPrior.__init__ leaves in self._pdf_net / self._logpdf_net for the request (its postcondition):
    requested parameters (operation: a random draw), their constants, one density node per requested parameter with positional parents
    [n] + args(n), the joint node over them in request order.  `order` is a topological order of it."""

    def __init__(self, shape, request, log):
        self.shape, self.request, self.log = shape, list(request), log
        sp = shape_spec(shape)
        self.joint = '_joint_%s_xxxx' % ('logpdf' if log else 'pdf')
        self.nodes = {}         # name -> (kind, payload, positional parents)
        for n, args in SHAPES[shape]:
            if n not in request:
                continue
            par = []
            for a in args:
                if isinstance(a, str):
                    par.append(a)
                else:
                    cn = '_%s_c%d' % (n, a[1])
                    self.nodes[cn] = ('const', a[1], [])
                    par.append(cn)
            self.nodes[n] = ('draw', n, par)
        for n in request:
            self.nodes['_%s_%s' % (n, 'logpdf' if log else 'pdf')] = ('density', n, [n] + self.nodes[n][2])
        self.nodes[self.joint] = ('joint', None, ['_%s_%s' % (n, 'logpdf' if log else 'pdf') for n in request])
        self.order = list(self.nodes)


class LoadedNet:
    """client.load_data(net, context, batch_index): every node gets its state dict (operation, or output for constants)"""

    def __init__(self, net, context):
        self.net, self.context = net, context
        self.nodes = {}
        for name, (kind, payload, par) in net.nodes.items():
            self.nodes[name] = {'output': SReal(const_term(payload))} if kind == 'const' else {'operation': (kind, payload)}


def _rows(v):
    """value of a node as (length term or None for a scalar, row -> Real term)"""
    if isinstance(v, SArr):
        s = v.snapshot()
        if s.ndim == 0:
            return None, (lambda r: npspec._to_real(s.at(), s.kind))
        if s.ndim == 1:
            return s.shape[0], (lambda r: npspec._to_real(s.at(r), s.kind))
        raise OutOfSubset('exec_sem: a node output of rank %d' % s.ndim)
    l = lift(v)
    if isinstance(l, SReal):
        return None, (lambda r: l.t)
    if isinstance(l, SInt):
        return None, (lambda r: z3.ToReal(l.t))
    raise OutOfSubset('exec_sem: a node output of type %s' % type(v).__name__)


def exec_sem(loaded):
    """C03 (assumed by name): the outputs of the loaded net = dataflow meaning.  Operations act row-wise (scipy broadcasting)."""
    vc = cur()
    net = loaded.net
    val = {}
    B = T(loaded.context.batch_size)
    for name in net.order:
        kind, payload, par = net.nodes[name]
        st = loaded.nodes[name]
        if 'operation' in st and 'output' in st:
            raise program_exception(ValueError('Generative graph has both op and output present for node %s' % name))
        if 'output' in st:
            val[name] = st['output']
            continue
        if 'operation' not in st:
            raise program_exception(ValueError('Generative graph has no op or output present for node %s' % name))
        if kind == 'draw':
            val[name] = SArr.fresh('draw_' + name, (B,), 'real')      # a fresh random draw of batch_size rows: nothing is known about it
            continue
        ins = [_rows(val[p]) for p in par]
        lens = [n for n, _ in ins if n is not None]
        for n in lens[1:]:
            vc.oblige('call-pre[exec_sem: row counts of the inputs of %s agree]' % name, n == lens[0])
        fs = [f for _, f in ins]
        if kind == 'density':
            cd = cd_fn(payload, len(par) - 1, net.log)
            elt = lambda r, cd=cd, fs=fs: cd(*[f(r) for f in fs])
        else:
            def elt(r, fs=fs):
                acc = fs[0](r)
                for f in fs[1:]:
                    acc = acc + f(r) if net.log else acc * f(r)
                return acc
        val[name] = SArr(Cell(elt, (lens[0],), 'real')) if lens else SArr(Cell(lambda elt=elt: elt(z3.IntVal(0)), (), 'real'))
    return {net.joint: val[net.joint]}


class ClientStub:
    def __init__(self, s):
        self.s = s

    def load_data(self, net, context, batch_index=None):
        if not isinstance(net, Net):
            raise OutOfSubset('load_data of %r' % (net,))
        cur().oblige('call-pre[load_data: batch_index 0]', z3.BoolVal(batch_index == 0))
        ln = LoadedNet(net, context)
        self.s.loaded.append(ln)
        return ln

    def compute(self, loaded):
        self.s.computed.append(loaded)
        # what the nodes hold at execution time (the overrides the code installed)
        self.s.at_exec.append({k: dict(v) for k, v in loaded.nodes.items()})
        return exec_sem(loaded)


class ContextStub:
    """ComputationContext(batch_size, seed)"""

    def __init__(self, batch_size=None, seed=None, pool=None):
        self.batch_size, self.seed = batch_size, seed


# ====================================================================== _to_batch / _evaluate_pdf
def fresh_points(vc, s, xrank, dim, kind, rows=None):
    """the query and, independently of the code, the point matrix it denotes: n points, P(r, i)  (rows: a concrete number of points)"""
    if rows is None:
        n = z3.Int('n')
        vc.fin_bounds.append(n)
    else:
        n = z3.IntVal(rows)
    s.n = n
    if xrank == 0:
        c = z3.Const('x0', R if kind == 'real' else I)
        s.x = SReal(c) if kind == 'real' else SInt(c)
        s.npoints, s.single = z3.IntVal(1), True
        s.P = lambda r, i: npspec._to_real(c, kind)
    elif xrank == 1 and dim > 1:
        s.x = SArr.fresh('x', (dim,), kind)
        x0 = s.x.snapshot()
        s.npoints, s.single = z3.IntVal(1), True
        s.P = lambda r, i: npspec._to_real(x0.at(i), kind)
    elif xrank == 1:
        s.x = SArr.fresh('x', (n,), kind)
        x0 = s.x.snapshot()
        s.npoints, s.single = n, False
        s.P = lambda r, i: npspec._to_real(x0.at(r), kind)
    else:
        s.x = SArr.fresh('x', (n, dim), kind)
        x0 = s.x.snapshot()
        s.npoints, s.single = n, False
        s.P = lambda r, i: npspec._to_real(x0.at(r, i), kind)


class ToBatch(Contract):
    target = EXT + '::ModelPrior._to_batch'
    prop = 'C08'
    fin = 4

    def __init__(self, dim):
        self.dim = dim
        self.label = 'dim%d' % dim

    def setup(self, vc):
        names = ['p%d' % i for i in range(self.dim)]
        names = vc.fork_values('order', [names, list(reversed(names))]) if self.dim > 1 else names
        n = z3.Int('n')
        vc.fin_bounds.append(n)
        s = NS(n=n, names=list(names), x=SArr.fresh('x', (n, self.dim), 'real'))
        s.x0 = s.x.snapshot()
        s.self = make_object('ModelPriorStub', attrs=dict(parameter_names=list(names), dim=self.dim))
        return s, (s.self, s.x), {}

    def requires(self, s):
        return [s.n >= 0]

    def ensures(self, s, result):
        if not isinstance(result, dict):
            return [('a dict of columns', z3.BoolVal(False))]
        out = [('one entry per parameter name', z3.BoolVal(sorted(result) == sorted(s.names)))]
        for i, p in enumerate(s.names):
            col = result.get(p)
            ok = isinstance(col, SArr) and col.ndim == 1
            out.append(('column %d of the points goes to parameter_names[%d]' % (i, i),
                        z3.And(col.shape[0] == s.n, forall_range(0, s.n, lambda r: col.at(r) == s.x0.at(r, i), 'r')) if ok else z3.BoolVal(False)))
        return out


class EvaluatePdf(Contract):
    """_evaluate_pdf on the nets that __init__ establishes for `request` (structure post of ModelPrior.__init__), C03 exec_sem assumed"""
    target = EXT + '::ModelPrior._evaluate_pdf'
    prop = 'C08'
    fin = 4
    via = None          # 'pdf' / 'logpdf': analyse that one-line wrapper instead, with _evaluate_pdf inlined

    def __init__(self, shape, request, via=None):
        self.shape, self.request, self.via = shape, list(request), via
        self.label = '%s:%s' % (shape, ','.join(request)) + (':via-' + via if via else '')
        if via:
            self.target = EXT + '::ModelPrior.' + via

    def env(self, vc):
        return dict(ComputationContext=ContextStub, np=npspec.module(extra=EVAL_NP))

    def setup(self, vc):
        dim = len(self.request)
        ranks = [0, 1, 2] if dim == 1 else [1, 2]
        xrank = vc.fork_values('xrank', ranks)
        kind = vc.fork_values('kind', ['real', 'int']) if self.shape in ('one', 'two-hier') else 'real'
        log = (self.via == 'logpdf') if self.via else vc.fork_values('log', [False, True])
        s = NS(dim=dim, xrank=xrank, kind=kind, log=log, loaded=[], computed=[], at_exec=[])
        fresh_points(vc, s, xrank, dim, kind)
        s.pdf_net, s.logpdf_net = Net(self.shape, self.request, False), Net(self.shape, self.request, True)
        methods = dict(_to_batch=inline(vc, EXT + '::ModelPrior._to_batch'))
        if self.via:
            methods['_evaluate_pdf'] = inline(vc, EXT + '::ModelPrior._evaluate_pdf')
        s.self = make_object('ModelPriorStub', attrs=dict(
            parameter_names=list(self.request), dim=dim, client=ClientStub(s), _pdf_net=s.pdf_net, _pdf_node=s.pdf_net.joint,
            _logpdf_net=s.logpdf_net, _logpdf_node=s.logpdf_net.joint), methods=methods)
        if self.via:
            return s, (s.self, s.x), {}
        return s, (s.self, s.x), dict(log=log)

    def requires(self, s):
        # the query denotes n >= 1 points: scalar only for dim 1; a vector is ONE point when dim > 1 and n points when dim = 1;
        # a matrix has one row per point and dim columns (all encoded in the shapes chosen by fresh_points)
        return [s.n >= 1]

    def ensures(self, s, result):
        net = s.logpdf_net if s.log else s.pdf_net
        # how often the net runs is not part of the property (an implementation may evaluate a long query in slices): every execution
        # must run the RIGHT net, and every loaded net is executed once
        out = [('every execution runs the %s net (at least one execution, each loaded net executed once)' % ('logpdf' if s.log else 'pdf'),
                z3.BoolVal(len(s.loaded) >= 1 and len(s.computed) == len(s.loaded) and all(c is l for c, l in zip(s.computed, s.loaded))
                           and all(l.net is net for l in s.loaded)))]
        ov_ok = [z3.BoolVal(len(s.at_exec) >= 1)]
        for st, ln in zip(s.at_exec, s.loaded):
            lens = []
            for i, p in enumerate(self.request):
                e = st.get(p, {})
                v = e.get('output')
                if 'operation' in e or not (isinstance(v, SArr) and v.ndim == 1):
                    ov_ok.append(z3.BoolVal(False))
                    continue
                lens.append(v.shape[0])
                if len(s.at_exec) == 1:         # one execution: the columns of the whole query, in parameter_names order
                    ov_ok.append(z3.And(v.shape[0] == s.npoints, forall_range(0, s.npoints, lambda r: npspec._to_real(v.at(r), v.kind) == s.P(r, i), 'r')))
            ov_ok += [a == lens[0] for a in lens[1:]]
            others = [k for k, e in st.items() if k not in self.request and k in ln.net.nodes and ln.net.nodes[k][0] != 'const' and 'output' in e]
            ov_ok.append(z3.BoolVal(not others))
        out.append(('parameter nodes are overridden with the query columns in parameter_names order, nothing else is', z3.And(ov_ok)))
        row = lambda r: [s.P(r, i) for i in range(s.dim)]
        what = 'logpdf = sum of the log conditional densities (rows where they are finite; -inf rows: lemma_log_sum)' if s.log else \
            'pdf = product of the conditional densities given the parents\' values at that point'
        if s.single:
            if isinstance(result, SArr) and result.ndim == 0:
                val = result.at()
            elif isinstance(result, SReal):
                val = result.t
            else:
                return out + [('a single point (scalar for dim 1, vector for dim > 1) gets a scalar answer', z3.BoolVal(False))]
            return out + [('a single point (scalar for dim 1, vector for dim > 1) gets a scalar answer', z3.BoolVal(True)),
                          (what, val == joint_spec(self.shape, self.request, row(0), s.log))]
        if not (isinstance(result, SArr) and result.ndim == 1):
            return out + [('n points (vector for dim 1, matrix otherwise) get a 1-D answer of n values', z3.BoolVal(False))]
        return out + [('n points (vector for dim 1, matrix otherwise) get a 1-D answer of n values', result.shape[0] == s.npoints),
                      (what, forall_range(0, s.npoints, lambda r: result.at(r) == joint_spec(self.shape, self.request, row(r), s.log), 'r'))]

    def witness(self, vc, model, ob):
        return dict(shape=self.shape, parameter_names=self.request, note='counter-model over uninterpreted conditional densities; '
                    'replay by the bounded harness (every order / input rank)')


def np_ceil(x):
    l = lift(x) if not isinstance(x, SArr) else None
    if isinstance(l, SInt):
        return SReal(z3.ToReal(l.t))
    if isinstance(l, SReal):
        v = z3.simplify(l.t)
        if z3.is_rational_value(v):
            import math
            return float(math.ceil(v.as_fraction()))
        vc = cur()
        r = vc.fresh('ceil', I)
        vc.assume(z3.ToReal(r) >= l.t, z3.ToReal(r) < l.t + 1)
        return SReal(z3.ToReal(r))
    raise OutOfSubset('np.ceil(%s)' % type(x).__name__)


def np_floor(x):
    l = lift(x) if not isinstance(x, SArr) else None
    if isinstance(l, SInt):
        return SReal(z3.ToReal(l.t))
    if isinstance(l, SReal):
        v = z3.simplify(l.t)
        if z3.is_rational_value(v):
            import math
            return float(math.floor(v.as_fraction()))
        vc = cur()
        r = vc.fresh('floor', I)
        vc.assume(z3.ToReal(r) <= l.t, z3.ToReal(r) > l.t - 1)
        return SReal(z3.ToReal(r))
    raise OutOfSubset('np.floor(%s)' % type(x).__name__)


def np_array_split(a, k, axis=0):
    """np.array_split(a, k) along axis 0 for concrete sizes: n % k pieces of n // k + 1 rows, then pieces of n // k rows (views)"""
    a = npspec.asarray(a)
    if isinstance(k, SInt):
        k = k.concrete()
    n = conc(a.shape[0]) if a.ndim else None
    if axis != 0 or not isinstance(k, int) or isinstance(k, bool) or n is None:
        raise OutOfSubset('np.array_split beyond (array with a concrete first dimension, concrete number of sections, axis 0)')
    if k <= 0:
        raise program_exception(ValueError('number sections must be larger than 0.'))
    each, extras = divmod(n, k)
    out, lo = [], 0
    for j in range(k):
        hi = lo + each + (1 if j < extras else 0)
        out.append(a[lo:hi])
        lo = hi
    return out


EVAL_NP = dict(ceil=np_ceil, floor=np_floor, array_split=np_array_split, isneginf=lambda x: np_isneginf(x))


class EvaluatePdfRows(EvaluatePdf):
    """the same contract for CONCRETE numbers of rows: c + 1 and 2c + 1 for every integer class constant c of the real ModelPrior (a size
    threshold an edit may introduce; read from the tree, evaluated at its real value), 3 rows when the class has none.  Sizes are concrete,
    values symbolic: a slow path that splits a long query (np.array_split, recursion into sibling methods resolved from the real class,
    np.concatenate) is executed symbolically and must satisfy the value clause for log=False and log=True."""

    def __init__(self, shape, request):
        EvaluatePdf.__init__(self, shape, request)
        self.label += ':rows-at-class-constants'

    def setup(self, vc):
        from pyvc import instrument
        consts = instrument.class_constants(EXT + '::ModelPrior', vc.repo)
        cs = sorted({v for v in consts.values() if isinstance(v, int) and not isinstance(v, bool) and 1 <= v <= 2000000})
        sizes = sorted({c + 1 for c in cs} | {2 * c + 1 for c in cs}) or [3]
        dim = len(self.request)
        rows = vc.fork_values('rows', sizes)
        log = vc.fork_values('log', [False, True])
        s = NS(dim=dim, xrank=2, kind='real', log=log, loaded=[], computed=[], at_exec=[], rows=rows)
        fresh_points(vc, s, 2 if dim > 1 else 1, dim, 'real', rows=rows)
        s.pdf_net, s.logpdf_net = Net(self.shape, self.request, False), Net(self.shape, self.request, True)
        s.self = make_object('ModelPriorStub', attrs=dict(
            parameter_names=list(self.request), dim=dim, client=ClientStub(s), _pdf_net=s.pdf_net, _pdf_node=s.pdf_net.joint,
            _logpdf_net=s.logpdf_net, _logpdf_node=s.logpdf_net.joint), methods=dict(_to_batch=inline(vc, EXT + '::ModelPrior._to_batch')))
        return s, (s.self, s.x), dict(log=log)

    def witness(self, vc, model, ob):
        return dict(shape=self.shape, parameter_names=self.request, note='a query with a concrete number of rows just above an integer class constant '
                    'of ModelPrior; replay: bounded long-input cases (c-1, c, c+1, 2c+1 rows)')


# ====================================================================== graph-building code on a recording model
class NodeReferenceMarker:
    """what `NodeReference` is in the analysed globals (only isinstance tests use it)"""


class DistStub:
    """node.distribution of parameter n: a scipy-like object known only by its name; attribute access gives the bound method"""

    def __init__(self, n):
        self.__dict__['_n'] = n

    def __getattr__(self, attr):
        if attr.startswith('_'):
            raise AttributeError(attr)
        return Method(self._n, attr)


class RefStub:
    """a NodeReference of the recording model (ElfiModel.__getitem__ / get_reference; .parents = [model[p] for p in get_parents(name)])"""

    def __init__(self, name, model):
        self.name, self.model = name, model

    @property
    def parents(self):
        return [RefStub(p, self.model) for p in self.model.nodes[self.name]['parents']]

    @property
    def distribution(self):
        if self.model.nodes[self.name]['kind'] != 'param':
            raise program_exception(KeyError('distribution'))
        return DistStub(self.name)

    def _vc_isinstance(self, cls):
        classes = cls if isinstance(cls, tuple) else (cls,)
        return any(c is NodeReferenceMarker for c in classes)


class ModelRec:
    """A model of the given shape seen through the contracts of C14: nodes with their positional parents in declared order
    (get_parents: ascending param = order of the add_edge calls), parameter_names = sorted parameter nodes, copy = equal view."""

    def __init__(self, shape, log=None):
        self.shape = shape
        self.nodes = {}
        self.created = []
        self.copies = []
        self.origin = None
        self.log = [] if log is None else log
        for n, args in SHAPES[shape]:
            par = []
            for a in args:
                if isinstance(a, str):
                    par.append(a)
                else:
                    cn = '_%s_c%d' % (n, a[1])
                    self.nodes[cn] = dict(kind='const', value=a[1], parents=[])
                    par.append(cn)
            self.nodes[n] = dict(kind='param', parents=par)
        self._fresh = 0

    @property
    def parameter_names(self):
        return sorted(n for n, d in self.nodes.items() if d['kind'] == 'param')

    @property
    def source_net(self):
        return SourceNet(self)

    def __getitem__(self, n):
        if n not in self.nodes:
            raise program_exception(KeyError(n))
        return RefStub(n, self)

    def copy(self):
        k = ModelRec.__new__(ModelRec)
        k.shape, k.created, k.copies, k.origin, k.log, k._fresh = self.shape, [], [], self, self.log, 0
        k.nodes = {n: dict(d, parents=list(d['parents'])) for n, d in self.nodes.items()}
        self.copies.append(k)
        return k

    def frozen(self):
        return {n: (d['kind'], tuple(d['parents']), d.get('op'), d.get('value')) for n, d in self.nodes.items()}


class SourceNet:
    def __init__(self, model):
        self.model = model


def make_operation(s):
    """contract of NodeReference construction for Operation(fn, *parents, model=, name=) [NodeReference.__init__, _give_name, _add_parents;
    GraphicalModel.add_node raises for an existing name; C14 add_edge: the k-th parent added gets param k]"""
    def Operation(fn, *parents, model=None, name=None, **kw):
        vc = cur()
        vc.oblige('call-pre[Operation: explicit model, parents are references into it, a name is given]',
                  z3.BoolVal(isinstance(model, ModelRec) and all(isinstance(p, RefStub) and p.model is model for p in parents) and isinstance(name, str) and not kw))
        if not (isinstance(model, ModelRec) and isinstance(name, str)):
            raise OutOfSubset('Operation() outside its modelled use')
        if name[-1] == '*':
            model._fresh += 1
            name = '%s_r%03d' % (name[:-1], model._fresh)       # _new_name: basename + '_' + random suffix, unique in the model
        if name in model.nodes:
            raise program_exception(ValueError('Node {} already exists'.format(name)))
        model.nodes[name] = dict(kind='op', op=fn, parents=[p.name for p in parents])
        model.created.append(name)
        return RefStub(name, model)
    return Operation


def sem_struct(model, name, ov, memo=None):
    """dataflow meaning (Real term) of node `name` of a recording model for ONE row, parameters in `ov` overridden"""
    memo = {} if memo is None else memo
    if name in memo:
        return memo[name]
    d = model.nodes[name]
    if name in ov:
        v = ov[name]
    elif d['kind'] == 'const':
        v = const_term(d['value'])
    elif d['kind'] == 'param':
        v = z3.Real('draw_' + name)                 # not overridden: a random draw, nothing known
    else:
        vals = [sem_struct(model, p, ov, memo) for p in d['parents']]
        fn = d['op']
        if isinstance(fn, Method):
            if fn.attr in ('pdf', 'logpdf'):
                v = cd_fn(fn.dist, len(vals) - 1, fn.attr == 'logpdf')(*vals)
            else:
                v = z3.Function('M_%s_%s' % (fn.dist, fn.attr), *([R] * (len(vals) + 1)))(*vals)
        else:
            r = fn(*[SReal(t) for t in vals])
            if not isinstance(r, SReal):
                raise OutOfSubset('operation of node %s returned %s' % (name, type(r).__name__))
            v = r.t
    memo[name] = v
    return v


def struct_facts(model, before, request, attr, refs_or_names):
    """post of _add_distribution_nodes: (label, python bool) list.  The order of the new nodes is not part of the property (the joint
    density is a commutative fold): each requested name is matched with the new node whose operation belongs to its distribution."""
    names = [r.name if isinstance(r, RefStub) else r for r in refs_or_names]
    out = [('one new node per requested name, nothing else is added', len(names) == len(request) and len(set(names)) == len(names)
            and sorted(model.created[-len(names):] if names else []) == sorted(names) and all(n not in before for n in names)),
           ('existing nodes keep their operation and parents', all(model.frozen().get(n) == v for n, v in before.items()))]
    by = {}
    for nm in names:
        op = model.nodes.get(nm, {}).get('op')
        if isinstance(op, Method):
            by.setdefault(op.dist, []).append(nm)
    ok_op = ok_par = len(names) == len(request)
    for n in request:
        mine = by.get(n, [])
        if len(mine) != 1:
            ok_op = ok_par = False
            continue
        d = model.nodes[mine[0]]
        ok_op = ok_op and d['op'] == Method(n, attr)
        ok_par = ok_par and d['parents'] == [n] + list(before[n][1])
    out.append(('for every requested n one of them has the operation getattr(distribution(n), attr)', ok_op))
    out.append(('its positional parents are [n] + parents(n) in declared order', ok_par))
    out.append(('the new nodes are private', all(nm.startswith('_') for nm in names)))
    return out


def aug_env(vc, s):
    import functools
    import operator
    from toolz.functoolz import compose
    return dict(Operation=make_operation(s), NodeReference=NodeReferenceMarker, compose=compose, partial=functools.partial, reduce=functools.reduce,
                add=operator.add, mul=operator.mul, args_to_tuple=inline(vc, 'elfi/utils.py::args_to_tuple'),
                _add_distribution_nodes=inline(vc, AUG + '::_add_distribution_nodes'), add_reduce_node=inline(vc, AUG + '::add_reduce_node'),
                add_pdf_nodes=inline(vc, AUG + '::add_pdf_nodes'))


ATTRS = ('pdf', 'logpdf', 'gradient_pdf', 'gradient_logpdf')


class AddDistributionNodes(Contract):
    target = AUG + '::_add_distribution_nodes'
    prop = 'C08'
    fin = 3

    def __init__(self, shape):
        self.shape = self.label = shape

    def env(self, vc):
        return aug_env(vc, vc._s)

    def setup(self, vc):
        rq = vc.fork_values('request', requests(self.shape, closed_only=False))
        attr = vc.fork_values('attr', ATTRS[:2])
        s = NS(model=ModelRec(self.shape), request=list(rq), attr=attr)
        s.before = s.model.frozen()
        return s, (s.model, list(rq), attr), {}

    def ensures(self, s, result):
        if not isinstance(result, list):
            return [('a list of node references', z3.BoolVal(False))]
        return [(l, z3.BoolVal(bool(f))) for l, f in struct_facts(s.model, s.before, s.request, s.attr, result)] + \
            [('returns references (objects with the node name)', z3.BoolVal(all(isinstance(r, RefStub) for r in result)))]


def fold_spec(vals, log):
    acc = vals[0]
    for v in vals[1:]:
        acc = acc + v if log else acc * v
    return acc


class AddReduceNode(Contract):
    target = AUG + '::add_reduce_node'
    prop = 'C08'
    fin = 3

    def __init__(self, k):
        self.k = k
        self.label = 'k%d' % k

    def env(self, vc):
        return aug_env(vc, vc._s)

    def setup(self, vc):
        import operator
        m = ModelRec('three-hier')
        src = ['a', 'b', 'c'][:self.k]
        src = vc.fork_values('order', [src, list(reversed(src))]) if self.k > 1 else src
        as_refs = vc.fork_values('as', [True, False])
        log = vc.fork_values('op', [False, True])
        name = vc.fork_values('name', ['_joint_x*', None, '_fixed'])
        s = NS(model=m, src=list(src), log=log, name=name)
        s.before = m.frozen()
        nodes = [RefStub(n, m) for n in src] if as_refs else list(src)
        return s, (m, nodes, operator.add if log else operator.mul, name), {}

    def ensures(self, s, result):
        m = s.model
        if not (isinstance(result, str) and result in m.nodes and result not in s.before):
            return [('returns the name of a new node', z3.BoolVal(False))]
        d = m.nodes[result]
        vals = [z3.Real('v%d' % i) for i in range(self.k)]
        r = d['op'](*[SReal(v) for v in vals])
        return [('returns the name of a new node', z3.BoolVal(m.created == [result])),
                ('existing nodes keep their operation and parents', z3.BoolVal(all(m.frozen().get(n) == v for n, v in s.before.items()))),
                ('its positional parents are the given nodes, each once', z3.BoolVal(sorted(d['parents']) == sorted(s.src))),
                ('its operation folds its inputs with the reduce operation (%s)' % ('sum' if s.log else 'product'),
                 r.t == fold_spec(vals, s.log) if isinstance(r, SReal) else z3.BoolVal(False)),
                ('the name is the requested one (a trailing * replaced by a unique suffix)',
                 z3.BoolVal(result == '_fixed' if s.name == '_fixed' else (result.startswith('_joint_x_') if s.name else True)))]


def joint_value_clause(shape, model, joint, request, log):
    """sem of the joint node with the requested parameters overridden by x_i  ==  JOINT(x)"""
    xs = [z3.Real('x_' + n) for n in request]
    got = sem_struct(model, joint, {n: x for n, x in zip(request, xs)})
    return got == joint_spec(shape, request, xs, log)


class AddPdfNodes(Contract):
    target = AUG + '::add_pdf_nodes'
    prop = 'C08'
    fin = 3

    def __init__(self, shape):
        self.shape = self.label = shape

    def env(self, vc):
        return aug_env(vc, vc._s)

    def setup(self, vc):
        allrq = requests(self.shape, closed_only=False)
        rq = vc.fork_values('nodes', [None] + allrq)
        log = vc.fork_values('log', [False, True])
        joint = vc.fork_values('joint', [True, False]) if rq is None or rq in (allrq[0], allrq[-1]) else True
        m = ModelRec(self.shape)
        s = NS(model=m, nodes=rq, request=list(rq) if rq is not None else param_names(self.shape), log=log, joint=joint)
        s.before = m.frozen()
        kw = dict(joint=joint, log=log)
        if rq is not None:
            kw['nodes'] = list(rq)
        return s, (m,), kw

    def ensures(self, s, result):
        m, attr = s.model, 'logpdf' if s.log else 'pdf'
        if not (isinstance(result, list) and all(isinstance(x, str) for x in result)):
            return [('returns a list of node names', z3.BoolVal(False))]
        if not s.joint:
            return [('returns a list of node names', z3.BoolVal(True))] + \
                [(l, z3.BoolVal(bool(f))) for l, f in struct_facts(m, s.before, s.request, attr, result)]
        if len(result) != 1 or result[0] not in m.nodes or result[0] in s.before:
            return [('returns the name of the new joint node', z3.BoolVal(False))]
        j = m.nodes[result[0]]
        pdfs = j['parents']
        out = [('returns the name of the new joint node', z3.BoolVal(True))]
        out += [('density nodes: ' + l, z3.BoolVal(bool(f))) for l, f in struct_facts(m, s.before, s.request, attr, pdfs)[1:]]
        out.append(('density nodes exist for exactly the requested names (default: all parameters), the joint node is over them',
                    z3.BoolVal(sorted(m.created) == sorted(pdfs + result) and len(pdfs) == len(s.request))))
        vals = [z3.Real('v%d' % i) for i in range(len(pdfs))]
        r = j['op'](*[SReal(v) for v in vals])
        out.append(('reduced with %s' % ('add (sum of the log densities)' if s.log else 'mul (product of the densities)'),
                    r.t == fold_spec(vals, s.log) if isinstance(r, SReal) else z3.BoolVal(False)))
        if is_closed(self.shape, s.request):
            out.append(('meaning of the joint node = %s of the conditional densities at the overriding point' % ('sum of logs' if s.log else 'product'),
                        joint_value_clause(self.shape, m, result[0], s.request, s.log)))
        return out


class AddPdfGradientNodes(Contract):
    target = AUG + '::add_pdf_gradient_nodes'
    prop = 'C08'
    fin = 3

    def env(self, vc):
        return aug_env(vc, vc._s)

    def setup(self, vc):
        shape = 'three-rev'
        rq = vc.fork_values('nodes', [None] + requests(shape, closed_only=False)[:6])
        log = vc.fork_values('log', [False, True])
        m = ModelRec(shape)
        s = NS(model=m, request=list(rq) if rq is not None else param_names(shape), log=log)
        s.before = m.frozen()
        kw = dict(log=log)
        if rq is not None:
            kw['nodes'] = list(rq)
        return s, (m,), kw

    def ensures(self, s, result):
        if not (isinstance(result, list) and all(isinstance(x, str) for x in result)):
            return [('returns a list of node names', z3.BoolVal(False))]
        return [(l, z3.BoolVal(bool(f))) for l, f in struct_facts(s.model, s.before, s.request, 'gradient_logpdf' if s.log else 'gradient_pdf', result)]


# ====================================================================== ModelPrior.__init__
class CompiledNet:
    """client.compile(source_net, outputs): C03's compile contract keeps the requested outputs and their ancestors; here only what it was
    compiled FROM and FOR is recorded (the model state at compile time)"""

    def __init__(self, source_net, outputs):
        self.model = source_net.model if isinstance(source_net, SourceNet) else None
        self.outputs = list(outputs) if isinstance(outputs, (list, tuple)) else outputs
        self.nodes_then = self.model.frozen() if self.model is not None else None


class CompileClient:
    def compile(self, source_net, outputs=None):
        return CompiledNet(source_net, outputs)


BAD = 'nope'


def _same_as_net(model, joint, net):
    """the sub-graph of the recording model above `joint` = the structure of `net` (joint name and the order of the joint's inputs aside)"""
    anc, todo = set(), [joint]
    while todo:
        x = todo.pop()
        if x not in anc:
            anc.add(x)
            todo.extend(model.nodes[x]['parents'])
    if anc - {joint} != set(net.nodes) - {net.joint}:
        return False
    for x in anc - {joint}:
        kind, payload, par = net.nodes[x]
        d = model.nodes[x]
        if d['parents'] != par:
            return False
        if kind == 'density' and d.get('op') != Method(payload, 'logpdf' if net.log else 'pdf'):
            return False
        if (kind == 'const') != (d['kind'] == 'const') or (kind == 'draw') != (d['kind'] == 'param'):
            return False
    return sorted(model.nodes[joint]['parents']) == sorted(net.nodes[net.joint][2])


class ModelPriorInit(Contract):
    target = EXT + '::ModelPrior.__init__'
    prop = 'C08'
    fin = 3

    def __init__(self, shape):
        self.shape = self.label = shape

    def env(self, vc):
        e = aug_env(vc, vc._s)
        e['augmenter'] = make_object('augmenter', attrs=dict(add_pdf_nodes=e['add_pdf_nodes']))
        e['Client'] = CompileClient
        return e

    def cases(self):
        ps = param_names(self.shape)
        rq = [None, list(ps), list(reversed(ps))]
        if len(ps) > 1:
            rq += [[ps[0]]]
        if len(ps) > 2:
            rq += [[ps[2], ps[1]]]
        elif len(ps) > 1:
            rq += [[ps[-1]]]
        return rq + [[ps[0], BAD], [BAD], tuple(ps), ps[0]]

    def setup(self, vc):
        rq = vc.fork_values('parameter_names', self.cases())
        m = ModelRec(self.shape)
        s = NS(model=m, rq=rq)
        s.self = make_object('ModelPriorStub')
        s.before = m.frozen()
        s.valid = rq is None or (isinstance(rq, list) and all(p in param_names(self.shape) for p in rq))
        s.request = param_names(self.shape) if rq is None else (list(rq) if s.valid else None)
        if rq is None:
            return s, (s.self, m), {}
        return s, (s.self, m, (list(rq) if isinstance(rq, list) else rq)), {}

    def raises(self, s):
        return {'ValueError': z3.BoolVal(not s.valid)}

    def iff_raises(self, s):
        return [('raises iff the request is not a list of parameter names of the model', z3.BoolVal(s.valid))]

    def ensures(self, s, result):
        me, m = s.self, s.model
        g = lambda k: getattr(me, k, None)
        out = [('parameter_names = the request in its order (default: all parameters, sorted); dim = its length',
                z3.BoolVal(g('parameter_names') == s.request and g('dim') == len(s.request)))]
        ok_copy = len(m.copies) == 1 and m.frozen() == s.before and not m.created
        out.append(('the caller\'s model is not augmented (the work happens on one copy)', z3.BoolVal(ok_copy)))
        if not ok_copy:
            return out
        k = m.copies[0]
        nets = [g('_pdf_net'), g('_logpdf_net'), g('_rvs_net')]
        if not all(isinstance(n, CompiledNet) and n.model is k for n in nets):
            return out + [('the three nets are compiled from the augmented copy', z3.BoolVal(False))]
        out.append(('the three nets are compiled from the augmented copy', z3.BoolVal(True)))
        out.append(('the sampling net is compiled for the requested parameters', z3.BoolVal(nets[2].outputs == s.request)))
        ok_built, sem = True, []
        for log, node, net in ((False, g('_pdf_node'), nets[0]), (True, g('_logpdf_node'), nets[1])):
            attr = 'logpdf' if log else 'pdf'
            d = k.nodes.get(node) if isinstance(node, str) else None
            if d is None or d['kind'] != 'op' or node in s.before:
                out.append(('%s: the joint node is a new node of the copy' % attr, z3.BoolVal(False)))
                ok_built = False
                continue
            ok_net = net.outputs == node and node in net.nodes_then and all(p in net.nodes_then for p in d['parents'])
            out.append(('%s: the net is compiled for the joint node after it was built' % attr, z3.BoolVal(ok_net)))
            built = [k.nodes[p]['op'].dist for p in d['parents'] if isinstance(k.nodes[p].get('op'), Method)]
            # the joint density does not depend on the order of its factors: compare as sets (each requested name once)
            ok_built = ok_built and sorted(built) == sorted(s.request) and len(built) == len(d['parents'])
            if is_closed(self.shape, s.request):
                sem.append(('%s: the ancestors of the joint node are exactly the net structure the _evaluate_pdf contracts assume (class Net)' % attr,
                            z3.BoolVal(_same_as_net(k, node, Net(self.shape, s.request, log)))))
                sem.append(('%s: meaning of the joint node with the requested parameters overridden = %s of their conditional densities' % (
                    attr, 'sum of logs' if log else 'product'), joint_value_clause(self.shape, k, node, s.request, log)))
        out.append(('pdf nodes = requested parameters', z3.BoolVal(ok_built)))
        # the value clause follows the structural one; it is stated only where the structure is right (one alarm per defect and request)
        return out + (sem if ok_built else [])

    def witness(self, vc, model, ob):
        return dict(shape=self.shape, note='see the obligation note / path: the request is a case of ModelPriorInit.cases()')


def _structure_contracts():
    out = []
    for shape in SHAPES:
        out += [AddDistributionNodes(shape), AddPdfNodes(shape), ModelPriorInit(shape)]
    out += [AddReduceNode(1), AddReduceNode(2), AddReduceNode(3), AddPdfGradientNodes()]
    return out


# ====================================================================== rvs
class RvsNet:
    def __init__(self, outputs):
        self.outputs = list(outputs)


class RvsClient:
    """load_data / compute for the sampling net (C03 exec_sem: with the '_random_state' node overridden, the outputs are the draws that
    random state produces for batch_size rows; nothing else is known about them)"""

    def __init__(self, s):
        self.s = s

    def load_data(self, net, context, batch_index=None):
        cur().oblige('call-pre[load_data: the sampling net, batch_index 0]', z3.BoolVal(net is self.s.net and batch_index == 0))
        ln = make_object('LoadedNet', attrs=dict(net=net, context=context, nodes={'_random_state': {'operation': 'load the seeded random state'}}))
        for p in net.outputs:
            ln.nodes[p] = {'operation': ('draw', p)}
        self.s.loaded.append(ln)
        return ln

    def compute(self, loaded):
        s = self.s
        s.computed.append(loaded)
        rs = loaded.nodes.get('_random_state', {})
        if 'operation' in rs and 'output' in rs:
            raise program_exception(ValueError('Generative graph has both op and output present for node _random_state'))
        s.rs_at_exec = rs.get('output', 'the seeded random state of the context')
        B = T(loaded.context.batch_size)
        s.B = B
        s.draws = {p: SArr.fresh('draw_' + p, (B,), 'real') for p in loaded.net.outputs}
        return dict(s.draws)


class Rvs(Contract):
    target = EXT + '::ModelPrior.rvs'
    prop = 'C08'
    fin = 4

    def __init__(self, dim):
        self.dim = dim
        self.label = 'dim%d' % dim

    def env(self, vc):
        return dict(ComputationContext=ContextStub, np=npspec.module(extra=dict(random=NP_RANDOM)))

    def setup(self, vc):
        names = ['p%d' % i for i in range(self.dim)]
        names = vc.fork_values('order', [names, names[::-1]]) if self.dim > 1 else names
        sized = vc.fork_values('size', [False, True])
        given = vc.fork_values('random_state', [False, True])
        n = z3.Int('size')
        vc.fin_bounds.append(n)
        s = NS(names=list(names), sized=sized, n=n, rs=('the caller\'s RandomState',) if given else None, loaded=[], computed=[], net=RvsNet(names))
        s.self = make_object('ModelPriorStub', attrs=dict(parameter_names=list(names), dim=self.dim, client=RvsClient(s), _rvs_net=s.net))
        kw = {}
        if sized:
            kw['size'] = SInt(n)
        if given:
            kw['random_state'] = s.rs
        return s, (s.self,), kw

    def requires(self, s):
        return [s.n >= 1]

    def ensures(self, s, result):
        out = [('the sampling net is executed exactly once', z3.BoolVal(len(s.computed) == 1 and len(s.loaded) == 1 and s.computed[0] is s.loaded[0]))]
        if len(s.computed) != 1:
            return out
        out.append(('draws come from the given random state (numpy\'s global one by default)',
                    z3.BoolVal(s.rs_at_exec is (s.rs if s.rs is not None else NP_RANDOM))))
        npts = s.n if s.sized else z3.IntVal(1)
        out.append(('one row per requested draw', s.B == npts))
        d = [s.draws[p].snapshot() for p in s.names]
        if not s.sized:
            if self.dim == 1:
                ok = isinstance(result, SReal) or (isinstance(result, SArr) and result.ndim == 0)
                val = (result.t if isinstance(result, SReal) else result.at()) if ok else None
                return out + [('size=None: one point (a scalar for dim 1)', z3.BoolVal(ok))] + ([('the point is the draw', val == d[0].at(0))] if ok else [])
            ok = isinstance(result, SArr) and result.ndim == 1
            return out + [('size=None: one point (a vector of dim coordinates)', result.shape[0] == self.dim if ok else z3.BoolVal(False))] + \
                ([('coordinate i is the draw of parameter_names[i]', z3.And([result.at(i) == d[i].at(0) for i in range(self.dim)]))] if ok else [])
        if self.dim == 1:
            ok = isinstance(result, SArr) and result.ndim == 1
            return out + [('size=n: n points (a vector for dim 1)', result.shape[0] == s.n if ok else z3.BoolVal(False))] + \
                ([('the points are the draws', forall_range(0, s.n, lambda r: result.at(r) == d[0].at(r), 'r'))] if ok else [])
        ok = isinstance(result, SArr) and result.ndim == 2
        return out + [('size=n: n points (an n x dim matrix)', z3.And(result.shape[0] == s.n, result.shape[1] == self.dim) if ok else z3.BoolVal(False))] + \
            ([('coordinate i is the draw of parameter_names[i]',
               forall_range(0, s.n, lambda r: z3.And([result.at(r, i) == d[i].at(r) for i in range(self.dim)]), 'r'))] if ok else [])


NP_RANDOM = make_object('numpy_random_module')


# ====================================================================== gradient_logpdf / numgrad
def ng_fn(dim, j):
    """numgrad(logpdf, row)[j] as an uninterpreted function of the row (contract of numgrad: a function of fn and the point)"""
    return z3.Function('NG%d_%d' % (dim, j), *([R] * dim + [R]))


LOGPDF = make_object('bound_method_logpdf')


class GradientLogpdf(Contract):
    target = EXT + '::ModelPrior.gradient_logpdf'
    prop = 'C08'
    fin = 4

    def __init__(self, dim):
        self.dim = dim
        self.label = 'dim%d' % dim

    def env(self, vc):
        s = vc._s

        def numgrad(fn, x, h=None, replace_neg_inf=True):
            v = cur()
            if fn is LOGPDF and isinstance(x, SArr) and x.ndim == 2:
                # numgrad is under contract (class Numgrad) for ONE point.  A matrix argument needs the per-row contract "row r of the result =
                # numgrad of row r" of a numgrad that accepts matrices; that is decided by GradientLogpdfReal (real numgrad inlined) and the
                # bounded mixed-matrix cases, not assumed here: undecided
                raise OutOfSubset('numgrad is called with a matrix of points: outside its one-point contract (see GradientLogpdfReal / bounded gradient-rows)')
            ok = fn is LOGPDF and isinstance(x, SArr) and x.ndim == 1 and replace_neg_inf is True
            v.oblige('call-pre[numgrad(self.logpdf, one point (1-D, dim coordinates), h=stepsize)]',
                     z3.And(z3.BoolVal(ok and h is s.stepsize), x.shape[0] == self.dim) if ok else z3.BoolVal(False))
            if not ok:
                raise OutOfSubset('numgrad call outside its contract')
            xs = x.snapshot()
            row = [npspec._to_real(xs.at(j), xs.kind) for j in range(self.dim)]
            return SArr(Cell(lambda j: _pick([ng_fn(self.dim, k)(*row) for k in range(self.dim)], j), (self.dim,), 'real'))
        return dict(numgrad=numgrad)

    def setup(self, vc):
        dim = self.dim
        xrank = vc.fork_values('xrank', [0, 1, 2] if dim == 1 else [1, 2])
        kind = vc.fork_values('kind', ['real', 'int']) if dim == 2 else 'real'
        s = NS(dim=dim, xrank=xrank, kind=kind, stepsize=vc.fork_values('stepsize', [None, SReal(z3.Real('stepsize'))]) if kind == 'real' else None)
        fresh_points(vc, s, xrank, dim, kind)
        s.self = make_object('ModelPriorStub', attrs=dict(dim=dim, logpdf=LOGPDF))
        return s, (s.self, s.x), ({} if s.stepsize is None else dict(stepsize=s.stepsize))

    def requires(self, s):
        return [s.n >= 1]

    def _inv(self, s, l):
        g = l.grads
        if not (isinstance(g, SArr) and g.ndim == 2):
            raise OutOfSubset('gradient_logpdf: `grads` is not a 2-D array at the loop head')
        i = l.it.index
        return [('grads has one row per point', z3.And(g.shape[0] == s.npoints, g.shape[1] == s.dim)),
                ('rows visited so far hold the numeric gradient of logpdf at their point',
                 forall_range(0, i, lambda r: z3.And([npspec._to_real(g.at(r, j), g.kind) == self._ng(s, r, j) for j in range(s.dim)]), 'r'))]

    def _ng(self, s, r, j):
        return ng_fn(s.dim, j)(*[s.P(r, k) for k in range(s.dim)])

    @property
    def loops(self):
        # the loop over the points, if the body has one (an edit may hand the whole matrix to numgrad: no loop, see the stub above)
        from pyvc import instrument
        try:
            n_loops = len(instrument.loops_in_source_order(instrument.locate(self.target).node))
        except OutOfSubset:
            n_loops = 1
        return {0: Loop(inv=self._inv, modifies=lambda s, l: [l.grads])} if n_loops else {}

    def ensures(self, s, result):
        INF = npspec.INF
        clean = lambda v: z3.If(z3.Or(v == INF, v == -INF), 0, v)
        what = 'gradient_logpdf = numgrad(logpdf, point), infinite entries replaced by 0'
        if s.single:
            ok = isinstance(result, SArr) and result.ndim == 1
            return [('one point: a vector of dim partial derivatives', result.shape[0] == s.dim if ok else z3.BoolVal(False))] + \
                ([(what, z3.And([npspec._to_real(result.at(j), result.kind) == clean(self._ng(s, 0, j)) for j in range(s.dim)]))] if ok else [])
        ok = isinstance(result, SArr) and result.ndim == 2
        return [('n points: an n x dim matrix', z3.And(result.shape[0] == s.npoints, result.shape[1] == s.dim) if ok else z3.BoolVal(False))] + \
            ([(what, forall_range(0, s.npoints, lambda r: z3.And([npspec._to_real(result.at(r, j), result.kind) == clean(self._ng(s, r, j))
                                                                    for j in range(s.dim)]), 'r'))] if ok else [])

    def witness(self, vc, model, ob):
        return dict(dim=self.dim, note='integer-typed query: np.zeros_like(x) is an integer array and the stored gradient is truncated')


def _pick(terms, j):
    j = j if isinstance(j, z3.ExprRef) else z3.IntVal(j)
    v = terms[-1]
    for k in range(len(terms) - 2, -1, -1):
        v = z3.If(j == k, terms[k], v)
    return v


# ---- numpy functions only numgrad uses (library models, sanity-tested)
def np_tile(x, reps):
    a = npspec.asarray(x).snapshot()
    if not (a.ndim == 1 and isinstance(reps, tuple) and len(reps) == 2 and conc(npspec.zi(reps[1])) == 1):
        raise OutOfSubset('np.tile beyond tile(<1-D>, (k, 1))')
    return SArr(Cell(lambda i, j: a.at(j), (npspec.zi(reps[0]), a.shape[0]), a.kind))


def np_fill_diagonal(a, val):
    if not (isinstance(a, SArr) and a.ndim == 2):
        raise OutOfSubset('np.fill_diagonal of a non-matrix')
    v = npspec.asarray(val).snapshot()
    if v.ndim == 0:
        a._write(lambda i, j: a._cast(v.at(), v.kind), lambda i, j: i == j)
    elif v.ndim == 1:
        cur().oblige('call-pre[fill_diagonal: one value per diagonal entry]', z3.And(v.shape[0] == a.shape[0], a.shape[0] == a.shape[1]))
        a._write(lambda i, j: a._cast(v.at(i), v.kind), lambda i, j: i == j)
    else:
        raise OutOfSubset('np.fill_diagonal with a rank-%d value' % v.ndim)


def np_isneginf(x):
    a = npspec.asarray(x).snapshot()
    if a.kind != 'real':
        return SArr(Cell(lambda *i: z3.BoolVal(False), a.shape, 'bool'))
    return SArr(Cell(lambda *i: a.at(*i) == -npspec.INF, a.shape, 'bool'))


def np_gradient(f, *varargs, axis=None):
    """np.gradient(f, h, axis=0) for a 2-D f with >= 2 rows and a scalar spacing: second-order central differences inside,
    first differences at the two ends (edge_order=1)"""
    vc = cur()
    a = npspec.asarray(f).snapshot()
    if not (a.ndim == 2 and axis == 0):
        raise OutOfSubset('np.gradient beyond gradient(<2-D>, h, axis=0)')
    if len(varargs) != 1:
        # numpy: "invalid number of arguments" unless there is one spacing per differentiated axis
        raise program_exception(TypeError('invalid number of arguments'))
    h = lift(varargs[0])
    if not isinstance(h, (SReal, SInt)):
        raise OutOfSubset('np.gradient spacing of type %s' % type(h).__name__)
    ht = h.t if isinstance(h, SReal) else z3.ToReal(h.t)
    n = a.shape[0]
    vc.oblige('call-pre[np.gradient: at least 2 rows]', n >= 2)
    if vc.options.get('div_check', True):
        vc.oblige('call-pre[np.gradient: division by a non-zero spacing]', ht != 0)
    g = lambda i, j: npspec._to_real(a.at(i, j), a.kind)
    return SArr(Cell(lambda i, j: z3.If(i == 0, (g(1, j) - g(0, j)) / ht,
                                        z3.If(i == n - 1, (g(n - 1, j) - g(n - 2, j)) / ht, (g(i + 1, j) - g(i - 1, j)) / (2 * ht))), a.shape, 'real'))


def np_asanyarray_dtype(x, dtype=None):
    a = npspec.asarray(x)
    if dtype is None:
        return a
    k = npspec._kind(dtype)
    if k == a.kind:
        return a
    if k == 'real' and a.kind == 'int':
        s_ = a.snapshot()
        return SArr(Cell(lambda *i: z3.ToReal(s_.at(*i)), s_.shape, 'real'))
    raise OutOfSubset('asanyarray(%s array, dtype=%s)' % (a.kind, k))


def np_any(a, axis=None):
    if isinstance(a, SArr) and a.ndim == 2 and axis is None and conc(a.shape[0]) is not None and conc(a.shape[1]) is not None:
        b = a.snapshot()
        if b.kind != 'bool':
            raise OutOfSubset('np.any of non-bool')
        cells = [b.at(i, j) for i in range(conc(a.shape[0])) for j in range(conc(a.shape[1]))]
        return SBool(z3.Or(cells) if cells else z3.BoolVal(False))
    return npspec.any(a, axis=axis)


NUMGRAD_NP = dict(any=np_any, tile=np_tile, fill_diagonal=np_fill_diagonal, isneginf=np_isneginf, gradient=np_gradient, asanyarray=np_asanyarray_dtype)


def probe_fn(dim):
    """fn(X)[r] for the function handed to numgrad: an uninterpreted function of row r of X (fn acts row-wise: ModelPrior.logpdf)"""
    return z3.Function('F%d' % dim, *([R] * dim + [R]))


class Numgrad(Contract):
    target = UTL + '::numgrad'
    prop = 'C08'
    fin = 4

    def __init__(self, dim):
        self.dim = dim
        self.label = 'dim%d' % dim

    def env(self, vc):
        return dict(np=npspec.module(extra=NUMGRAD_NP))

    def setup(self, vc):
        dim = self.dim
        kind = vc.fork_values('kind', ['real', 'int']) if dim == 2 else 'real'
        hmode = vc.fork_values('h', ['default', 'scalar', 'list1'] if dim == 1 else ['default', 'scalar'])
        rni = vc.fork_values('replace_neg_inf', [True, False]) if dim == 1 else True
        s = NS(dim=dim, kind=kind, hmode=hmode, rni=rni, calls=[], x=SArr.fresh('x', (dim,), kind))
        x0 = s.x.snapshot()
        s.xr = [npspec._to_real(x0.at(j), kind) for j in range(dim)]
        s.h = z3.RealVal('0.00001') if hmode == 'default' else z3.Real('h')
        F = probe_fn(dim)

        def fn(X):
            v = cur()
            ok = isinstance(X, SArr) and X.ndim == 2
            v.oblige('call-pre[fn receives a matrix with one probe per row (dim columns)]', X.shape[1] == dim if ok else z3.BoolVal(False))
            if not ok:
                raise OutOfSubset('numgrad called fn with %s' % type(X).__name__)
            Xs = X.snapshot()
            s.calls.append(Xs)
            return SArr(Cell(lambda r: F(*[npspec._to_real(Xs.at(r, j), Xs.kind) for j in range(dim)]), (Xs.shape[0],), 'real'))
        s.F = F
        kw = {}
        if hmode == 'scalar':
            kw['h'] = SReal(s.h)
        elif hmode == 'list1':
            kw['h'] = [SReal(s.h)]
        if not rni:
            kw['replace_neg_inf'] = False
        return s, (fn, s.x), kw

    def requires(self, s):
        return [s.h != 0]

    def probe(self, s, j, sign):
        """F(x + sign * h * e_j)"""
        return s.F(*[s.xr[k] + (sign * s.h if k == j else 0) for k in range(s.dim)])

    def ensures(self, s, result):
        dim, INF = s.dim, npspec.INF
        ok = isinstance(result, SArr) and result.ndim == 1
        out = [('fn is evaluated once, on all probes together', z3.BoolVal(len(s.calls) == 1)),
               ('a 1-D gradient vector with one entry per coordinate', result.shape[0] == dim if ok else z3.BoolVal(False))]
        if not ok or len(s.calls) != 1:
            return out
        probes = [self.probe(s, j, sg) for sg in (-1, 0, 1) for j in range(dim)]
        anyneg = z3.Or([p == -INF for p in probes]) if s.rni else z3.BoolVal(False)
        out.append(('central difference: grad[j] = (f(x + h e_j) - f(x - h e_j)) / (2h); the zero vector iff some probe is -inf (replace_neg_inf)',
                    z3.And([result.at(j) == z3.If(anyneg, 0, (self.probe(s, j, 1) - self.probe(s, j, -1)) / (2 * s.h)) for j in range(dim)])))
        X = s.calls[0]
        out.append(('the probes are x - h e_j, x (dim times), x + h e_j, in that order',
                    z3.And([X.shape[0] == 3 * dim] + [npspec._to_real(X.at(b * dim + j, k), X.kind) == s.xr[k] + ((b - 1) * s.h if k == j else 0)
                                                      for b in range(3) for j in range(dim) for k in range(dim)])))
        return out


class GradientLogpdfReal(Contract):
    """gradient_logpdf with the REAL numgrad inlined (no stub between them), 2 points, dim 1..2, sizes concrete and values symbolic.
    Post from the property, per row: the gradient of row r is the central difference of logpdf AT ROW r (zero iff one of ITS OWN probes is
    -inf) - a row of the answer depends on that row of the query only, whatever the calling protocol between the two functions is."""
    target = EXT + '::ModelPrior.gradient_logpdf'
    prop = 'C08'
    fin = 3
    ROWS = 2

    def __init__(self, dim):
        self.dim = dim
        self.label = 'dim%d:real-numgrad:2-points' % dim

    def env(self, vc):
        extra = dict(NUMGRAD_NP)
        extra.update({k: v for k, v in EVAL_NP.items() if k not in extra})
        return dict(np=npspec.module(extra=extra), numgrad=inline(vc, UTL + '::numgrad'))

    def setup(self, vc):
        dim = self.dim
        s = NS(dim=dim, calls=[])
        fresh_points(vc, s, 2 if dim > 1 else 1, dim, 'real', rows=self.ROWS)
        F = s.F = probe_fn(dim)

        def logpdf(self_, X):
            v = cur()
            X = npspec.asarray(X)
            ok = X.ndim == 2
            v.oblige('call-pre[logpdf receives a matrix with one point per row (dim columns)]', X.shape[1] == dim if ok else z3.BoolVal(False))
            if not ok:
                raise OutOfSubset('logpdf called with a rank-%d array' % X.ndim)
            Xs = X.snapshot()
            s.calls.append(Xs)
            return SArr(Cell(lambda r: F(*[npspec._to_real(Xs.at(r, j), Xs.kind) for j in range(dim)]), (Xs.shape[0],), 'real'))
        s.self = make_object('ModelPriorStub', attrs=dict(dim=dim), methods=dict(logpdf=logpdf))
        return s, (s.self, s.x), {}

    def ensures(self, s, result):
        dim, INF, h = s.dim, npspec.INF, z3.RealVal('0.00001')
        ok = isinstance(result, SArr) and result.ndim == 2
        out = [('n points: an n x dim matrix', z3.And(result.shape[0] == self.ROWS, result.shape[1] == dim) if ok else z3.BoolVal(False))]
        if not ok:
            return out
        clean = lambda v: z3.If(z3.Or(v == INF, v == -INF), 0, v)
        probe = lambda r, j, sg: s.F(*[s.P(r, k) + (sg * h if k == j else 0) for k in range(dim)])
        facts = []
        for r in range(self.ROWS):
            anyneg = z3.Or([probe(r, j, sg) == -INF for sg in (-1, 0, 1) for j in range(dim)])
            facts += [result.at(r, j) == clean(z3.If(anyneg, 0, (probe(r, j, 1) - probe(r, j, -1)) / (2 * h))) for j in range(dim)]
        return out + [('row r of the gradient = central difference of logpdf at row r of the query, the zero vector iff one of the probes OF THAT ROW is -inf '
                       '(a row does not depend on the other rows of the batch)', z3.And(facts))]

    def witness(self, vc, model, ob):
        return dict(dim=self.dim, note='2-row query; replay: bounded gradient-rows cases (matrix mixing rows inside / outside / on the boundary)')


def _rest_contracts():
    return [LemmaProduct(), LemmaLogSum(), Rvs(1), Rvs(2), Rvs(3), GradientLogpdf(1), GradientLogpdf(2), GradientLogpdf(3), GradientLogpdfReal(1), GradientLogpdfReal(2), Numgrad(1), Numgrad(2), Numgrad(3)]


# ====================================================================== value lemmas over the extended reals
from pyvc import extreal
from pyvc.extreal import XReal, XFun, FIN, NINF
from pyvc.core import exists_range

DX = XFun('d', I)                                    # the conditional densities at the point
PROD = z3.Function('PROD', I, R)                     # PROD(0) = 1, PROD(j+1) = PROD(j) * d(j)   (definition, in `requires`)
LOG = npspec._log


def xlog_of(x):
    """np.log on a finite non-negative extended real"""
    return XReal(z3.If(x.v == 0, NINF, FIN), LOG(x.v))


class LemmaProduct(Contract):
    target = '@verif/lemmas/c08_lemmas.py::lemma_product'
    prop = 'C08'
    fin = 4

    def env(self, vc):
        def d(i):
            vc.oblige('call-pre[d(i): 0 <= i < k]', z3.And(T(i) >= 0, T(i) < vc._s.k))
            return DX(T(i))

        def xlog(x):
            vc.oblige('call-pre[xlog of a finite non-negative value]', z3.And(x.tag == FIN, x.v >= 0))
            return xlog_of(x)

        def use_log_mul(a, b):
            # TRUSTED: log(a b) = log a + log b for positive reals
            vc.assume(z3.Implies(z3.And(a.v > 0, b.v > 0), LOG(a.v * b.v) == LOG(a.v) + LOG(b.v)))
        return dict(d=d, xlog=xlog, use_log_mul=use_log_mul)

    def setup(self, vc):
        k = z3.Int('k')
        vc.fin_bounds.append(k)
        return NS(k=k), (SInt(k),), {}

    def requires(self, s):
        return [s.k >= 1, forall_range(0, s.k, lambda i: z3.And(DX(i).tag == FIN, DX(i).v >= 0), 'i'),
                PROD(0) == 1, forall_range(0, s.k, lambda j: PROD(j + 1) == PROD(j) * DX(j).v, 'j')]

    def some_zero(self, hi):
        return exists_range(0, hi, lambda j: DX(j).v == 0, 'j')

    def _inv(self, s, l):
        i, acc = T(l.i), l.acc
        return [('1 <= i <= k', z3.And(i >= 1, i <= s.k)),
                ('the partial product is finite, non-negative and equals PROD(i)', z3.And(acc.tag == FIN, acc.v >= 0, acc.v == PROD(i))),
                ('it is zero exactly when a factor seen so far is zero', (acc.v == 0) == self.some_zero(i))]

    @property
    def loops(self):
        return {0: Loop(inv=self._inv)}

    def ensures(self, s, result):
        return [('the product of finite non-negative densities is finite and non-negative', z3.And(result.tag == FIN, result.v >= 0, result.v == PROD(s.k))),
                ('pdf is zero exactly where some conditional density is zero', (result.v == 0) == self.some_zero(s.k))]


class LemmaLogSum(LemmaProduct):
    target = '@verif/lemmas/c08_lemmas.py::lemma_log_sum'

    def _inv(self, s, l):
        i, acc, p = T(l.i), l.acc, l.p
        return [('1 <= i <= k', z3.And(i >= 1, i <= s.k)),
                ('the partial product is finite, non-negative and equals PROD(i)', z3.And(p.tag == FIN, p.v >= 0, p.v == PROD(i))),
                ('it is zero exactly when a factor seen so far is zero', (p.v == 0) == self.some_zero(i)),
                ('the partial sum of logs is the log of the partial product (-inf for 0)', acc.eq_term(xlog_of(p)))]

    def ensures(self, s, result):
        return [('logpdf is the logarithm of pdf: sum of the log densities = log of their product (log 0 = -inf)',
                 result.eq_term(xlog_of(XReal(FIN, PROD(s.k))))),
                ('logpdf is -inf exactly where some conditional density is zero', (result.tag == NINF) == self.some_zero(s.k)),
                ('logpdf is never nan or +inf', z3.Or(result.tag == FIN, result.tag == NINF))]


# ====================================================================== NodeReference construction on the REAL classes (symbolic graph, pyvc.nxspec)
# The recording stub `make_operation` above is the contract of Operation(fn, *parents, model=, name=).  The contracts below prove it on the
# real bodies of Operation.__init__, NodeReference.__init__ / _determine_model / _give_name / _init_reference / _add_parents and
# GraphicalModel.add_node / add_edge for ALL graphs, k = 0..3 pairwise distinct parents and an explicit name without a trailing '*'
# (the '*' case draws a random unique name in a `while True` loop: _new_name, trusted).  get_parents is used through its C14 contract.
def _c14():
    from contracts import c14
    return c14


class _LastChar:
    def __init__(self, name):
        self.name = name

    def __eq__(self, o):
        if o == '*':
            return SBool(ENDS_WITH_STAR(self.name.t))
        raise OutOfSubset("last character of a node name compared with %r (only '*' is modelled)" % (o,))

    __hash__ = None


def ENDS_WITH_STAR(t):
    return z3.Function('ends_with_star', t.sort(), z3.BoolSort())(t)


def _pname_class():
    from pyvc.nxspec import SNodeName

    class PName(SNodeName):
        """a node name whose last character can be asked for ('*' = "make the name unique")"""
        __slots__ = ()

        def __getitem__(self, i):
            if i == -1:
                return _LastChar(self)
            return SNodeName.__getitem__(self, i)
    return PName


def _construction_proxies(ctx):
    c14 = _c14()

    class Model(c14.ModelProxy):
        def _vc_isinstance(self, cls):
            classes = cls if isinstance(cls, tuple) else (cls,)
            return any(isinstance(c, c14.ClassProxy) and c.cls in c14.mro(self._cls) for c in classes)

    class Ref(c14.RefProxy):
        pass
    return Model, Ref


class NodeReferenceInit(Contract):
    prop = 'C08'
    fin = 4

    def __init__(self, k, what='__init__'):
        self.k, self.what = k, what
        self.label = 'k%d' % k
        self.target = 'elfi/model/elfi_model.py::NodeReference.' + what

    def env(self, vc):
        return self._ctx.env()

    def setup(self, vc):
        c14 = _c14()
        from pyvc.nxspec import SDiGraph, theory, DEFAULT_LITS
        theory(vc, nodes=5, refs=12, lits=DEFAULT_LITS)
        ctx = self._ctx = c14.Ctx(vc, 5, 12)
        th = ctx.th
        vc.axioms = []
        Model, Ref = _construction_proxies(ctx)
        PName = _pname_class()
        G = SDiGraph(ctx.H, 'G', 'sym')
        m = Model(ctx, 'ElfiModel', G)
        ctx.stubs[('GraphicalModel', 'get_parents')] = c14.stub_get_parents
        s = NS(ctx=ctx, th=th, H=ctx.H, G=G, m=m, c14=c14)
        s.g0, s.h0 = G.snap(), ctx.H.snap()
        s.name = PName(z3.Const('name', th.Node))
        s.ps = [PName(z3.Const('parent%d' % i, th.Node)) for i in range(self.k)]
        s.fn = make_object('operation_fn')
        parents = tuple(Ref(ctx, p, m) for p in s.ps)
        if self.what == '_add_parents':
            s.me = Ref(ctx, s.name, m)
            return s, (s.me, parents), {}
        s.me = Ref(ctx, None, None)
        s.state = {'_operation': s.fn}
        return s, (s.me,) + parents, dict(state=s.state, model=m, name=s.name)

    def requires(self, s):
        th, g, c14 = s.th, s.g0, s.c14
        r = [c14.graph_wf(th, g, s.h0), c14.edges_have_param(th, g), z3.And([g.node(p.t) for p in s.ps]),
             z3.Distinct(*[p.t for p in s.ps]) if self.k > 1 else z3.BoolVal(True)]
        if self.what == '_add_parents':
            r += [g.node(s.name.t), th.forall_nodes(lambda q: z3.Not(g.pos(q, s.name.t)))]
        else:
            r += [z3.Not(ENDS_WITH_STAR(s.name.t))]
        return r

    def raises(self, s):
        return {'ValueError': s.g0.node(s.name.t) if self.what == '__init__' else z3.BoolVal(False)}

    def iff_raises(self, s):
        return [('raises iff a node of that name exists', z3.Not(s.g0.node(s.name.t)))] if self.what == '__init__' else []

    def ensures(self, s, result):
        th, g0, h0, g1, h1, c = s.th, s.g0, s.h0, s.G.snap(), s.H.snap(), s.name.t
        P, V = th.Param, th.Val
        out = [('the i-th parent is a positional parent with param i (declared order)',
                z3.And([z3.And(g1.edge(p.t, c), g1.param(p.t, c) == P.ppos(i)) for i, p in enumerate(s.ps)])),
               ('the node has no other positional parent', th.forall_nodes(lambda q: z3.Implies(g1.pos(q, c), z3.Or([q == p.t for p in s.ps])))),
               ('edges into other nodes are unchanged', th.forall_nodes(lambda a, b: z3.Implies(b != c, z3.And(g1.edge(a, b) == g0.edge(a, b), g1.param(a, b) == g0.param(a, b))), 2))]
        if self.what == '_add_parents':
            return out + [('nodes unchanged', th.forall_nodes(lambda x: g1.node(x) == g0.node(x)))]
        A, OPK = th.klit('attr_dict'), th.klit('_operation')
        st = V.ref_of(h1.val(g1.nattr(c), A))
        return out + [
            ('nodes = old nodes + the new name', th.forall_nodes(lambda x: g1.node(x) == z3.Or(x == c, g0.node(x)))),
            ('the node holds a state dict whose _operation is the given callable',
             z3.And(h1.has(g1.nattr(c), A), V.is_vref(h1.val(g1.nattr(c), A)), h1.has(st, OPK), h1.val(st, OPK) == th.opaque(s.fn))),
            ('existing nodes keep their data dicts and no existing dict is written',
             z3.And(th.forall_nodes(lambda x: z3.Implies(g0.node(x), g1.nattr(x) == g0.nattr(x))),
                    th.forall_ref_key(lambda r, k: z3.Implies(h0.alloc(r), z3.And(h1.has(r, k) == h0.has(r, k), h1.val(r, k) == h0.val(r, k)))))),
            ('the reference points to the new node of that model', z3.And(z3.BoolVal(s.me.model is s.m), s.me.name.t == c))]

    def witness(self, vc, model, ob):
        return dict(note='counter-model is a graph over the finitised node universe')


class OperationInit(Contract):
    target = 'elfi/model/elfi_model.py::Operation.__init__'
    prop = 'C08'
    fin = 3

    def env(self, vc):
        s = vc._s

        class _Super:
            def __init__(self_, *a, **kw):
                s.super_calls.append((a, kw))

        def super_(cls, obj):
            cur().oblige('call-pre[super(Operation, self)]', z3.BoolVal(cls is OPERATION and obj is s.me))
            return _Super.__new__(_Super)
        return dict(super=super_, Operation=OPERATION)

    def setup(self, vc):
        k = vc.fork_values('k', [0, 1, 2, 3])
        s = NS(k=k, me=make_object('OperationSelf'), fn=make_object('operation_fn'), parents=[make_object('parent%d' % i) for i in range(k)],
               model=make_object('model'), name='_n_pdf', super_calls=[])
        return s, (s.me, s.fn) + tuple(s.parents), dict(model=s.model, name=s.name)

    def ensures(self, s, result):
        ok = len(s.super_calls) == 1
        a, kw = s.super_calls[0] if ok else ((), {})
        return [('NodeReference.__init__ is called once with the parents in call order, the given model and name, and the state {_operation: fn}',
                 z3.BoolVal(ok and len(a) == s.k and all(x is y for x, y in zip(a, s.parents)) and kw.get('model') is s.model and kw.get('name') == s.name
                            and set(kw) == {'state', 'model', 'name'} and isinstance(kw.get('state'), dict) and list(kw['state'].items()) == [('_operation', s.fn)]))]


OPERATION = make_object('OperationClass')


def _construction_contracts():
    return [OperationInit()] + [NodeReferenceInit(k) for k in (0, 1, 2, 3)] + [NodeReferenceInit(k, '_add_parents') for k in (1, 2, 3)]


def _evaluate_contracts():
    out = [ToBatch(1), ToBatch(2), ToBatch(3)]
    for shape in SHAPES:
        for rq in requests_eval(shape):
            out.append(EvaluatePdf(shape, rq))
    out.append(EvaluatePdfRows('two-hier', ['b', 'a']))
    out.append(EvaluatePdfRows('one', ['a']))
    out.append(EvaluatePdf('two-hier', ['b', 'a'], via='pdf'))
    out.append(EvaluatePdf('two-hier', ['b', 'a'], via='logpdf'))
    return out


CONTRACTS = _structure_contracts() + _construction_contracts() + _evaluate_contracts() + _rest_contracts()

TRUSTED_BASE = [
    'pyvc engine: proxies, loop cutting, spec tables (pyvc/npspec.py, pyvc/sarray.py incl. float->int truncation on assignment, elementwise mask assignment; '
    'pyvc/extreal.py IEEE tag tables) - sanity-tested against the installed numpy each run',
    'C03/exec_sem (assumed by name, contracted by the C03 builder): the requested outputs of a compiled + loaded net equal the dataflow meaning sem(G, x); '
    'a node holding an output and no operation means that output, a node holding both is rejected (ValueError); operations act row-wise on the batch. '
    'Status in C03: C03/Executor.execute (output(x) = apply(op_x, parents\' outputs by ascending int param), each needed op once, nodes that already hold an '
    'output never run) and the induction step C03/lemma_exec_sem_step are SMT-proved for all graphs; the END-TO-END statement '
    'client.compute(load_data(compile(G)))[x] = sem(G, ov, x) (composition of the compiler passes / loaders with the induction) is BOUNDED-ONLY there '
    '(bounded/c03.py: models <= 3 nodes exhaustive, 4-5 sampled) - the C08 value clause is therefore a proof relative to a bounded-checked assumption',
    'C14 (assumed by name): GraphicalModel.add_edge gives the k-th positional parent the param k, get_parents lists positional parents by ascending param, '
    'ElfiModel.parameter_names = sorted parameter nodes, ElfiModel.copy = equal view, add_node raises for an existing name',
    'NodeReference._new_name (a trailing * in a node name is replaced by a random suffix until the name is unique: `while True` loop, not analysed); '
    'ElfiModel.__getitem__ / get_reference gives a reference with .name, .model, .parents = [model[p] for p in get_parents(name)], .distribution '
    '(sanity-tested on the real classes each run).  The rest of NodeReference construction (Operation(fn, *parents, model=m, name=s): one new node s holding '
    '_operation = fn whose positional parents are `parents` in call order) is PROVED on the real bodies for all graphs and k <= 3 parents '
    '(contracts OperationInit, NodeReferenceInit); the recording stub `make_operation` used by the augmenter contracts is that contract',
    'functools.reduce / functools.partial / toolz.compose / operator.mul, add (real objects, executed on symbolic reals); str.format',
    'numpy: tile, fill_diagonal, diagonal, gradient(f, h, axis=0) (central differences inside, first differences at the ends), isneginf, asanyarray(dtype=float), '
    'zeros_like, reshape (C order), column_stack - library models in pyvc/npspec.py and contracts/c08.py, each sanity-tested',
    'scipy-like distribution methods are pure and act row-wise: pdf(x, *args)[r] = pdf(x[r], *args[r]) (sanity-tested for scipy.stats.norm / uniform)',
    'real logarithm: log(a b) = log a + log b for a, b > 0 (one ghost instance per loop step of lemma_log_sum); np.log(0) = -inf',
]
ASSUMPTIONS = [
    'A-REAL: finite values are mathematical reals (no rounding, no underflow of a product of positive densities to 0, no overflow); nan is not a value of the array tier',
    'A-FINITE-DENS: every conditional density at the evaluation point is finite and non-negative (a density with a pole, e.g. beta(0.5, 0.5) at 0, gives '
    '0 * inf = nan in the product; outside the lemma)',
    'A-CLOSED: the requested parameter list is non-empty, duplicate-free and closed under "is a parameter-valued argument of" (otherwise "the parents\' values '
    'at that point" is undefined); every stochastic ancestor of a parameter is a parameter (the code\'s own TODO)',
    'A-SHAPES: the graph-building code is verified on every model shape of contracts/c08.py::SHAPES (<= 3 parameters, <= 2 arguments each, constants and '
    'parameter-valued arguments, dependency order equal / opposite to the sorted order) - exhaustive over that family, not for all graphs; array code is '
    'verified for dim 1..3 and any number of points',
    'A-QUERY: a query is a scalar (dim 1 only), a vector (ONE point if dim > 1, n points if dim = 1) or an n x dim matrix, n >= 1; numgrad stepsize is None or one number '
    '(a list of per-dimension stepsizes makes numpy.gradient raise TypeError for dim >= 2: outside the property, reported as an observation)',
    'A-LOG: logging calls have no effect', 'termination is not proved',
]
NOT_PROVED = [
    'Draws from it always have positive density',
    'its log-density gradient agrees with the derivative of its log-density',
]


def sanity():
    import functools
    import operator
    import numpy as np
    import scipy.stats as ss
    from pyvc import native
    out = []
    x, loc = np.array([0.1, 0.5, 2.0]), np.array([0.0, 1.0, -1.0])
    v = ss.norm.pdf(x, loc, 2)
    out.append(('scipy pdf is row-wise and pure', bool(all(v[r] == ss.norm.pdf(x[r], loc[r], 2) for r in range(3)) and (v == ss.norm.pdf(x, loc, 2)).all()
                                                       and ss.uniform.pdf(2.0, 0, 2) == 0.5 and ss.uniform.pdf(2.5, 0, 2) == 0.0)))
    from toolz.functoolz import compose
    op = compose(functools.partial(functools.reduce, operator.sub), lambda *a: tuple(a))
    out.append(('reduce is a left fold, compose(f, g)(*a) = f(g(*a))', op(10, 3, 2) == 5))
    f = np.array([[1.0, 5.0], [2.0, 7.0], [4.0, 6.0]])
    g = np.gradient(f, 0.5, axis=0)
    ok = np.allclose(g[1], (f[2] - f[0]) / 1.0) and np.allclose(g[0], (f[1] - f[0]) / 0.5) and np.allclose(g[2], (f[2] - f[1]) / 0.5)
    try:
        np.gradient(f, 0.5, 0.5, axis=0)
        ok = False
    except TypeError:
        pass
    out.append(('np.gradient(f, h, axis=0): central / first differences; two spacings for one axis raise TypeError', bool(ok)))
    t = np.tile(np.array([1.0, 2.0]), (2, 1))
    np.fill_diagonal(t, t.diagonal() + np.array([10.0]))
    out.append(('np.tile / diagonal / fill_diagonal (in place, broadcast of a 1-vector)', t.tolist() == [[11.0, 2.0], [1.0, 12.0]]))
    with np.errstate(all='ignore'):
        out.append(('np.isneginf, np.log(0) = -inf', bool(np.isneginf(np.log(np.array([0.0, 1.0]))).tolist() == [True, False])))
    a = np.zeros(3, dtype=int)
    a[:] = np.array([-0.99, 1.7, -2.5])
    out.append(('float -> int assignment truncates toward zero', a.tolist() == [0, 1, -2]))
    out.append(('zeros_like keeps an integer dtype unless dtype is given', np.zeros_like(np.array([1, 2])).dtype.kind == 'i' and np.zeros_like(np.array([1, 2]), dtype=float).dtype.kind == 'f'))
    m = np.array([[1.0, np.inf], [-np.inf, 2.0]])
    m[np.isinf(m)] = 0
    out.append(('elementwise mask assignment of a scalar', m.tolist() == [[1.0, 0.0], [0.0, 2.0]]))
    out.append(('reshape is C order; a 0-d array reshapes to one element; iterating a 1-vector yields its element',
                np.arange(6).reshape((-1, 2)).tolist() == [[0, 1], [2, 3], [4, 5]] and np.asanyarray(3.0).reshape(-1).shape == (1,) and [float(h) for h in np.array([0.5])] == [0.5]))
    out.append(('asanyarray(int array, dtype=float) converts', np.asanyarray(np.array([1, 2]), dtype=float).dtype.kind == 'f'))
    out += extreal.sanity()
    # the assumed contracts on elfi classes outside this property, on the tree under analysis
    try:
        with native.time_limit(300):
            elfi = native.import_elfi()
            from elfi.model.elfi_model import Operation
            m = elfi.ElfiModel()
            a = elfi.Prior('norm', 0, 1, model=m, name='a')
            b = elfi.Prior('norm', a, 2, model=m, name='b')
            fn = lambda *x: sum(x)
            o = Operation(fn, b, a, model=m, name='_o*')
            o2 = Operation(fn, b, model=m, name='_o*')
            # (the order of the positional parents and the stored operation are PROVED: NodeReferenceInit / OperationInit; not re-tested here)
            ok = o.name.startswith('_o_') and o2.name.startswith('_o_') and o.name != o2.name and sorted(m.get_parents(o.name)) == ['a', 'b']
            ok = ok and [p.name for p in m['b'].parents] == m.get_parents('b') and m['b'].name == 'b' and m['b'].model is m
            ok = ok and m['b'].distribution is not None and m.parameter_names == ['a', 'b']
            try:
                Operation(fn, model=m, name=o.name)
                ok = False
            except ValueError:
                pass
            out.append(("a trailing * in a node name is replaced by a unique suffix; model[n] is a reference with .name/.model/.parents = get_parents/.distribution", bool(ok)))
            client = elfi.client.get_client()
            net = client.compile(m.source_net, outputs=[o.name])
            ln = client.load_data(net, elfi.ComputationContext(2, seed=0), batch_index=0)
            ln.nodes['a'].update({'output': np.array([1.0, 2.0])})
            del ln.nodes['a']['operation']
            ln.nodes['b'].update({'output': np.array([5.0, 6.0])})
            okx = False
            try:
                client.compute(ln)
            except ValueError:
                okx = True
            del ln.nodes['b']['operation']
            r = client.compute(ln)[o.name]
            out.append(('exec_sem: overridden nodes mean their output, a node with operation and output is rejected',
                        bool(okx and np.array_equal(r, [6.0, 8.0]))))
    except Exception as e:
        out.append(('assumed elfi contracts (NodeReference construction, exec_sem): %s: %s' % (type(e).__name__, e), False))
    return out


_bounded_cache = {}


def _bounded_run(tier, seed):
    from bounded import c08 as b
    k = (tier, seed)
    if k not in _bounded_cache:
        _bounded_cache[k] = b.run(tier, seed)
    return _bounded_cache[k]


def bounded(tier, seed):
    return [_bounded_run(tier, seed)]


def replay_refuted(cname, rf):
    """a refuted obligation: look for a failing input of the executable property on the real classes (bounded harness)"""
    r = _bounded_cache[sorted(_bounded_cache)[0]] if _bounded_cache else _bounded_run('quick', 0)
    want = None
    if cname.startswith('ModelPrior.__init__'):
        want = 'c08:F11-strict-subset-request'
    elif cname.startswith('ModelPrior.gradient_logpdf') and 'real-numgrad' in cname:
        want = 'c08:gradient-rows'
    elif cname.startswith('ModelPrior.gradient_logpdf'):
        want = 'c08:N1-integer-typed-gradient-input'
    elif cname.startswith('ModelPrior._evaluate_pdf') and 'rows-at-class-constants' in cname:
        want = 'c08:long-input'
    fs = [f for f in r['failures'] if want is None or f['signature'] == want] or ([] if want is None else list(r['failures']))
    if fs:
        f = fs[0]
        return dict(found=True, input=f['input'], observed=f['what'], signature=f['signature'])
    return dict(found=False, searched=r['bound'], cases=r['cases'])


def replay_input(inp):
    from bounded import c08 as b
    return b.replay_input(inp)
