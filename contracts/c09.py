"""C09 - MCMC kernels implement their algorithm and never leave the target's support.

Functions under contract (elfi/methods/mcmc.py): metropolis, _build_tree_nuts, nuts.

Spec vocabulary (independent of the code):
  Vec            z3 arrays Int -> Real, normalised to 0 outside [0, d)  (d = symbolic dimension)
  T(v)           the log-target: an uninterpreted function Vec -> extended real (finite | +inf | -inf | nan,
                 pyvc/extreal.py); G(v) its claimed gradient (uninterpreted Vec -> Vec, nothing assumed)
  Z(p, j), U(p), E(p)   the result of the p-th call on RandomState(seed): coordinate j of randn(d), rand()
                 in [0, 1), exponential() >= 0  (the generator proxy carries the ghost position p)
  chain (from the property text):  XV(0) = params0,
        PV(i)  = XV(i-1) + sigma * Z(2(i-1), .)                                 proposal of step i >= 1
        acc(i) = T(PV(i)) finite  and  not ( exp(T(PV(i)) - T(XV(i-1))) < U(2(i-1)+1) )
        XV(i)  = PV(i) if acc(i) else XV(i-1)

Contracts:
  metropolis           loop invariant over the chain index k (rows 0..k of `samples` = XV(0..k), every T(XV(r)) finite,
                       target_current = T(XV(k)) finite, generator position = 2k); post: result has n_samples rows, row r = XV(1+warmup+r),
                       all with finite log-target; raises ValueError iff T(params0) is +-inf; frame: one RandomState(seed), global generator untouched.
  _build_tree_nuts     modular recursion (the recursive calls see `build_tree_spec`, re-bound through Contract.env_post; depth decreases):
                       n_sub >= 0, n_sub > 0 => T(params1) is neither -inf nor nan, mh_ratio finite, n_steps >= 1, d-vectors, generator only advances.
  nuts (4 case contracts: stepsize given | searched  x  n_adapt default | given)
                       loops 0/1 (step-size search): control flow only; loop 2 (iterations): rows 0..k of `samples` are the recorded states SV(0..k)
                       (ghost history, defined once per row), each a d-vector with log-target neither -inf nor nan, n_total bookkeeping;
                       loop 3 (doublings): row ii keeps a valid log-target, n_steps >= 1 and n_total > 0 after a doubling, n_ok >= 1.
                       post: n_iter rows, row r = SV(1+r), none with log-target -inf / nan; ValueError iff infinite start (stepsize=None: also the
                       documented exhausted search, SystemExit for an invalid step size); frame as above.  Step-size adaptation values are unconstrained.
Finding of this check on the pinned tree: nuts divides by n_total, which is 0 when the last iteration is n_adapt + 1 (or n_iter = 0)
  -> `call-pre[division by non-zero]` refuted in all four nuts contracts, replayed natively (ZeroDivisionError for nuts(1, ...), nuts(2, ...), nuts(5, ..., n_adapt=4)).
"""
MANIFEST = {
    'category': 'proof',
    'text': 'metropolis is verified, for every dimension, log-target (uninterpreted function into the extended reals: finite, +inf, -inf, nan), '
            'start, proposal scale, warm-up, length and seed, against the random-walk Metropolis chain written from the property text '
            '(state i = state i-1 or state i-1 + sigma * z_i; accepted iff the proposed log-target is finite and not exp(t_prop - t_prev) < u_i; '
            'result = states 1+warmup .. n_samples+warmup; ValueError iff the start has infinite log-target; only RandomState(seed) is read) by a loop invariant. '
            '_build_tree_nuts (recursive, its own contract assumed at the recursive calls) and nuts are verified for the support-safety clauses: '
            'no returned state has log-target -inf or nan, n_iter rows, ValueError iff infinite start (plus the documented exhausted step-size search), seed frame. '
            'Bounded stand-in: an independently written Metropolis replaying the same RandomState stream, and a grid of NUTS/Metropolis runs.',
    'note': 'Not decided: "on standard targets reproduce the target\'s moments"; NUTS "implements its algorithm" beyond support safety. '
            'Floats are mathematical reals except for the inf/nan tags of log-target values; parameter vectors and gradients are finite.',
    'technique': 'deductive: loop-invariant / modular-recursion VCs from the real AST (pyvc), extended-real tag semantics, z3; '
                 'bounded stand-in: stream-replay oracles (independent Metropolis, independent NUTS Algorithm 6) dims 1-3',
}

import z3

from pyvc import extreal, npspec
from pyvc.core import cur, forall_range, OutOfSubset
from pyvc.engine import Contract, Loop, NS, Stub
from pyvc.extreal import XReal, XFun, FIN, PINF, NINF, NAN
from pyvc.values import Sym, SInt, SReal, SBool, lift, term as T_
from pyvc.sarray import SArr, Cell, zi

I, R = z3.IntSort(), z3.RealSort()
VecS = z3.ArraySort(I, R)

DIM = z3.Int('d')                                  # dimension of the parameter vector
TGT = XFun('target', VecS)                         # log-target
GRAD = z3.Function('grad_target', VecS, I, R)      # claimed gradient, coordinate j (nothing assumed about it)
Z = z3.Function('randn', I, I, R)                  # Z(p, j)
U = z3.Function('rand', I, R)                      # U(p)
E = z3.Function('exponential', I, R)               # E(p)
XV = z3.Function('chain', I, VecS)                 # XV(i): the Metropolis chain of the property text
SEED = z3.Int('seed')
_J = z3.Int('vj')


def vec_of(arr):
    """1-D numeric SArr (float64 or integer typed) -> normalised Vec term of its VALUES"""
    if arr.kind == 'int':
        return vec_fn(lambda j: z3.ToReal(arr.at(j)))
    return vec_fn(lambda j: arr.at(j))


def vec_fn(f):
    """j -> term  ~>  the Vec that is f(j) on [0, d) and 0 elsewhere.  Proof mode: a lambda term (array
    extensionality is built into the solvers); finitised mode (d < fin): a quantifier-free store chain."""
    vc = cur()
    if vc.fin is None:
        return z3.Lambda([_J], z3.If(z3.And(_J >= 0, _J < DIM), f(_J), z3.RealVal(0)))
    v = z3.K(I, z3.RealVal(0))
    for j in range(vc.fin):
        v = z3.Store(v, j, z3.If(j < DIM, f(z3.IntVal(j)), z3.RealVal(0)))
    return v


def arr_of(v, kind='real'):
    """Vec term -> SArr of shape (d,)"""
    return SArr(Cell(lambda j: z3.Select(v, j), (DIM,), 'real'))


def zero_outside(v):
    """the Vec term v is a d-vector: 0 at every index outside [0, d)"""
    vc = cur()
    body = lambda j: z3.Implies(z3.Or(j < 0, j >= DIM), z3.Select(v, j) == 0)
    if vc.fin is None:
        j = z3.Int('oj!%d' % next(vc._counter))
        return z3.ForAll([j], body(j))
    return z3.And([body(z3.IntVal(j)) for j in range(-1, vc.fin + 1)])


def ok_state(x):
    """the log-target value of a state that may be output: neither -inf nor nan"""
    return z3.And(x.tag != NINF, x.tag != NAN)


# ---------------------------------------------------------------- proxies
class TargetFn:
    """`target`: evaluates the uninterpreted log-target at the vector it is given"""

    def __init__(self, fn=TGT):
        self.fn = fn

    def __call__(self, x):
        vc = cur()
        if not (isinstance(x, SArr) and x.ndim == 1 and x.kind in ('real', 'int')):
            raise OutOfSubset('target called with %r' % (x,))
        vc.oblige('call-pre[target is evaluated on a parameter vector of the dimension of params0]', x.shape[0] == DIM)
        v = vec_of(x.snapshot())
        r = self.fn(v)
        vc.libcall('target', dict(arg=v, res=r))
        return r


class GradFn:
    def __call__(self, x):
        vc = cur()
        if not (isinstance(x, SArr) and x.ndim == 1 and x.kind in ('real', 'int')):
            raise OutOfSubset('grad_target called with %r' % (x,))
        vc.oblige('call-pre[grad_target is evaluated on a parameter vector of the dimension of params0]', x.shape[0] == DIM)
        v = vec_of(x.snapshot())
        vc.libcall('grad_target', dict(arg=v))
        return SArr(Cell(lambda j: GRAD(v, j), (DIM,), 'real'))


class RandomStateSpec(Sym):
    """numpy.random.RandomState(seed) with its ghost call position.  Assumed (sanity-tested): the p-th call returns
    a value that depends only on the seed and the calls made before it; rand() in [0, 1); exponential() >= 0;
    randn(n) has shape (n,)."""

    def __init__(self, pos):
        self.pos = pos
        self.t = None

    def _next(self):
        p = self.pos
        self.pos = z3.simplify(self.pos + 1)
        return p

    def randn(self, *shape):
        vc = cur()
        if len(shape) != 1:
            raise OutOfSubset('randn with %d dimensions' % len(shape))
        n = zi(shape[0])
        vc.oblige('call-pre[randn draws one value per coordinate]', n == DIM)
        p = self._next()
        vc.libcall('rs.randn', dict(pos=p))
        return SArr(Cell(lambda j: Z(p, j), (DIM,), 'real'))

    def rand(self, *shape):
        if shape:
            raise OutOfSubset('rand with a shape')
        vc = cur()
        p = self._next()
        vc.assume(U(p) >= 0, U(p) < 1)
        vc.libcall('rs.rand', dict(pos=p))
        return SReal(U(p))

    def exponential(self, *a):
        if a:
            raise OutOfSubset('exponential with arguments')
        vc = cur()
        p = self._next()
        vc.assume(E(p) >= 0)
        vc.libcall('rs.exponential', dict(pos=p))
        return SReal(E(p))

    def _vc_havoc(self, name):
        self.pos = cur().fresh_int('rs_pos')

    def __getattr__(self, name):
        if name.startswith('_'):
            raise AttributeError(name)
        raise OutOfSubset('RandomState.%s is not modelled' % name)


class _GlobalRandom:
    """`np.random`: only RandomState(seed) may be used; touching the global generator breaks the frame
    ("deterministic in the seed": only the local RandomState(seed) is read)."""

    def __init__(self, state):
        self._state = state

    def RandomState(self, seed=None):
        vc = cur()
        ok = isinstance(seed, SInt)
        vc.oblige('frame[the generator is seeded with the `seed` argument]', (seed.t == SEED) if ok else z3.BoolVal(False))
        rs = RandomStateSpec(z3.IntVal(0))
        self._state.append(rs)
        return rs

    def __getattr__(self, name):
        if name.startswith('_'):
            raise AttributeError(name)
        import numpy as np
        if not hasattr(np.random, name):
            raise OutOfSubset('numpy.random.%s' % name)

        def global_draw(*a, **kw):
            # reading (or seeding) the process-wide generator: the result no longer depends on `seed` alone
            vc = cur()
            vc.oblige('frame[the global numpy generator is not touched: np.random.%s]' % name, z3.BoolVal(False))
            if name == 'rand' and not a and not kw:
                r = vc.fresh('global_rand', R)
                vc.assume(r >= 0, r < 1)
                return SReal(r)
            if name == 'exponential' and not a and not kw:
                r = vc.fresh('global_exponential', R)
                vc.assume(r >= 0)
                return SReal(r)
            if name == 'randn' and len(a) == 1 and not kw:
                return SArr.fresh('global_randn', (zi(a[0]),), 'real')
            if name == 'seed':
                return None
            raise OutOfSubset('np.random.%s (global generator) is not modelled' % name)
        return global_draw


def inner(a, b):
    """np.inner of two d-vectors: SOME finite real number (A-REAL).  Nothing else is assumed about the value (the clauses
    proved here depend only on the outcome of the comparisons the code makes with it), which keeps the path conditions linear."""
    if isinstance(a, SArr) and isinstance(b, SArr) and a.ndim == 1 and b.ndim == 1 and a.kind in ('real', 'int') and b.kind in ('real', 'int'):
        vc = cur()
        vc.oblige('call-pre[np.inner: equal lengths]', a.shape[0] == b.shape[0])
        r = SReal(vc.fresh('inner', R))
        vc.libcall('np.inner', dict(res=r))
        return r
    raise OutOfSubset('np.inner on %r, %r' % (a, b))


class SystemExit_(Exception):
    """stand-in so that `raise SystemExit(...)` of the analysed code is an ordinary program exception for the engine"""


SystemExit_.__name__ = 'SystemExit'


def base_env(rs_list):
    extra = dict(extreal.NP_EXTRA)
    extra['random'] = _GlobalRandom(rs_list)
    extra['inner'] = inner
    return {'np': npspec.module(extra=extra), 'float': extreal.xfloat, 'min': extreal.xmin, 'SystemExit': SystemExit_}


# ================================================================= metropolis
def prop_vec(i, sigma):
    """PV(i) for i >= 1; sigma: j -> term"""
    prev = XV(i - 1)
    return vec_fn(lambda j: z3.Select(prev, j) + sigma(j) * Z(2 * (i - 1), j))


def acc_cond(i, sigma):
    tp, tq = TGT(prop_vec(i, sigma)), TGT(XV(i - 1))
    ratio_below_u = XReal.lt(_exp_spec(tp, tq), XReal.fin(U(2 * (i - 1) + 1)))
    return z3.And(tp.tag == FIN, z3.Not(ratio_below_u))


_EXP = npspec._exp


def _exp_spec(tp, tq):
    """exp(tp - tq) in the extended reals, written without side conditions (for spec terms; exp(finite) > 0 is added where used)"""
    d = tp - tq
    return extreal._exp_parts(d, _EXP(d.v))


def chain_def(i, sigma):
    """the defining equation of the spec chain at step i >= 1 (an INSTANCE of the recursive definition)"""
    pv = prop_vec(i, sigma)
    d = TGT(pv) - TGT(XV(i - 1))
    return z3.And(XV(i) == z3.If(acc_cond(i, sigma), pv, XV(i - 1)), _EXP(d.v) > 0)


KIND = {'float64': 'real', 'integer': 'int'}


class Metropolis(Contract):
    target = 'elfi/methods/mcmc.py::metropolis'
    prop = 'C09'
    fin = 3

    def __init__(self, p0_dtype='float64', sigma_dtype='float64'):
        self.p0_dtype, self.sigma_dtype = p0_dtype, sigma_dtype
        self.label = 'params0:%s,sigma:%s' % (p0_dtype, sigma_dtype)

    def env(self, vc):
        self._rs = []
        e = base_env(self._rs)
        return e

    def setup(self, vc):
        n, w = z3.Ints('n_samples warmup')
        vc.fin_bounds.extend([n, w, DIM])
        # the numpy dtype of the two array arguments is not fixed by the signature: float64 | integer-typed (a store of a float
        # into an integer-typed buffer truncates toward zero, pyvc.sarray); float32 precision is outside A-REAL (bounded tier)
        p0 = SArr.fresh('params0', (DIM,), KIND[self.p0_dtype])
        sg = SArr.fresh('sigma_proposals', (DIM,), KIND[self.sigma_dtype])
        s = NS(n=n, w=w, p0=p0.snapshot(), sg=sg.snapshot(), t0=TGT(vec_of(p0.snapshot())))
        s.sigma = (lambda j: z3.ToReal(s.sg.at(j))) if s.sg.kind == 'int' else (lambda j: s.sg.at(j))
        return s, (SInt(n), p0, TargetFn(), sg), dict(warmup=SInt(w), seed=SInt(SEED))

    def requires(self, s):
        return [DIM >= 0, s.n >= 0, s.w >= 0, s.n + s.w >= 1, XV(0) == vec_of(s.p0),
                ('valid start: the log-target of params0 is not nan', s.t0.tag != NAN)]

    # loop 0: for ii in range(1, n_samples + warmup + 1)
    def _inv(self, s, l):
        k = l.it.index                    # completed steps; the next step is ii = k + 1
        smp, tc, rs = l.samples, l.target_current, l.random_state
        if not isinstance(tc, XReal):
            raise OutOfSubset('target_current is not an extended real')
        return [('samples has n_samples + warmup + 1 rows of dimension d', z3.And(smp.shape[0] == s.n + s.w + 1, smp.shape[1] == DIM)),
                ('rows 0..k of samples are the chain states XV(0..k)',
                 forall_range(0, k + 1, lambda r: forall_range(0, DIM, lambda j: smp.at(r, j) == z3.Select(XV(r), j), 'j'), 'r')),
                ('every chain state so far has a finite log-target', forall_range(0, k + 1, lambda r: TGT(XV(r)).tag == FIN, 'r')),
                ('target_current = target(current state), finite', z3.And(tc.eq_term(TGT(XV(k))), tc.tag == FIN)),
                ('generator position = 2 * completed steps', rs.pos == 2 * k)]

    @property
    def loops(self):
        return {0: Loop(inv=self._inv,
                        modifies=lambda s, l: [l.samples, l.random_state],
                        at_head=lambda s, l: dict(k=l.it.index),
                        lemmas=lambda s, l0, l1: [chain_def(l0.h.k + 1, s.sigma)])}

    def raises(self, s):
        return {'ValueError': s.t0.is_inf}

    def iff_raises(self, s):
        return [('normal return only if the log-target of the start is not infinite', z3.Not(s.t0.is_inf))]

    def ensures(self, s, result):
        if not (isinstance(result, SArr) and result.ndim == 2):
            raise OutOfSubset('result is not a 2-D array')
        n, w = s.n, s.w
        return [('exactly n_samples states of dimension d are returned', z3.And(result.shape[0] == n, result.shape[1] == DIM)),
                ('returned row r is chain state 1 + warmup + r of the random-walk Metropolis chain of the seed',
                 forall_range(0, n, lambda r: forall_range(0, DIM, lambda j: result.at(r, j) == z3.Select(XV(1 + w + r), j), 'j'), 'r')),
                ('no returned state has a non-finite log-target', forall_range(0, n, lambda r: TGT(XV(1 + w + r)).tag == FIN, 'r')),
                ('only the local RandomState(seed) was created and read', z3.BoolVal(len(self._rs) == 1))]

    def witness(self, vc, model, ob):
        ev = lambda t: str(model.eval(t, model_completion=True))
        return dict(function='metropolis', params0_dtype=self.p0_dtype, sigma_dtype=self.sigma_dtype, d=ev(DIM), n_samples=ev(z3.Int('n_samples')), warmup=ev(z3.Int('warmup')), obligation=ob.kind)


# ================================================================= _build_tree_nuts
def fresh_vec(name):
    return SArr.fresh(name, (DIM,), 'real')


def bt_post(params1, n_sub, mh_ratio, n_steps):
    """postcondition of _build_tree_nuts used by nuts (support safety): facts over (params1: SArr, n_sub / n_steps: Real terms, mh_ratio: XReal)"""
    return [('n_sub >= 0', n_sub >= 0),
            ('n_sub > 0 => the proposed state params1 has a log-target that is neither -inf nor nan', z3.Implies(n_sub > 0, ok_state(TGT(vec_of(params1))))),
            ('mh_ratio is a finite number', mh_ratio.tag == FIN),
            ('n_steps >= 1', n_steps >= 1)]


def _real_term(x, what):
    r = XReal.of(x)
    if r is None or not z3.is_true(r.is_fin):
        raise OutOfSubset('%s is not a real number: %r' % (what, x))
    return r.v


def build_tree_spec(variant=None):
    """the contract of _build_tree_nuts as seen from a call site (its own Contract `BuildTree` proves the post)"""
    def spec(vc, params, momentum, log_slicevar, step, depth, log_joint0, target, grad_target, random_state):
        for nm, a in (('params', params), ('momentum', momentum)):
            if not (isinstance(a, SArr) and a.ndim == 1 and a.kind in ('real', 'int')):
                raise OutOfSubset('_build_tree_nuts: %s = %r' % (nm, a))
            vc.oblige('call-pre[_build_tree_nuts: %s has dimension d]' % nm, a.shape[0] == DIM)
        ls = XReal.of(log_slicevar)
        if ls is None or XReal.of(log_joint0) is None:
            raise OutOfSubset('_build_tree_nuts: log_slicevar / log_joint0 not numbers')
        vc.oblige('call-pre[_build_tree_nuts: log_slicevar is neither nan nor -inf]', z3.And(ls.tag != NAN, ls.tag != NINF))
        _real_term(step, 'step')
        dp = lift(depth)
        if not isinstance(dp, SInt):
            raise OutOfSubset('_build_tree_nuts: depth = %r' % (depth,))
        vc.oblige('call-pre[_build_tree_nuts: depth >= 0]', dp.t >= 0)
        if variant is not None:
            vc.oblige('call-pre[recursion: depth decreases]', dp.t < variant())
        if not (isinstance(target, TargetFn) and isinstance(grad_target, GradFn) and isinstance(random_state, RandomStateSpec)):
            raise OutOfSubset('_build_tree_nuts: target / grad_target / random_state are not the ones passed in')
        p_old = random_state.pos
        random_state._vc_havoc('bt')
        vc.assume(random_state.pos >= p_old)
        pl, ml, pr, mr, p1 = [fresh_vec(n) for n in ('bt_params_left', 'bt_momentum_left', 'bt_params_right', 'bt_momentum_right', 'bt_params1')]
        n_sub, mh, n_steps = [vc.fresh(n, R) for n in ('bt_n_sub', 'bt_mh_ratio', 'bt_n_steps')]
        sub_ok, is_div, is_out = [vc.fresh(n, z3.BoolSort()) for n in ('bt_sub_ok', 'bt_is_div', 'bt_is_out')]
        for _, f in bt_post(p1.snapshot(), n_sub, XReal.fin(mh), n_steps):
            vc.assume(f)
        return pl, ml, pr, mr, p1, SReal(n_sub), SBool(sub_ok), SReal(mh), SReal(n_steps), SBool(is_div), SBool(is_out)
    return spec


class BuildTree(Contract):
    target = 'elfi/methods/mcmc.py::_build_tree_nuts'
    prop = 'C09'
    fin = 3

    def env(self, vc):
        self._rs = []
        return base_env(self._rs)

    def env_post(self, vc):
        # the recursive calls see the function's own contract (the engine re-binds the name after the definition)
        return {'_build_tree_nuts': Stub('_build_tree_nuts', build_tree_spec(variant=lambda: z3.Int('depth')), checked_by='C09/_build_tree_nuts')}

    def setup(self, vc):
        depth = z3.Int('depth')
        vc.fin_bounds.extend([DIM, depth])
        s = NS(depth=depth, ls=XReal(z3.Const('log_slicevar.tag', extreal.XTag), z3.Real('log_slicevar.val')),
               lj0=XReal(z3.Const('log_joint0.tag', extreal.XTag), z3.Real('log_joint0.val')),
               rs=RandomStateSpec(z3.Int('rs_pos0')), pos0=z3.Int('rs_pos0'))
        args = (fresh_vec('params'), fresh_vec('momentum'), s.ls, SReal(z3.Real('step')), SInt(depth), s.lj0, TargetFn(), GradFn(), s.rs)
        return s, args, {}

    def requires(self, s):
        return [DIM >= 0, s.depth >= 0, s.pos0 >= 0,
                ('log_slicevar is neither nan nor -inf (call sites: log_joint0 - exponential() from a valid state)', z3.And(s.ls.tag != NAN, s.ls.tag != NINF))]

    def ensures(self, s, result):
        if not (isinstance(result, tuple) and len(result) == 11):
            raise OutOfSubset('_build_tree_nuts does not return an 11-tuple')
        pl, ml, pr, mr, p1, n_sub, sub_ok, mh, n_steps, is_div, is_out = result
        out = []
        for nm, a in (('params_left', pl), ('momentum_left', ml), ('params_right', pr), ('momentum_right', mr), ('params1', p1)):
            if not (isinstance(a, SArr) and a.ndim == 1):
                raise OutOfSubset('%s is not a vector' % nm)
            out.append(('%s has dimension d' % nm, a.shape[0] == DIM))
        mhx = XReal.of(mh)
        if mhx is None:
            raise OutOfSubset('mh_ratio = %r' % (mh,))
        out.extend(bt_post(p1, _real_term(n_sub, 'n_sub'), mhx, _real_term(n_steps, 'n_steps')))
        out.append(('the generator passed in only advances; no other generator is created', z3.And(s.rs.pos >= s.pos0, z3.BoolVal(len(self._rs) == 0))))
        return out

    def witness(self, vc, model, ob):
        ev = lambda t: str(model.eval(t, model_completion=True))
        return dict(function='_build_tree_nuts', d=ev(DIM), depth=ev(z3.Int('depth')), log_slicevar=[ev(z3.Const('log_slicevar.tag', extreal.XTag)), ev(z3.Real('log_slicevar.val'))],
                    obligation=ob.kind)


# ================================================================= nuts
SV = z3.Function('state', I, VecS)        # ghost history: SV(i) = row i of `samples` when iteration i has finished (defined once per i)


def row_vec(smp, i):
    return vec_fn(lambda j: smp.at(i, j))


def _row_view(smp, i):
    return SArr(smp.cell, [('fix', i), ('rng', z3.IntVal(0))], (smp.shape[1],))


class Nuts(Contract):
    target = 'elfi/methods/mcmc.py::nuts'
    prop = 'C09'
    fin = 2
    max_paths = 6000

    def __init__(self, mode, adapt, p0_dtype='float64'):
        self.mode = mode            # 'stepsize-given' | 'stepsize-search'
        self.adapt = adapt          # 'n_adapt-default' (None -> n_iter // 2) | 'n_adapt-given'
        self.p0_dtype = p0_dtype    # numpy dtype of params0: 'float64' | 'integer'
        self.label = mode + ',' + adapt + ('' if p0_dtype == 'float64' else ',params0:' + p0_dtype)

    def env(self, vc):
        self._rs = []
        e = base_env(self._rs)
        e['_build_tree_nuts'] = Stub('_build_tree_nuts', build_tree_spec(), checked_by='C09/_build_tree_nuts')
        return e

    def setup(self, vc):
        n_iter, n_adapt, max_depth, retry = z3.Ints('n_iter n_adapt max_depth max_retry_inits')
        vc.fin_bounds.extend([DIM, n_iter, n_adapt, max_depth])
        p0 = SArr.fresh('params0', (DIM,), KIND[self.p0_dtype])
        s = NS(n_iter=n_iter, n_adapt_arg=n_adapt, max_depth=max_depth, retry=retry, p0=p0.snapshot(), t0=TGT(vec_of(p0.snapshot())))
        na = None if self.adapt == 'n_adapt-default' else SInt(n_adapt)
        s.n_adapt_given = na is not None
        kw = dict(n_adapt=na, target_prob=SReal(z3.Real('target_prob')), max_depth=SInt(max_depth), seed=SInt(SEED), max_retry_inits=SInt(retry))
        if self.mode == 'stepsize-given':
            kw['stepsize'] = SReal(z3.Real('stepsize'))
        return s, (SInt(n_iter), p0, TargetFn(), GradFn()), kw

    def requires(self, s):
        return [DIM >= 0, s.n_iter >= 0, s.max_depth >= 0, s.retry >= 1, SV(0) == vec_of(s.p0)] + ([s.n_adapt_arg >= 0] if s.n_adapt_given else []) + \
            [('valid start: the log-target of params0 is not nan', s.t0.tag != NAN)]

    # ---- loop 0: while init_tries < max_retry_inits        (search of an initial step size; only control flow matters)
    def _inv0(self, s, l):
        it = lift(l.init_tries).t
        return [('0 <= init_tries < max_retry_inits at the loop head (the last trial either breaks or raises)', z3.And(it >= 0, it < s.retry))]

    # ---- loop 1: while factor * exp(plusminus * (joint1 - joint0)) > 1   (doubling / halving; nothing is needed afterwards)
    def _inv1(self, s, l):
        return [('stepsize stays a real number', z3.BoolVal(isinstance(lift(l.stepsize), SReal)))]

    # ---- loop 2: for ii in range(1, n_iter + 1)
    def _k(self, s):
        return s.rt.loopstate[2]['it'].index

    def _inv2(self, s, l):
        k = l.it.index
        smp = l.samples
        nt = _real_term(l.n_total, 'n_total')
        na = lift(l.n_adapt).t
        return [('samples has n_iter + 1 rows of dimension d', z3.And(smp.shape[0] == s.n_iter + 1, smp.shape[1] == DIM)),
                ('rows 0..k of samples are the recorded states SV(0..k)',
                 forall_range(0, k + 1, lambda r: forall_range(0, DIM, lambda j: smp.at(r, j) == z3.Select(SV(r), j), 'j'), 'r')),
                ('every recorded state has a log-target that is neither -inf nor nan', forall_range(0, k + 1, lambda r: ok_state(TGT(SV(r))), 'r')),
                ('every recorded state is a d-vector (0 outside [0, d))', forall_range(0, k + 1, lambda r: zero_outside(SV(r)), 'r')),
                ('the current state (row k) has a log-target that is neither -inf nor nan', ok_state(TGT(row_vec(smp, k)))),
                ('n_total >= 0, and > 0 after an iteration that is not the one that resets it (ii = n_adapt + 1)',
                 z3.And(nt >= 0, z3.Implies(z3.And(k >= 1, k != na + 1), nt > 0)))]

    # ---- loop 3: while all_ok and depth <= max_depth
    def _inv3(self, s, l):
        k = self._k(s)
        smp = l.samples
        depth = lift(l.depth).t
        all_ok = lift(l.all_ok).t
        return [('samples keeps its shape', z3.And(smp.shape[0] == s.n_iter + 1, smp.shape[1] == DIM)),
                ('the state of this iteration (row ii) has a log-target that is neither -inf nor nan', ok_state(TGT(row_vec(smp, k + 1)))),
                ('depth >= 0; the first doubling is always made', z3.And(depth >= 0, z3.Implies(depth == 0, all_ok))),
                ('after a doubling n_steps >= 1 and n_total > 0', z3.Implies(depth >= 1, z3.And(_real_term(l.n_steps, 'n_steps') >= 1, _real_term(l.n_total, 'n_total') > 0))),
                ('n_total >= 0 and n_ok >= 1', z3.And(_real_term(l.n_total, 'n_total') >= 0, _real_term(l.n_ok, 'n_ok') >= 1))]

    @property
    def loops(self):
        freal = lambda nm: (lambda why: SReal(cur().fresh(nm, R)))
        d = {2: Loop(inv=self._inv2,
                     modifies=lambda s, l: [l.samples, l.random_state],
                     fresh={'n_total': freal('n_total'), 'n_steps': freal('n_steps'), 'mh_ratio': freal('mh_ratio'), 'n_ok': freal('n_ok')},
                     at_head=lambda s, l: dict(k=l.it.index),
                     lemmas=lambda s, l0, l1: [SV(l0.h.k + 1) == row_vec(l1.samples, l0.h.k + 1)]),
             3: Loop(inv=self._inv3,
                     modifies=lambda s, l: [_row_view(l.samples, self._k(s) + 1), l.random_state],
                     fresh={'n_steps': freal('n_steps'), 'mh_ratio': freal('mh_ratio'), 'n_ok': freal('n_ok'), 'n_total': freal('n_total')})}
        if self.mode == 'stepsize-search':
            d[0] = Loop(inv=self._inv0, modifies=lambda s, l: [l.random_state], fresh={'stepsize': freal('stepsize')})
            d[1] = Loop(inv=self._inv1)
        return d

    def raises(self, s):
        out = {'ValueError': s.t0.is_inf}
        if self.mode == 'stepsize-search':
            # documented second exit of the search (parameter max_retry_inits): every trial step left the support
            st = s.rt.loopstate.get(0)
            exhausted = z3.BoolVal(False)
            if st is not None and 'head' in st:
                exhausted = lift(st['head'].init_tries).t + 1 == s.retry
            out['ValueError'] = z3.Or(s.t0.is_inf, exhausted)
            out['SystemExit'] = z3.Not(s.t0.is_inf)       # "Found invalid stepsize" (bounds as in Stan)
        return out

    def iff_raises(self, s):
        return [('normal return only if the log-target of the start is not infinite', z3.Not(s.t0.is_inf))]

    def ensures(self, s, result):
        if not (isinstance(result, SArr) and result.ndim == 2):
            raise OutOfSubset('result is not a 2-D array')
        n = s.n_iter
        return [('exactly n_iter states of dimension d are returned', z3.And(result.shape[0] == n, result.shape[1] == DIM)),
                ('returned row r is the recorded state SV(1 + r)',
                 forall_range(0, n, lambda r: forall_range(0, DIM, lambda j: result.at(r, j) == z3.Select(SV(1 + r), j), 'j'), 'r')),
                ('no returned state has log-target -inf or nan', forall_range(0, n, lambda r: ok_state(TGT(SV(1 + r))), 'r')),
                ('the recorded states are d-vectors (0 outside [0, d)): by extensionality row r IS the vector SV(1 + r)',
                 forall_range(0, n, lambda r: zero_outside(SV(1 + r)), 'r')),
                ('only the local RandomState(seed) was created and read', z3.BoolVal(len(self._rs) == 1))]

    def witness(self, vc, model, ob):
        ev = lambda t: str(model.eval(t, model_completion=True))
        return dict(function='nuts', mode=self.mode, d=ev(DIM), n_iter=ev(z3.Int('n_iter')), n_adapt=ev(z3.Int('n_adapt')) if self.adapt == 'n_adapt-given' else None,
                    max_depth=ev(z3.Int('max_depth')), obligation=ob.kind)


CONTRACTS = [Metropolis(a, b) for a in ('float64', 'integer') for b in ('float64', 'integer')] + [BuildTree()] + \
    [Nuts(m, a) for m in ('stepsize-given', 'stepsize-search') for a in ('n_adapt-default', 'n_adapt-given')] + \
    [Nuts('stepsize-given', 'n_adapt-given', 'integer')]

TRUSTED_BASE = ['pyvc engine: proxies, loop cutting, modular (recursive) calls through Stub, spec tables',
                'pyvc/extreal.py: IEEE tag semantics of + - * < <= == exp isinf isnan isfinite min on {finite, +inf, -inf, nan} (tables compared with numpy each run)',
                'numpy RandomState(seed): the p-th call returns a value determined by the seed and the calls before it; rand() in [0, 1); exponential() >= 0; '
                'randn(n) has shape (n,) (sanity-tested each run)',
                'numpy arrays: np.empty / basic slicing / row assignment / elementwise + * / np.inner on 1-D vectors (pyvc.sarray, pyvc.npspec)',
                'z3 array theory with lambda terms (vectors are arrays Int -> Real, 0 outside [0, d)); every obligation of this property is discharged by z3 alone: '
                'cvc5 1.0.3 does not accept the lambda-array syntax of the exported SMT-LIB text, so there is no second-solver cross-check here']
ASSUMPTIONS = ['A-REAL: floats are mathematical reals except for the inf/nan TAGS of log-target values: finite - finite is finite, exp(finite) is finite and > 0 '
               '(no overflow / underflow), parameter vectors, momenta and gradients have finite real coordinates',
               'the log-target and its gradient are pure functions of the vector they are given (uninterpreted Vec -> ExtReal / Vec -> Vec); target returns a scalar',
               '"accepted precisely when a uniform draw is below the target ratio": a tie u = ratio counts as below (accepted iff not ratio < u); ties have probability 0',
               'valid start: log-target of params0 is not nan (a nan start is accepted by both samplers: np.isinf(nan) is False)',
               'params0 and sigma_proposals are 1-D numpy arrays (dtype float64 or integer-typed: separate case contracts; float32 only in the bounded tier; lists are not arrays) of the same length d >= 0; n_samples >= 0, warmup >= 0, n_iter >= 0, n_adapt >= 0, max_depth >= 0, max_retry_inits >= 1',
               'A-LOG: logging calls have no effect.  Natively the dropped logging statement of metropolis divides by n_samples + warmup '
               '(ZeroDivisionError for the degenerate request n_samples = warmup = 0): excluded by `requires n_samples + warmup >= 1`',
               'nuts with stepsize=None: the documented other exits of the initial step-size search are allowed by the contract '
               '(ValueError after max_retry_inits trials that all left the support; SystemExit for a step size of 0 or > 1e7)',
               'termination of the step-size search loops and of the recursion is not proved beyond "depth decreases and stays >= 0"',
               'A-INT: integers are mathematical']
NOT_PROVED = ["on standard targets reproduce the target's moments",
              'NUTS "implements its algorithm" beyond support safety (bounded only: state-by-state comparison with an independently written Algorithm 6 on the same stream)']


def sanity():
    import numpy as np
    out = list(extreal.sanity())
    a, b = np.random.RandomState(77), np.random.RandomState(77)
    np.random.seed(1)
    sa = [a.randn(3), a.rand(), a.exponential(), a.randn(3), a.rand()]
    np.random.rand(5)
    sb = [b.randn(3), b.rand(), b.exponential(), b.randn(3), b.rand()]
    out.append(('RandomState(seed): same call sequence -> same values, independent of the global generator', all(np.array_equal(x, y) for x, y in zip(sa, sb))))
    r = np.random.RandomState(3)
    u, e = r.rand(20000), r.exponential(size=20000)
    out.append(('rand() in [0, 1), exponential() >= 0', bool((u >= 0).all() and (u < 1).all() and (e >= 0).all())))
    out.append(('randn(*shape) has that shape', np.random.RandomState(0).randn(*np.zeros(4).shape).shape == (4,)))
    out.append(('python min(1., nan) = 1. and float(np.bool_) is 0/1', min(1., float('nan')) == 1. and float(np.float64(1.) <= np.float64(2.)) == 1.0))
    return out


def bounded(tier, seed):
    from bounded import c09 as b
    return b.run_all(tier, seed)


_replay_cache = {}


def replay_refuted(cname, rf):
    """a refuted obligation: look for a failing native input of the executable property on the real functions"""
    from bounded import c09 as b
    fn = 'metropolis' if cname.startswith('metropolis') else 'nuts'
    if fn not in _replay_cache:
        _replay_cache[fn] = b.search_failure(fn)
    return _replay_cache[fn]


def replay_input(inp):
    from bounded import c09 as b
    return b.replay_input(inp)
