"""C10 - BOLFI posterior matches its definition; the fast GP path equals the GP.

Functions under contract (all obligations generated from the source in the tree at run time):
  SMT tier, posterior (contracts/c10_post.py; all n, dim, bounds, thresholds, query values; query shapes scalar / 1-D / 2-D):
    BolfiPosterior._within_bounds                  loop invariant: logical[r] <=> forall i. lo_i <= x[r,i] <= hi_i (closed box)
    BolfiPosterior._unnormalized_loglikelihood x4  rows outside keep -inf, rows inside = logPhi((h - mean)/sqrt(var)) of the surrogate's answer
                                                   for exactly the inside rows in order; answer shape follows the query shape
    BolfiPosterior.__init__ x4                     self.threshold = the given threshold for every value (0 / 0.0 included); minimiser iff None
    BolfiPosterior.logpdf x2, pdf x2               extended reals: log-likelihood + log prior inside, -inf outside; pdf = exp(logpdf), 0 outside
      (spec table: norm.logcdf / norm.cdf / scipy.special.ndtr / log_ndtr under whatever name the module imports them, np.log of a cdf value:
       log(Phi(z)) = logPhi(z) OVER THE REALS ONLY - the float difference in the tails is the business of the tail stand-in)
  SMT tier, surrogate state machine (contracts/c10_gp.py):
    GPyRegression.predict / predictive_gradients   cached algebra iff is_sampling and _kernel_is_default, cache refreshed first iff not marked
                                                   valid, cached fields read only while valid (INV), otherwise the GP library answers
    GPyRegression._cache_RBF_kernel                cached fields = f(current _gp), no exception                          [F12 refuted here]
    GPyRegression.__init__ x3, _init_gp x4         INV established / kept; _kernel_is_default only for the default configuration
    GPyRegression.update x4, optimize x2           evidence X' = X ++ x, Y' = Y ++ y in order; INV re-established [F13]; a LinAlgError of the GP
                                                   optimiser is absorbed (no exception escapes, cache stale, evidence intact)
    GPyRegression.__init__ rejects x3              the three ValueError branches
    whole-state clause (predict x3, predictive_gradients x2, update x4, optimize x2): the attributes of self the fast path READS are taken from
                                                   the real class in the tree (AST scan of predict / predictive_gradients and the methods they call); each
                                                   must be _gp, a flag, configuration, a cached field (anything _cache_RBF_kernel assigns: read only while
                                                   INV holds) or a memo attribute with ghost origin, INV2: reset or computed from the current _gp at its
                                                   current hyper-parameters - required by the readers, re-established by update / optimize; memo reads taint
  CAS tier (contracts/c10_cas.py; sympy, all real values at the listed concrete shapes):
    BolfiPosterior._gradient_unnormalized_loglikelihood x6   grad = d/dx logPhi((h - mu(x))/sqrt(v(x))), mu, v undefined functions; 0 outside
    GPyRegression.predict / predictive_gradients fast path x8  = textbook single-query GP mean / variance / gradients (n_evidence 2-3, dim 1-2)
  Bounded stand-ins / replay vehicle: bounded/c10.py (native GPy): random scripts (fast vs GPy's own answers, posterior oracle, central differences);
    history on ONE surrogate (every operation x every API, first query after the operation at the point queried last before it);
    log density in the tails (z from -1000 to 40, oracle scipy.special.log_ndtr, relative tolerance)."""
MANIFEST = {
    'category': 'proof',
    'text': 'The bounds mask, the masked scatter of logPhi((threshold - mean)/sqrt(var)) with -inf outside the (closed) bounds, logpdf = that + log prior '
            '(IEEE addition on -inf) and pdf are verified deductively on the real bodies of BolfiPosterior for all row counts, dimensions, bounds and '
            'scalar / 1-D / 2-D query shapes (pyvc: loop invariant + path-wise VCs, z3/cvc5), with the surrogate and the prior as stub objects. The '
            'gradient expression and the cached-kernel expressions of GPyRegression.predict / predictive_gradients are extracted by running the real '
            'bodies over sympy terms and shown identical to d/dx logPhi((h - mu(x))/sqrt(v(x))) and to the textbook single-query GP mean, variance and '
            'their derivatives, for all real values at the listed concrete shapes. Cache validity is a representation invariant '
            '(_rbf_is_cached => cached fields computed from the current _gp and its current hyper-parameters) that every reader relies on and every '
            'writer of _gp (__init__, _init_gp, update, optimize) must re-establish; update also carries the evidence-order clause '
            '(X\' = X ++ x, Y\' = Y ++ y). The invariant is a whole-state clause: the set of attributes the fast path reads is taken from the real class in '
            'the tree, and an attribute that is neither documented state nor a cached field (a memo an edit adds) must be reset or recomputed from the '
            'current GP by update and optimize (ghost origin; reads are marked over-approximated, so a refutation needs a native failing history). '
            'Seeded native comparisons with GPy on the real code are the labelled bounded stand-ins and replay vehicle: random scripts, a history of every '
            '(operation x API) pair on one surrogate with re-visited query points, and the log density far in both tails (z = -1000 .. 40) against '
            'scipy.special.log_ndtr with a relative tolerance.',
    'note': 'CAS identities hold at the listed shapes only (1-2 query rows, dim 1-2; n_evidence 2-3, single query row). That GPy\'s own predict / '
            'predictive_gradients compute the textbook quantities, GPRegression(X, Y).X == X, the Param shapes, woodbury_inv = (chol chol^T)^-1 and '
            'scipy.stats.norm are assumed contracts (sanity-tested each run); numerical equality with GPy for hyper-parameters reached by optimisation '
            'is NOT proved (bounded stand-in only). The fast path is specified for a single query row (as used during sampling). Prior log density '
            'assumed in [-inf, +inf). Floats read as reals in the proof tiers (log(cdf) and logcdf are the same function there); IEEE tags only for '
            '-inf/+inf/nan; the double-precision behaviour of the log density in the tails is bounded-only, that of the gradient likewise (bounded stand-in over z in [-1000, 40]).',
    'technique': 'deductive: loop-invariant and path-wise VCs from the real AST (pyvc, z3/cvc5), ghost-state representation invariant over stub objects '
                 '+ computer algebra on the extracted expressions (sympy); bounded stand-in: seeded native scripts (update / optimize / is_sampling '
                 'interleavings, dims 1-3; one-surrogate histories with re-visited points; thresholds placed at z = -1000 .. 40) against GPy and an independent '
                 'posterior oracle (scipy.special.log_ndtr)',
}

from contracts import c10_post, c10_gp, c10_cas

CONTRACTS = c10_post.CONTRACTS + c10_gp.CONTRACTS + c10_cas.CONTRACTS

TRUSTED_BASE = [
    'pyvc engine: proxies, loop cutting, numpy/builtins spec tables (float() of a non-0-d array is a TypeError, as in the installed numpy; sanity-tested); '
    'engine additions made for C10: bool*bool = logical and, a ** 2. = a * a, a[None, :] (all sanity-tested)',
    'pyvc.extreal IEEE tag tables for + and exp on -inf/+inf/nan (sanity-tested against numpy)',
    'numpy: reshape((-1, c)) of an (n, c) array is the array, of a (c,) array the (1, c) row; np.r_[A, B] = concatenation along axis 0 (sanity-tested)',
    'scipy.stats.norm: logcdf(x, loc, scale) = log cdf((x - loc)/scale) with numpy broadcasting, pdf / cdf closed forms (sanity-tested)',
    'scipy.special.ndtr = norm.cdf, log_ndtr = norm.logcdf; logPhi is DEFINED as log o Phi, so np.log(ndtr(z)), np.log(norm.cdf(..)), log_ndtr(z) and '
    'norm.logcdf(..) are one spec function OVER THE REALS ONLY (sanity-tested for |z| <= 30; ndtr(-40) == 0.0 while log_ndtr(-40) is finite is sanity-tested '
    'too: the reason the tail stand-in exists)',
    'the AST scan that decides which attributes of self the fast path reads (loads from `self` in predict / predictive_gradients and the methods of the '
    'class they call; getattr/setattr/vars on self makes the whole-state clause fail closed)',
    'real sqrt: v > 0 => sqrt(v) > 0',
    'GPy (assumed, sanity-tested on a random instance each run): GPRegression(X, Y).X == X and .Y == Y; kern.rbf.variance, kern.rbf.lengthscale, '
    'likelihood.variance are 1-element 1-D arrays; kern.bias.K(X) is constant = bias.variance; posterior.woodbury_inv = (woodbury_chol woodbury_chol^T)^-1; '
    'predict / predictive_gradients of an RBF+Bias GPRegression equal the textbook formulas with posterior.woodbury_vector / woodbury_inv',
    'CAS tier: sympy; np.linalg.solve(L, B) = L^-1 B; python float literals read as decimals',
    'ghost model of object identity: a GPRegression built during a call is distinct from every object that existed before; gp.optimize() may leave '
    'the hyper-parameters in any state',
]
ASSUMPTIONS = [
    'A-REAL (proof tiers only): floats are mathematical reals (log Phi of a finite argument is finite; log(cdf) = logcdf). The float behaviour of the log '
    'density inside the bounds is covered by the bounded tail stand-in for z = (threshold - mean)/sd between -1000 and 40',
    'A-INT: integers are mathematical', 'A-LOG: logging calls have no effect',
    'the surrogate\'s noisy predictive variance is > 0',
    'the prior log density takes values in [-inf, +inf) (never +inf / nan: -inf + inf would be nan outside the bounds) and follows the answer-shape '
    'convention of elfi.model.extensions.ModelPrior (scalar for a scalar / single-point query, (n,) otherwise; property C08)',
    '1-D queries have length dim when dim > 1 (one point)',
    'fast path: one query row (the accelerated single-point prediction of the statement); kernel lengthscale > 0; at least one evidence point',
    'gp.optimize() either returns or raises np.linalg.LinAlgError (GPy\'s numerical failure mode; both are cases of the optimize / update contracts)',
]
NOT_PROVED = [
    'returns the same means, variances and gradients as the underlying Gaussian-process library: only the identity with the textbook GP formulas is '
    'proved (CAS, listed shapes); that GPy computes those quantities is an assumed contract, checked numerically in the bounded stand-in',
    'kernel hyper-parameters reached by optimisation: numerical equality with GPy after optimize() is bounded only (random scripts: max_opt_iters <= 5; '
    'history on one surrogate: 25-30 optimisations of 12 iterations with growing evidence, each followed first by the point queried last before it; '
    'tail stand-in: 60 iterations). That no state OTHER than the flag-guarded cache survives update / optimize is proved (whole-state clause) for the '
    'attributes the AST scan finds; state hidden outside self (module globals, closures, the GPy object) is bounded only',
    'inside the bounds the log density equals log Phi(..) + log prior IN DOUBLE PRECISION: bounded only (tail stand-in, z in [-1000, 40], dims 1-2, relative '
    'tolerance 1e-9 slow path / 1e-4 fast path); the proof tiers read floats as reals',
    'its gradient is the derivative of that log density IN DOUBLE PRECISION: bounded only (tail stand-in, z in [-1000, 40]; the unfixed tree '
    'returned nan / -inf for z < about -38 - pdf(z)/cdf(z) = 0/0 - and was repaired in /repo: fix f1afb5b, see KNOWN_FINDINGS.jsonl)',
    'its gradient is the derivative of that log density: proved for the likelihood term at the listed shapes (CAS); the prior\'s gradient_logpdf is a '
    'numerical gradient outside this property (C08); scatter of gradient rows for n > 2 rows is bounded only',
]


def sanity():
    import warnings
    import numpy as np
    import scipy.stats as ss
    from pyvc import extreal, native
    out = list(extreal.sanity())
    # numpy facts of the engine / of the contract-level models
    try:
        float(np.ones(1))
        ok = False
    except TypeError:
        ok = True
    out.append(('numpy: float() of a 1-element 1-D array raises TypeError (engine float spec = installed numpy)', ok))
    a = np.arange(6.).reshape(3, 2)
    out.append(('numpy: reshape((-1, c)) identities', bool(np.array_equal(a.reshape((-1, 2)), a) and np.array_equal(a[0].reshape((-1, 2)), a[:1]) and
                                                            np.asarray(1.5).reshape((-1, 1)).shape == (1, 1))))
    out.append(('numpy: np.r_[A, B] concatenates along axis 0', bool(np.array_equal(np.r_[a, a[:1]], np.concatenate([a, a[:1]], axis=0)))))
    m1, m2 = np.array([True, True, False]), np.array([True, False, False])
    out.append(('numpy: bool * bool = logical and (dtype bool), in place too', bool((m1 * m2).dtype == bool and np.array_equal(m1 * m2, m1 & m2))))
    out.append(('numpy: a ** 2. = a * a; a[None, :] / a[:, None] insert a unit axis',
                bool(np.array_equal(a ** 2., a * a) and a[None, :].shape == (1, 3, 2) and a[:, 0][:, None].shape == (3, 1) and np.array_equal(a[:, 0][None, :][0], a[:, 0]))))
    with np.errstate(all='ignore'):
        out.append(('numpy: -ones * inf = -inf; -inf + finite = -inf; exp(-inf) = 0', bool(np.all(-np.ones(2) * np.inf == -np.inf) and (-np.inf + 3.0) == -np.inf and np.exp(-np.inf) == 0.0)))
    # scipy.stats.norm
    h, mu, sd = 0.3, np.array([[0.1], [0.7], [-2.0]]), np.array([[0.5], [1.5], [0.2]])
    lc = ss.norm.logcdf(h, mu, sd)
    out.append(('scipy: norm.logcdf(h, mean, sd) = log cdf((h - mean)/sd), broadcast to (k, 1)', bool(lc.shape == (3, 1) and np.allclose(lc, np.log(ss.norm.cdf((h - mu) / sd)), rtol=1e-10))))
    t = np.linspace(-3, 3, 7)
    from scipy.special import erf
    out.append(('scipy: norm.pdf / cdf closed forms', bool(np.allclose(ss.norm.pdf(t), np.exp(-t ** 2 / 2) / np.sqrt(2 * np.pi)) and np.allclose(ss.norm.cdf(t), (1 + erf(t / np.sqrt(2))) / 2))))
    from scipy.special import ndtr, log_ndtr
    tt = np.linspace(-30, 8, 77)
    with np.errstate(all='ignore'):
        out.append(('scipy: ndtr = norm.cdf, log_ndtr = norm.logcdf = log(ndtr) for -30 <= z <= 8 (relative 1e-10 + absolute 1e-15)',
                    bool(np.allclose(ndtr(tt), ss.norm.cdf(tt), rtol=1e-12, atol=0) and np.allclose(log_ndtr(tt), ss.norm.logcdf(tt), rtol=1e-12, atol=0) and
                         np.allclose(np.log(ndtr(tt)), log_ndtr(tt), rtol=1e-10, atol=1e-15))))
        out.append(('scipy: ndtr(-40) underflows to 0.0 while log_ndtr(-40) is finite (-804.6...): log(cdf) = logcdf holds over the reals only',
                    bool(ndtr(-40.0) == 0.0 and np.isfinite(log_ndtr(-40.0)) and abs(log_ndtr(-40.0) + 804.608442013754) < 1e-6 and
                         np.isfinite(ss.norm.logcdf(-1000.0)))))
    z = np.zeros(3)
    z[np.array([False, True, False])] = ss.norm.logcdf(h, mu[:1], sd[:1]).squeeze()          # 0-d value broadcast into a 1-element mask assignment
    out.append(('numpy: squeeze of a (1, 1) array is 0-d and assigns into a one-True mask', bool(z[1] == lc[0, 0] and ss.norm.logcdf(h, mu[:1], sd[:1]).squeeze().ndim == 0)))
    # GPy
    with warnings.catch_warnings():
        warnings.simplefilter('ignore')
        native.import_elfi()
        import GPy
        rs = np.random.RandomState(3)
        X, Y = rs.rand(6, 2), rs.rand(6, 1) + 1.0
        kern = GPy.kern.RBF(input_dim=2, variance=0.7, lengthscale=0.4) + GPy.kern.Bias(input_dim=2, variance=0.3)
        gp = GPy.models.GPRegression(X=X, Y=Y, kernel=kern, noise_var=0.05)
        out.append(('GPy: GPRegression(X, Y).X == X and .Y == Y', bool(np.array_equal(np.asarray(gp.X), X) and np.array_equal(np.asarray(gp.Y), Y))))
        out.append(('GPy: rbf.variance, rbf.lengthscale, likelihood.variance, Gaussian_noise.variance are 1-element 1-D arrays; lengthscale > 0',
                    bool(gp.kern.rbf.variance.shape == (1,) and gp.kern.rbf.lengthscale.shape == (1,) and gp.likelihood.variance.shape == (1,) and
                         gp.Gaussian_noise.variance.shape == (1,) and gp.kern.rbf.lengthscale[0] > 0)))
        Kb = gp.kern.bias.K(gp.X)
        out.append(('GPy: kern.bias.K(X) is the constant matrix bias.variance', bool(Kb.shape == (6, 6) and np.allclose(Kb, float(gp.kern.bias.variance[0])))))
        L, Wi, wv = gp.posterior.woodbury_chol, gp.posterior.woodbury_inv, gp.posterior.woodbury_vector
        out.append(('GPy: woodbury_inv = (woodbury_chol woodbury_chol^T)^-1, woodbury_vector (n, 1)', bool(np.allclose(Wi, np.linalg.inv(L.dot(L.T)), rtol=1e-8, atol=1e-10) and wv.shape == (6, 1))))
        s2, ls, b, nz = float(gp.kern.rbf.variance[0]), float(gp.kern.rbf.lengthscale[0]), float(gp.kern.bias.variance[0]), float(gp.likelihood.variance[0])

        def textbook(q):
            K = s2 * np.exp(-np.sum((q - X) ** 2, axis=1) / (2 * ls ** 2)) + b
            return float(K.dot(wv[:, 0])), float(s2 + b - K.dot(Wi).dot(K) + nz)
        q = rs.rand(2)
        m, v = gp.predict(q[None, :])
        tm, tv = textbook(q)
        ok = abs(m[0, 0] - tm) < 1e-9 and abs(v[0, 0] - tv) < 1e-9
        gm, gv = gp.predictive_gradients(q[None, :])
        for c in range(2):
            e = np.zeros(2)
            e[c] = 1e-6
            (mp, vp), (mm, vm) = textbook(q + e), textbook(q - e)
            ok = ok and abs(gm[0, c, 0] - (mp - mm) / 2e-6) < 1e-5 and abs(gv[0, c] - (vp - vm) / 2e-6) < 1e-5
        out.append(('GPy: predict / predictive_gradients of RBF+Bias GPRegression = textbook single-query GP formulas (random instance)', bool(ok)))
    return out


def bounded(tier, seed):
    from bounded import c10 as b
    return [b.run(tier, seed), b.run_history(tier, seed), b.run_tails(tier, seed)]


_replay_cache = {}


def replay_refuted(cname, rf):
    """a refuted obligation: look for a failing native input.  The canonical DESIGN-6 scripts first (enter the fast path / change the evidence /
    re-fit while the cache is marked valid), then the bounded search."""
    from bounded import c10 as b
    if cname.startswith('GPyRegression.') and 'LinAlgError' in cname:
        order = ['update-optimize-fails', 'optimize-fails'] if cname.startswith('GPyRegression.update') else ['optimize-fails', 'update-optimize-fails']
    elif cname.startswith('GPyRegression.update'):
        order = ['update', 'optimize', 'enter']
    elif cname.startswith('GPyRegression.optimize'):
        order = ['optimize', 'update', 'enter']
    elif cname.startswith('GPyRegression.'):
        order = ['enter', 'update', 'optimize']
    elif cname.startswith('BolfiPosterior.__init__'):
        order = ['threshold0']
    else:
        order = []
    for kind in order:
        key = ('canon', kind)
        if key not in _replay_cache:
            script = b.canonical(kind)
            f, shim = b.replay_script(script)
            _replay_cache[key] = None if f is None else dict(found=True, input=dict(script=script, shim=shim), observed=f['what'], signature=f['signature'])
        if _replay_cache[key] is not None:
            return _replay_cache[key]
    if cname.startswith('GPyRegression.') and 'history' not in _replay_cache:
        # one surrogate driven through every (operation x API) pair: memo / cache state that survives an operation
        r = b.run_history('quick', 0)
        _replay_cache['history'] = None
        if r['failures']:
            f = r['failures'][0]
            _replay_cache['history'] = dict(found=True, input=f['input'], observed=f['what'], signature=f['signature'])
    if cname.startswith('GPyRegression.') and _replay_cache.get('history') is not None:
        return _replay_cache['history']
    if 'search' not in _replay_cache:
        r = b.run('quick', 0)
        if r['failures']:
            f = r['failures'][0]
            _replay_cache['search'] = dict(found=True, input=f['input'], observed=f['what'], signature=f['signature'])
        else:
            _replay_cache['search'] = dict(found=False, searched=r['bound'], cases=r['cases'])
    return _replay_cache['search']


def replay_input(inp):
    from bounded import c10 as b
    return b.replay_input(inp)
