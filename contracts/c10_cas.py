"""C10, CAS tier: the REAL bodies (pyvc.cas.run_function) executed over sympy terms at small CONCRETE shapes; every identity holds for
ALL real values (under the stated sign conditions) at the listed shapes.

  GradLogLik   BolfiPosterior._gradient_unnormalized_loglikelihood: grad[row inside, c] = d/dx_c log Phi((h - mu(x)) / sqrt(v(x))) with
               mu, v UNDEFINED functions of the query row (the surrogate returns mean = mu(row), var = v(row), grad_mean = dmu/dx,
               grad_var = dv/dx); rows outside the bounds get 0 (the code's convention where the log density is -inf).
  FastPath     GPyRegression.predict / predictive_gradients on the cached-kernel path: the returned mean / variance / gradients equal the
               textbook single-query GP formulas  K_i = s2 exp(-|x - X_i|^2 / (2 l^2)) + bias,  mu = sum_i K_i a_i,
               var = s2 + bias - K W^-1 K^T + noise,  grad = d/dx of those.  The cached fields are given the values that the contract of
               `_cache_RBF_kernel` (contracts/c10_gp.py::CacheRBF) establishes from the current model.
Library models: scipy.stats.norm.pdf/cdf = the closed forms with erf; np.linalg.solve(L, B) for the cholesky factor L = M^-1 returns M B
(L is never needed entry-wise; woodbury_inv = (L L^T)^-1 = M^T M is the assumed GPy relation, sanity-tested numerically).
Python float literals are read as the decimal numbers they denote (A-REAL)."""
import random
import time

import numpy as np
import sympy as sp

from pyvc import cas
from pyvc.cas import CasContract, decide_identity
from pyvc.core import OutOfSubset

POST = 'elfi/methods/posteriors.py::BolfiPosterior.'
GPR = 'elfi/methods/bo/gpy_regression.py::GPyRegression.'


def exactify(e):
    if isinstance(e, np.ndarray):
        out = np.empty(e.shape, dtype=object)
        for idx in np.ndindex(e.shape):
            out[idx] = exactify(e[idx])
        return out
    e = sp.sympify(e)
    fl = e.atoms(sp.Float)
    if not fl:
        return e
    return e.xreplace({f: sp.Rational(repr(float(f))) for f in fl})


_Obj = cas.Obj        # stub object; members the contract does not give resolve from the real class in the tree (helpers an edit extracts)


def _vec(f):
    return cas._vec(f)


class _Norm:
    pdf = staticmethod(_vec(lambda t: sp.exp(-sp.sympify(t) ** 2 / 2) / sp.sqrt(2 * sp.pi)))
    cdf = staticmethod(_vec(lambda t: (1 + sp.erf(sp.sympify(t) / sp.sqrt(2))) / 2))

    @staticmethod
    def logpdf(x, loc=0, scale=1):
        return _vec(lambda t: -sp.sympify(t) ** 2 / 2 - sp.log(sp.sqrt(2 * sp.pi)))((x - loc) / scale) - (sp.log(scale) if scale != 1 else 0)

    @staticmethod
    def logcdf(x, loc=0, scale=1):
        return _vec(lambda t: sp.log((1 + sp.erf(sp.sympify(t) / sp.sqrt(2))) / 2))((x - loc) / scale)


SS = _Obj(norm=_Norm)


def _decide(name, lhs, rhs, domain, seed, budget, instance=None, note='', case=None):
    """decide lhs == rhs; when the general identity stays undecided and an INSTANCE (concrete functions substituted for the undefined ones)
    is given, a non-zero residual of the instance is a counterexample (refuted); a zero one leaves the identity undecided (fail closed)"""
    lhs, rhs = exactify(lhs), exactify(rhs)
    d = decide_identity(lhs, rhs, domain, seed=seed, budget_s=budget)
    if d['verdict'] == 'undecided' and instance is not None:
        t0 = time.time()
        rnd = random.Random(seed)
        res = instance(lhs - rhs)
        for _ in range(12):
            pt = {s_: rnd.uniform(*domain[s_]) for s_ in res.free_symbols if s_ in domain}
            try:
                v = complex(sp.N(res.subs(pt), 25))
            except Exception:
                continue
            if abs(v) > 1e-7:
                d = dict(verdict='refuted', point={str(k): v_ for k, v_ in pt.items()}, residual_value=abs(v), residual=str(res)[:300],
                         seconds=d.get('seconds', 0) + round(time.time() - t0, 3), reason='instance mu, v = %s' % (getattr(instance, 'text', ''),))
                break
    d = dict(d)
    d.update(name=name, note=note or d.get('how', ''), case=case, lhs=lhs, rhs=rhs)
    return d


# ====================================================================================== gradient of the log-likelihood
class GradLogLik(CasContract):
    target = POST + '_gradient_unnormalized_loglikelihood'
    prop = 'C10'

    def __init__(self, dim, mask, flat=False):
        self.dim, self.mask, self.flat = dim, tuple(mask), flat
        self.label = 'dim=%d,%s' % (dim, 'single point given 1-D' if flat else 'rows inside=%s' % ''.join('1' if m else '0' for m in mask))
        self.shapes = 'query (%s), dim %d' % ('%d,' % dim if flat else '%d, %d' % (len(mask), dim), dim)

    def identities(self, tier, seed):
        d, mask = self.dim, self.mask
        n = len(mask)
        xs = np.array([[sp.Symbol('x%d_%d' % (r, c), real=True) for c in range(d)] for r in range(n)], dtype=object)
        h = sp.Symbol('h', real=True)
        mu, v = sp.Function('mu', real=True), sp.Function('v', positive=True)
        calls = dict(predict=0, grads=0)

        def predict(q, noiseless=False):
            calls['predict'] += 1
            return (np.array([[mu(*row)] for row in q], dtype=object), np.array([[v(*row)] for row in q], dtype=object))

        def predictive_gradients(q):
            calls['grads'] += 1
            return (np.array([[sp.Derivative(mu(*row), row[c]) for c in range(d)] for row in q], dtype=object),
                    np.array([[sp.Derivative(v(*row), row[c]) for c in range(d)] for row in q], dtype=object))
        self_ = _Obj(dim=d, threshold=h, model=_Obj(predict=predict, predictive_gradients=predictive_gradients),
                     _within_bounds=lambda q: np.array(mask, dtype=bool))           # callee under contract (SMT tier: WithinBounds)
        query = xs[0] if self.flat else xs
        grad, loc, stats = cas.run_function(self.target, (self_, query), env={'ss': SS}, repo=self.repo)
        grad = np.asarray(grad, dtype=object)
        want_shape = (d,) if (self.flat and d > 1) else (n, d)
        if grad.shape != want_shape:
            yield dict(name='shape', verdict='refuted', seconds=0.0, note='gradient has shape %s, expected %s' % (grad.shape, want_shape), lhs=None, rhs=None)
            return
        if self.flat and d > 1:
            grad = grad[None, :]
        # concrete instance used only to turn an undecided (mutated) identity into a counterexample
        def instance(e):
            def mu_i(*a):
                return sp.sin(sum((k + 1) * t for k, t in enumerate(a))) + sp.Rational(3, 10) * sum(t ** 2 for t in a)

            def v_i(*a):
                return 1 + sp.Rational(1, 2) * sp.cos(sum(a)) ** 2 + sp.Rational(1, 5) * sum(t ** 2 for t in a)
            return e.replace(mu, mu_i).replace(v, v_i).doit()
        instance.text = 'sin(sum (k+1) x_k) + 0.3 |x|^2, 1 + 0.5 cos(sum x)^2 + 0.2 |x|^2'
        domain = {sp.Symbol('x%d_%d' % (r, c), real=True): (-1.0, 1.0) for r in range(n) for c in range(d)}
        domain[h] = (-1.0, 1.0)
        budget = 20.0 if tier == 'quick' else 90.0
        for r in range(n):
            row = xs[r]
            logp = sp.log(_Norm.cdf((h - mu(*row)) / sp.sqrt(v(*row))))
            for c in range(d):
                if mask[r]:
                    want = sp.diff(logp, row[c])
                    yield _decide('grad[%d,%d] = d/dx_%d log Phi((h - mu)/sqrt(v))' % (r, c, c), grad[r, c], want, domain, seed, budget, instance,
                                  case=dict(dim=d, mask=list(mask), flat=self.flat))
                else:
                    yield _decide('grad[%d,%d] = 0 outside the bounds' % (r, c), grad[r, c], sp.Integer(0), domain, seed, budget, instance)
        n_in = sum(mask)
        ok = (calls == dict(predict=1, grads=1)) if n_in else (calls == dict(predict=0, grads=0))
        yield dict(name='surrogate queried once (not at all when no row is inside)', verdict='discharged' if ok else 'refuted', seconds=0.0, note=str(calls), lhs=None, rhs=None)

    def run_custom(self, tier, seed, repo):
        self.repo = repo
        return CasContract.run_custom(self, tier, seed, repo)


# ====================================================================================== the cached-kernel path
class _CholMarker:
    """the cholesky factor L = M^-1; only np.linalg.solve(L, .) may use it"""

    def __init__(self, M):
        self.M = M


class _Linalg:
    @staticmethod
    def solve(a, b):
        if not isinstance(a, _CholMarker):
            raise OutOfSubset('np.linalg.solve with a matrix other than the cached cholesky factor')
        return a.M.dot(np.asarray(b, dtype=object))


class FastPath(CasContract):
    prop = 'C10'

    def __init__(self, which, n_ev, dim):
        self.which, self.n_ev, self.dim = which, n_ev, dim
        self.target = GPR + which
        self.label = 'fast path, n_evidence=%d, dim=%d' % (n_ev, dim)
        self.shapes = 'single query row (1, %d), evidence (%d, %d)' % (dim, n_ev, dim)

    def run_custom(self, tier, seed, repo):
        self.repo = repo
        return CasContract.run_custom(self, tier, seed, repo)

    def identities(self, tier, seed):
        n, d = self.n_ev, self.dim
        x = [sp.Symbol('x%d' % c, real=True) for c in range(d)]
        X = [[sp.Symbol('X%d_%d' % (i, c), real=True) for c in range(d)] for i in range(n)]
        s2, l, nz = sp.Symbol('s2', positive=True), sp.Symbol('l', positive=True), sp.Symbol('noise', positive=True)
        b = sp.Symbol('bias', nonnegative=True)
        a = [sp.Symbol('a%d' % i, real=True) for i in range(n)]
        M = np.array([[sp.Symbol('m%d_%d' % (i, j), real=True) if j <= i else sp.Integer(0) for j in range(n)] for i in range(n)], dtype=object)
        Winv = M.T.dot(M)
        Xa = np.array(X, dtype=object)

        def no_refresh():
            raise OutOfSubset('_cache_RBF_kernel called although the cache is marked valid')
        self_ = _Obj(input_dim=d, _gp=_Obj(X=Xa), is_sampling=True, _kernel_is_default=True, _rbf_is_cached=True, _cache_RBF_kernel=no_refresh,
                     _rbf_var=s2, _rbf_factor=-sp.Rational(1, 2) / l ** 2, _rbf_bias=b, _rbf_noisevar=nz,
                     _rbf_woodbury=np.array([[ai] for ai in a], dtype=object), _rbf_woodbury_inv=Winv, _rbf_woodbury_chol=_CholMarker(M),
                     _rbf_x2sum=np.array([[sum(X[i][c] ** 2 for c in range(d)) for i in range(n)]], dtype=object))
        q = np.array([x], dtype=object)
        res, loc, stats = cas.run_function(self.target, (self_, q), np_extra={'linalg': _Linalg}, repo=self.repo)
        # textbook single-query GP
        K = [s2 * sp.exp(-sum((x[c] - X[i][c]) ** 2 for c in range(d)) / (2 * l ** 2)) + b for i in range(n)]
        mu = sum(K[i] * a[i] for i in range(n))
        var = s2 + b - sum(K[i] * Winv[i, j] * K[j] for i in range(n) for j in range(n)) + nz
        domain = {s_: (-1.0, 1.0) for s_ in x + [t for row in X for t in row] + a + [m for m in M.flat if isinstance(m, sp.Symbol)]}
        domain.update({s2: (0.5, 2.0), l: (0.5, 2.0), nz: (0.1, 1.0), b: (0.0, 1.0)})
        budget = 20.0 if tier == 'quick' else 90.0
        case = dict(which=self.which, n_evidence=n, dim=d)
        if not (isinstance(res, tuple) and len(res) == 2):
            yield dict(name='shape', verdict='refuted', seconds=0.0, note='a pair is expected', lhs=None, rhs=None)
            return
        r0, r1 = np.asarray(res[0], dtype=object), np.asarray(res[1], dtype=object)
        if self.which == 'predict':
            if r0.shape != (1, 1) or r1.shape != (1, 1):
                yield dict(name='shape', verdict='refuted', seconds=0.0, note='shapes %s %s, expected (1, 1) twice' % (r0.shape, r1.shape), lhs=None, rhs=None)
                return
            yield _decide('mean = K_x . woodbury_vector', r0[0, 0], mu, domain, seed, budget, case=case)
            yield _decide('var = s2 + bias - K_x W^-1 K_x^T + noise', r1[0, 0], var, domain, seed, budget, case=case)
        else:
            if r0.shape != (1, d) or r1.shape != (1, d):
                yield dict(name='shape', verdict='refuted', seconds=0.0, note='shapes %s %s, expected (1, %d) twice' % (r0.shape, r1.shape, d), lhs=None, rhs=None)
                return
            for c in range(d):
                yield _decide('grad_mean[%d] = d mean / dx_%d' % (c, c), r0[0, c], sp.diff(mu, x[c]), domain, seed, budget, case=case)
                yield _decide('grad_var[%d] = d var / dx_%d' % (c, c), r1[0, c], sp.diff(var, x[c]), domain, seed, budget, case=case)


CONTRACTS = [GradLogLik(1, (True,)), GradLogLik(2, (True,)), GradLogLik(2, (True,), flat=True), GradLogLik(1, (False, True)), GradLogLik(2, (True, False)),
             GradLogLik(1, (False,))] + \
    [FastPath(w, n, d) for w in ('predict', 'predictive_gradients') for (n, d) in ((2, 1), (2, 2), (3, 1), (3, 2))]
