"""C10, SMT tier, part 2: cache validity and evidence order of elfi.methods.bo.gpy_regression.GPyRegression (REAL bodies).

Ghost model.  A GPy model object is a stub with a ghost identity `gid` (fresh for every GPRegression(...) construction) and a ghost
version `ver` of its fitted hyper-parameters (arbitrary new value after gp.optimize()).  The ghost pair (cache_gid, cache_ver) names
the model state the `_rbf_*` fields were computed from; it is written only by `_cache_RBF_kernel` (whose own contract proves that the
fields equal f(current _gp)).  Representation invariant, stated in the property as "cache refreshed when stale":

    INV:  _rbf_is_cached  =>  _gp is not None  and  cache_gid == _gp.gid  and  cache_ver == _gp.ver

Every writer of `_gp` / of the model's hyper-parameters (__init__, _init_gp, update, optimize) must re-establish INV; every reader of
a cached field (predict / predictive_gradients fast path) gets a call-pre obligation "the cache is valid for the current _gp".
The VALUES computed on the fast path are opaque here (class Opq): they are the business of the CAS tier (contracts/c10_cas.py)."""
import z3

from pyvc.core import cur, forall_range, OutOfSubset, program_exception
from pyvc.engine import Contract, NS, make_object, inline
from pyvc.values import SInt, SReal, SBool, Sym, lift, _b
from pyvc.sarray import SArr, Cell, zi
from pyvc import npspec
from contracts.c10_post import QArr, fresh_q

R, I, B = z3.RealSort(), z3.IntSort(), z3.BoolSort()
GPR = 'elfi/methods/bo/gpy_regression.py::GPyRegression.'
CACHE_FIELDS = ('_rbf_var', '_rbf_factor', '_rbf_bias', '_rbf_noisevar', '_rbf_woodbury', '_rbf_woodbury_inv', '_rbf_woodbury_chol', '_rbf_x2sum')


# ====================================================================================== opaque values
class Opq:
    """an array/number whose value this tier does not look at; remembers which leaves it was computed from"""

    def __init__(self, tag, parents=(), shape=None):
        self.tag, self.parents = tag, tuple(parents)
        if shape is not None:
            self.shape = shape

    def leaves(self):
        if not self.parents:
            return {self.tag}
        out = set()
        for p in self.parents:
            out |= p.leaves() if isinstance(p, Opq) else set()
        return out

    def _op(self, name, *others):
        return Opq(name, (self,) + tuple(o for o in others if isinstance(o, Opq)))

    def __getitem__(self, idx):
        o = Opq('getitem', (self,))
        o.idx = idx
        return o

    @property
    def T(self):
        return self._op('T')

    def dot(self, o):
        return self._op('dot', o)

    def reshape(self, *shape):
        return self._op('reshape')

    def _vc_asarray(self):
        return self

    def copy(self):
        return self._op('copy')

    def __neg__(self):
        return self._op('neg')


for _n in ('add', 'sub', 'mul', 'truediv', 'pow'):
    setattr(Opq, '__%s__' % _n, (lambda nm: lambda self, o: self._op(nm, o))(_n))
    setattr(Opq, '__r%s__' % _n, (lambda nm: lambda self, o: self._op('r' + nm, o))(_n))


def _opq_aware(plain):
    def f(a, *rest, **kw):
        if isinstance(a, Opq):
            return a._op(plain.__name__, *rest)
        return plain(a, *rest, **kw)
    return f


class _LinalgModule:
    """what the analysed code sees as `np.linalg`: solve on opaque values, the REAL exception class LinAlgError; like the engine's numpy module
    proxy, an attribute that the INSTALLED numpy.linalg does not have is a program AttributeError (that is how removed aliases such as
    np.linalg.linalg surface), anything else not listed is out of subset"""

    def __init__(self):
        import numpy as _np
        self.__dict__['_real'] = _np.linalg
        self.__dict__['LinAlgError'] = _np.linalg.LinAlgError

    @staticmethod
    def solve(a, b):
        if isinstance(a, Opq) or isinstance(b, Opq):
            return Opq('solve', tuple(p for p in (a, b) if isinstance(p, Opq)))
        raise OutOfSubset('np.linalg.solve on non-opaque values')

    def __getattr__(self, name):
        import numpy as _np
        if not hasattr(self._real, name):
            raise program_exception(AttributeError("module 'numpy.linalg' has no attribute %r (installed numpy %s)" % (name, _np.__version__)))
        raise OutOfSubset('numpy.linalg.%s is not in the spec table' % name)


_LinalgSpec = _LinalgModule()


def lib_linalg_error():
    """the GP library's documented numerical failure mode (raised deliberately by the stub of gp.optimize)"""
    import numpy as _np
    return program_exception(_np.linalg.LinAlgError('not positive definite, even with jitter.'))


class _R:
    """np.r_[a, b, ...] for 2-D arrays: concatenation along the first axis (assumed, sanity-tested)"""

    def __getitem__(self, parts):
        if not isinstance(parts, tuple):
            parts = (parts,)
        if not all(isinstance(p, SArr) and p.ndim == 2 for p in parts):
            raise OutOfSubset('np.r_ on other than 2-D arrays')
        return npspec.concatenate(list(parts), axis=0)


YMAX = z3.Real('max_y')


def _array_equal(a, b):
    """np.array_equal on opaque values: either answer (the path forks when the analysed code branches on it)"""
    if isinstance(a, Opq) or isinstance(b, Opq):
        return SBool(cur().fresh('array_equal', B))
    raise OutOfSubset('np.array_equal on non-opaque values')


def np_env():
    return npspec.module(extra={'sum': _opq_aware(npspec.sum), 'exp': _opq_aware(npspec.exp), 'linalg': _LinalgSpec, 'r_': _R(),
                                'max': lambda a: SReal(YMAX), 'array_equal': _array_equal})


# ====================================================================================== stubs
def new_gp(vc, s, name, X=None, Y=None, created=False, **attrs):
    """a GPy GPRegression object.  created=True: built during the analysed call, its ghost identity differs from every object that
    exists already (in particular from the object the cache was computed from); otherwise it is part of the entry state"""
    gid, ver = vc.fresh_int(name + '.gid'), vc.fresh_int(name + '.ver')
    if created:
        for g in s.gids:
            vc.assume(gid != g)
    s.gids.append(gid)
    d = dict(gid=gid, ver=ver, X=X, Y=Y)
    d.update(attrs)
    return make_object('GPRegressionStub', attrs=d)


def inv(self_, s):
    """INV over the CURRENT attribute values of the stub `self` and the ghost cache origin"""
    flag = _b(self_._rbf_is_cached)
    gp = self_._gp
    if gp is None:
        return z3.Not(flag)
    return z3.Implies(flag, z3.And(s.cache_gid == gp.gid, s.cache_ver == gp.ver))


def ghost_state(vc, s):
    s.gids = []
    s.cache_gid, s.cache_ver = z3.Ints('cache_gid cache_ver')
    s.gids.append(s.cache_gid)            # the cache was computed from an object that exists already
    s.cached0 = z3.Bool('rbf_is_cached')




# ====================================================================================== whole state: what the fast path reads
# Which attributes of self the fast path reads is decided from the REAL class in the tree (AST scan, per run): everything loaded from
# `self` in predict / predictive_gradients and in the methods of the class they call (transitively).  Documented state: _gp, the flags,
# input_dim, and the cached fields (= whatever _cache_RBF_kernel assigns; valid iff INV).  Configuration = attributes assigned in __init__
# only.  Anything else that some other method assigns is a MEMO attribute (an edit introduced it): it gets a ghost origin like the cache,
#
#     INV2(A):  A holds a reset value (None / a constant)  or  A was computed from the current _gp at its current hyper-parameters
#
# which every reader may rely on and every writer of _gp / of the hyper-parameters (update, optimize) must re-establish.  Reading a memo
# taints the path (pyvc README: over-approximated state): the edit may keep the memo valid by a mechanism INV2 does not describe, so a
# refuted clause is a VIOLATION only with a native failing history (bounded/c10.py run_history), otherwise undecided.
DOCUMENTED = ('_gp', 'is_sampling', '_kernel_is_default', '_rbf_is_cached', 'input_dim')
FAST_ENTRY = ('predict', 'predictive_gradients')
_scan_cache = {}


def scan_class(vc):
    """-> dict(memo=[names], cached=[names], read=[names]) of the real GPyRegression in the tree under analysis"""
    import ast
    from pyvc import instrument
    path = 'elfi/methods/bo/gpy_regression.py'
    src, tree = instrument._parse(path, vc.repo)
    key = hash(src)
    if key in _scan_cache:
        return _scan_cache[key]
    cls = [n for n in tree.body if isinstance(n, ast.ClassDef) and n.name == 'GPyRegression'][0]
    methods = {f.name: f for f in cls.body if isinstance(f, ast.FunctionDef)}
    loads, stores = {}, {}
    for name, f in methods.items():
        me = f.args.args[0].arg if f.args.args else None
        L, S = set(), set()
        for x in ast.walk(f):
            if isinstance(x, ast.Attribute) and isinstance(x.value, ast.Name) and x.value.id == me:
                (L if isinstance(x.ctx, ast.Load) else S).add(x.attr)
            if isinstance(x, ast.AugAssign) and isinstance(x.target, ast.Attribute) and isinstance(x.target.value, ast.Name) and x.target.value.id == me:
                L.add(x.target.attr)
            if isinstance(x, ast.Call) and isinstance(x.func, ast.Name) and x.func.id in ('getattr', 'setattr', 'hasattr', 'vars') and x.args and \
                    isinstance(x.args[0], ast.Name) and x.args[0].id == me:
                L.add('*')                   # reflective access: not analysable by this scan
        loads[name], stores[name] = L, S
    reach, todo = set(), [m for m in FAST_ENTRY if m in methods]
    while todo:
        m = todo.pop()
        if m in reach:
            continue
        reach.add(m)
        todo.extend(a for a in loads[m] if a in methods)
    read = set().union(*[loads[m] for m in reach]) - set(methods) if reach else set()
    cached = set(stores.get('_cache_RBF_kernel', ())) - set(DOCUMENTED)
    elsewhere = set().union(*[stores[m] for m in methods if m not in ('__init__', '_cache_RBF_kernel')] or [set()])
    memo = sorted(a for a in read if a in elsewhere and a not in DOCUMENTED and a not in CACHE_FIELDS)
    out = dict(memo=memo, cached=sorted(cached - set(memo)), read=sorted(read), reflective='*' in read)
    _scan_cache[key] = out
    return out


def _is_reset_value(v):
    return v is None or (isinstance(v, (bool, int, float, str)) and not isinstance(v, Sym)) or (isinstance(v, (tuple, list, dict, set, frozenset)) and len(v) == 0)


def _opq_leaves(v):
    """leaves of a value the analysed code stores into a memo (opaque values, tuples / lists of them) -> set, or None if something else is inside"""
    if isinstance(v, Opq):
        return v.leaves()
    if isinstance(v, (tuple, list)):
        out = set()
        for e in v:
            l = _opq_leaves(e)
            if l is None:
                return None
            out |= l
        return out
    return None


ALLOWED_LEAVES = {'x', 'gp.X'}


def memo_members(vc, s):
    """property objects (getter + setter) for the memo attributes of the tree + their ghost entry state in s.memo"""
    info = scan_class(vc)
    s.scan = info
    s.memo = {}
    members = {}
    for A in info['memo']:
        st = dict(none=z3.Bool('memo.%s.is_reset' % A), gid=z3.Int('memo.%s.gid' % A), ver=z3.Int('memo.%s.ver' % A), written=False, value=None)
        s.gids.append(st['gid'])
        s.memo[A] = st

        def get(self_, A=A, st=st):
            if st['written']:
                return st['value']
            vc.taint('content of the memo attribute `%s` (not a documented cache field) left by earlier calls' % A)
            if vc.branch(st['none']):
                return None
            gp = self_._gp
            vc.oblige('call-pre[memo %s read while it holds values computed from the current _gp]' % A,
                      z3.BoolVal(False) if gp is None else z3.And(st['gid'] == gp.gid, st['ver'] == gp.ver))
            return Opq('cache.memo.' + A)

        def set_(self_, v, A=A, st=st):
            st['written'], st['value'] = True, v
            gp = getattr(self_, '_gp', None)
            if _is_reset_value(v):
                st['none'] = z3.BoolVal(True)
                return
            st['none'] = z3.BoolVal(False)
            lv = _opq_leaves(v)
            if lv is not None and gp is not None and all(l in ALLOWED_LEAVES or l.startswith('cache.') for l in lv):
                st['gid'], st['ver'] = gp.gid, gp.ver          # computed from the query, the evidence and VALID cached fields (their reads were obliged)
            else:
                st['gid'], st['ver'] = vc.fresh_int('memo.%s.gid_unknown' % A), vc.fresh_int('memo.%s.ver_unknown' % A)
        members[A] = property(get, set_)
    return members


def inv2(self_, s):
    """INV2 over the CURRENT ghost state of every memo attribute"""
    gp = self_._gp
    out = []
    for A, st in s.memo.items():
        out.append(st['none'] if gp is None else z3.Or(st['none'], z3.And(st['gid'] == gp.gid, st['ver'] == gp.ver)))
    return z3.And(*out) if out else z3.BoolVal(True)


def whole_state_clause(self_, s, when):
    names = ', '.join(s.memo) if s.memo else 'none in this tree'
    if s.memo:
        cur().taint('memo attributes %s: validity described by INV2 only' % names)
    ok = z3.BoolVal(False) if s.scan.get('reflective') else inv2(self_, s)
    return ('whole state %s: every attribute of self that the fast path reads is _gp, a flag, configuration set in __init__, a cached field guarded by '
            '_rbf_is_cached, or a memo attribute that is reset or was (re)computed from the current _gp and its current hyper-parameters '
            '[memo attributes found in the tree: %s]' % (when, names), ok)


def havoc_memo_by_callee(vc, self_, s, who):
    """a callee under contract (optimize) re-establishes INV2: any new ghost state satisfying it"""
    for A, st in s.memo.items():
        st['written'] = False
        st['none'], st['gid'], st['ver'] = vc.fresh('memo.%s.is_reset_after_%s' % (A, who), B), vc.fresh_int('memo.%s.gid_after_%s' % (A, who)), vc.fresh_int('memo.%s.ver_after_%s' % (A, who))
    vc.assume(inv2(self_, s))


class _Base(Contract):
    prop = 'C10'
    fin = 3

    def env(self, vc):
        return {'np': np_env()}

    vacuity_probe = False

    def snapshot(self, s):
        # vacuity guard of the invariant: "the cache is marked valid at entry" must be a feasible entry state where it can be one
        if self.vacuity_probe and not cur().feasible(s.cached0):
            raise OutOfSubset('vacuous contract: no entry state with a valid cache satisfies the preconditions')
        return {}

    def witness(self, vc, model, ob):
        ev = lambda t: str(model.eval(t, model_completion=True))
        return dict(contract=self.cname, rbf_is_cached=ev(z3.Bool('rbf_is_cached')), is_sampling=ev(z3.Bool('is_sampling')),
                    kernel_is_default=ev(z3.Bool('kernel_is_default')))


# ====================================================================================== predict / predictive_gradients
class FastPathProtocol(_Base):
    """which = predict | predictive_gradients, with a fitted _gp: the cached algebra runs iff is_sampling and _kernel_is_default, the cache
    is refreshed first iff it is not marked valid, cached fields are only read while valid; otherwise the GP library answers."""
    vacuity_probe = True

    def __init__(self, which):
        self.which = which
        self.target = GPR + which

    def setup(self, vc):
        ghost_state(vc, s := NS())
        s.sampling0, s.default0 = z3.Bool('is_sampling'), z3.Bool('kernel_is_default')
        n, d = z3.Ints('n input_dim')
        s.x = Opq('x', shape=(n, d))
        s.lib_calls, s.cache_calls, s.reads = [], [], []
        s.lib_ret = None

        def lib(name):
            def f(self_, xq):
                s.lib_calls.append((name, xq))
                s.lib_ret = (Opq('gp.%s[0]' % name), Opq('gp.%s[1]' % name))
                return s.lib_ret
            return f
        gp = new_gp(vc, s, 'gp', X=Opq('gp.X'))
        type(gp).predict, type(gp).predict_noiseless, type(gp).predictive_gradients = lib('predict'), lib('predict_noiseless'), lib('predictive_gradients')
        s.gp = gp

        def cache_rbf(self_):
            # callee under contract (CacheRBF): fields := f(current _gp), flag set
            s.cache_calls.append(len(s.reads))
            s.cache_gid, s.cache_ver = self_._gp.gid, self_._gp.ver
            self_._rbf_is_cached = True

        def field(name):
            def get(self_):
                vc.oblige('call-pre[%s read while the cache holds values of the current _gp]' % name,
                          z3.And(_b(self_._rbf_is_cached), s.cache_gid == self_._gp.gid, s.cache_ver == self_._gp.ver))
                s.reads.append(name)
                return Opq('cache.' + name)
            return get
        members = memo_members(vc, s)
        members['_cache_RBF_kernel'] = cache_rbf
        s.self = make_object('GPyRegressionStub', attrs=dict(input_dim=SInt(d), _gp=gp, is_sampling=SBool(s.sampling0), _kernel_is_default=SBool(s.default0),
                                                             _rbf_is_cached=SBool(s.cached0)),
                             methods=members, properties={f: field(f) for f in tuple(CACHE_FIELDS) + tuple(c for c in s.scan['cached'] if c not in CACHE_FIELDS)})
        kw = {}
        if self.which == 'predict':
            s.noiseless = vc.fork_values('noiseless', [False, True])
            if s.noiseless:
                kw['noiseless'] = True
        return s, (s.self, s.x), kw

    def requires(self, s):
        return [('INV', inv(s.self, s)), ('INV2', inv2(s.self, s))]

    def ensures(self, s, result):
        fast = z3.And(s.sampling0, s.default0)
        ok_tuple = isinstance(result, tuple) and len(result) == 2
        if not ok_tuple:
            return [('a pair is returned', z3.BoolVal(False))]
        took_fast = not s.lib_calls
        derived = took_fast and all(isinstance(r, Opq) and r.leaves() and all(l in ALLOWED_LEAVES or l.startswith('cache.') for l in r.leaves()) and
                                    any(l.startswith('cache.') for l in r.leaves()) for r in result)
        out = [('the cached algebra answers iff is_sampling and _kernel_is_default', fast == z3.BoolVal(took_fast)),
               ('fast path: a refresh of the cache happens before any cached field is read', z3.Implies(fast, z3.BoolVal(s.cache_calls in ([], [0])))),
               ('fast path: refreshed exactly when stale', z3.Implies(fast, z3.BoolVal(len(s.cache_calls) == 1) == z3.Not(s.cached0))),
               ('fast path: both answers are computed from the cached fields, the query and the evidence only', z3.Implies(fast, z3.BoolVal(derived))),
               ('INV holds at exit', inv(s.self, s)),
               whole_state_clause(s.self, s, 'at exit'),
               ('the fitted model object is not replaced', z3.BoolVal(s.self._gp is s.gp))]
        if self.which == 'predict':
            want = 'predict_noiseless' if s.noiseless else 'predict'
            slow_ok = (not took_fast) and len(s.lib_calls) == 1 and s.lib_calls[0][0] == want and result is s.lib_ret
            out.append(('otherwise the GP library answers (noisy prediction unless noiseless was asked for), queried once',
                        z3.Implies(z3.Not(fast), z3.BoolVal(slow_ok))))
            out.append(('otherwise the cache is marked stale', z3.Implies(z3.Not(fast), z3.Not(_b(s.self._rbf_is_cached)))))
        else:
            g0 = result[0]
            slow_ok = (not took_fast) and len(s.lib_calls) == 1 and s.lib_calls[0][0] == 'predictive_gradients' and result[1] is s.lib_ret[1] and \
                isinstance(g0, Opq) and g0.tag == 'getitem' and g0.parents == (s.lib_ret[0],) and g0.idx == (slice(None), slice(None), 0)
            out.append(('otherwise the GP library answers: (dmean[:, :, 0], dvar), queried once', z3.Implies(z3.Not(fast), z3.BoolVal(slow_ok))))
        return out


class NoModelYet(_Base):
    """_gp is None: predict -> (zeros (n,1), ones (n,1)); predictive_gradients -> zeros (n, input_dim) twice; INV kept"""

    def __init__(self, which):
        self.which = which
        self.target = GPR + which
        self.label = 'no-model'

    def setup(self, vc):
        ghost_state(vc, s := NS())
        n, d = z3.Ints('n input_dim')
        vc.fin_bounds.extend([n, d])
        s.n, s.dm = n, d
        s.x = fresh_q(vc, 'x', (n, d))
        s.self = make_object('GPyRegressionStub', attrs=dict(input_dim=SInt(d), _gp=None, is_sampling=SBool(z3.Bool('is_sampling')),
                                                             _rbf_is_cached=SBool(s.cached0)))
        return s, (s.self, s.x), {}

    def requires(self, s):
        return [s.n >= 0, s.dm >= 1, ('INV', inv(s.self, s))]

    def ensures(self, s, result):
        if not (isinstance(result, tuple) and len(result) == 2 and all(isinstance(r, SArr) and r.ndim == 2 for r in result)):
            return [('a pair of 2-D arrays is returned', z3.BoolVal(False))]
        a, b = result
        cols = z3.IntVal(1) if self.which == 'predict' else s.dm
        second = z3.RealVal(1) if self.which == 'predict' else z3.RealVal(0)
        return [('one row per query row', z3.And(a.shape[0] == s.n, b.shape[0] == s.n, a.shape[1] == cols, b.shape[1] == cols)),
                ('prior mean 0 / variance 1 (gradients 0) while there is no evidence',
                 forall_range(0, s.n, lambda i: forall_range(0, cols, lambda j: z3.And(a.at(i, j) == 0, b.at(i, j) == second), 'j'), 'i')),
                ('INV holds at exit', inv(s.self, s))]


# ====================================================================================== _cache_RBF_kernel
BIASV = z3.Real('bias_variance')


class CacheRBF(_Base):
    """the cached fields are f(current _gp); no exception.  GPy facts (sanity-tested): kern.rbf.variance, kern.rbf.lengthscale and
    likelihood.variance are 1-element 1-D Param arrays; kern.bias.K(X) is the constant matrix bias.variance; lengthscale > 0."""
    target = GPR + '_cache_RBF_kernel'

    def setup(self, vc):
        ghost_state(vc, s := NS())
        n, d = z3.Ints('n_evidence input_dim')
        vc.fin_bounds.extend([n, d])
        s.n, s.dm = n, d
        one = (z3.IntVal(1),)
        s.var, s.ls, s.noise = SArr.fresh('rbf_variance', one), SArr.fresh('rbf_lengthscale', one), SArr.fresh('noise_variance', one)
        s.X = SArr.fresh('X', (n, d))
        s.wv, s.wi, s.wc = SArr.fresh('woodbury_vector', (n, 1)), SArr.fresh('woodbury_inv', (n, n)), SArr.fresh('woodbury_chol', (n, n))
        s.kcalls = []

        def bias_K(self_, X, X2=None):
            s.kcalls.append(X)
            if not isinstance(X, SArr) or X.ndim != 2:
                raise OutOfSubset('bias.K on a non 2-D array')
            return SArr.from_fn(lambda i, j: BIASV, (X.shape[0], X.shape[0]), 'real')
        kern = make_object('AddKernStub', attrs=dict(rbf=make_object('RBFStub', attrs=dict(variance=s.var, lengthscale=s.ls)),
                                                     bias=make_object('BiasStub', methods=dict(K=bias_K))))
        gp = new_gp(vc, s, 'gp', X=s.X, kern=kern, likelihood=make_object('GaussianStub', attrs=dict(variance=s.noise)),
                    posterior=make_object('PosteriorStub', attrs=dict(woodbury_vector=s.wv, woodbury_inv=s.wi, woodbury_chol=s.wc)))
        s.gp = gp
        s.self = make_object('GPyRegressionStub', attrs=dict(input_dim=SInt(d), _gp=gp, _rbf_is_cached=SBool(s.cached0)))
        return s, (s.self,), {}

    def requires(self, s):
        return [s.n >= 1, s.dm >= 1, s.ls.at(0) > 0]

    def ensures(self, s, result):
        o = s.self
        have = all(hasattr(o, f) for f in CACHE_FIELDS)
        if not have:
            return [('every cached field is written', z3.BoolVal(False))]
        sc = lambda v: lift(v).t if not isinstance(v, SArr) else None
        scal = [sc(getattr(o, f)) for f in CACHE_FIELDS[:4]]
        if any(t is None for t in scal):
            return [('the four kernel hyper-parameters are cached as scalars', z3.BoolVal(False))]
        rv, rf, rb, rn = [z3.ToReal(t) if t.sort() == I else t for t in scal]
        ls = s.ls.at(0)
        out = [('_rbf_var = rbf.variance, _rbf_noisevar = likelihood variance, _rbf_bias = bias variance', z3.And(rv == s.var.at(0), rn == s.noise.at(0), rb == BIASV)),
               ('_rbf_factor = -1 / (2 lengthscale^2)', rf * (2 * ls * ls) == -1),
               ('the woodbury vector / inverse / cholesky factor are the current posterior\'s',
                z3.BoolVal(o._rbf_woodbury is s.wv and o._rbf_woodbury_inv is s.wi and o._rbf_woodbury_chol is s.wc)),
               ('the cache is marked valid', _b(o._rbf_is_cached)),
               ('the model object is not replaced', z3.BoolVal(o._gp is s.gp))]
        xs = o._rbf_x2sum
        recs = cur().libcalls.get('np.sum', [])
        if not (isinstance(xs, SArr) and xs.ndim == 2 and len(recs) == 1 and recs[0].get('axis') == 1):
            return out + [('_rbf_x2sum is a (1, n) array of row sums', z3.BoolVal(False))]
        rec = recs[0]
        arr, ps = rec['arr'], rec['ps']
        out.append(('_rbf_x2sum[0, i] = sum over the coordinates c of X[i, c]^2 (np.sum along axis 1 of the elementwise squares of the evidence)',
                    z3.And(xs.shape[0] == 1, xs.shape[1] == s.n, arr.shape[0] == s.n, arr.shape[1] == s.dm,
                           forall_range(0, s.n, lambda i: z3.And(xs.at(0, i) == ps(i, s.dm), forall_range(0, s.dm, lambda c: arr.at(i, c) == s.X.at(i, c) * s.X.at(i, c), 'c')), 'i'))))
        return out


# ====================================================================================== writers of _gp
class Init(_Base):
    """__init__: no cache, not sampling, _gp as given (INV established); bounds listed in parameter order"""
    target = GPR + '__init__'

    def __init__(self, form):
        self.form = form
        self.label = form

    def setup(self, vc):
        ghost_state(vc, s := NS())
        s.self = make_object('GPyRegressionStub')
        s.gp = None
        if self.form == 'defaults':
            kw = {}
            s.want_bounds, s.want_dim = [(0, 1)], 1
        elif self.form == 'names+bounds':
            kw = dict(parameter_names=['a', 'b', 'c'], bounds={'c': (5, 6), 'a': (1, 2), 'b': (3, 4)})
            s.want_bounds, s.want_dim = [(1, 2), (3, 4), (5, 6)], 3
        else:
            s.gp = new_gp(vc, s, 'gp')
            kw = dict(parameter_names=['a'], bounds={'a': (-1, 1)}, gp=s.gp)
            s.want_bounds, s.want_dim = [(-1, 1)], 1
        return s, (s.self,), kw

    def ensures(self, s, result):
        o = s.self
        ok = all(hasattr(o, f) for f in ('_gp', '_rbf_is_cached', 'is_sampling', 'bounds', 'input_dim'))
        if not ok:
            return [('the state attributes are initialised', z3.BoolVal(False))]
        return [('no cache, not sampling, _gp as given', z3.BoolVal(o._rbf_is_cached is False and o.is_sampling is False and o._gp is s.gp)),
                ('INV established', inv(o, s)),
                ('bounds are listed in parameter order', z3.BoolVal(list(o.bounds) == s.want_bounds and o.input_dim == s.want_dim))]


def _evidence(vc, s, y_rank):
    m, d = z3.Ints('m input_dim')
    vc.fin_bounds.extend([m, d])
    s.m, s.dm = m, d
    s.x = fresh_q(vc, 'x_new', (m, d))
    s.y = fresh_q(vc, 'y_new', (m,) if y_rank == 1 else (m, 1))
    s.yat = (lambda i: s.y.at(i)) if y_rank == 1 else (lambda i: s.y.at(i, 0))


class InitGP(_Base):
    """_init_gp (first evidence): _gp := GPRegression(x, y); _kernel_is_default only for the default kernel + default noise + no mean function"""
    target = GPR + '_init_gp'

    def __init__(self, form):
        self.form = form
        self.label = form

    def setup(self, vc):
        ghost_state(vc, s := NS())
        _evidence(vc, s, 2)
        s.made, s.kdefault = [], make_object('DefaultKernelStub')
        s.kuser = make_object('UserKernelStub')
        gp_params = {'defaults': {}, 'kernel': {'kernel': s.kuser}, 'noise_var': {'noise_var': 0.25}, 'mean_function': {'mean_function': make_object('MeanStub')}}[self.form]

        def make(self_, x, y, kernel=None, noise_var=None, mean_function=None):
            g = new_gp(vc, s, 'gp_new', X=x, Y=y, created=True)        # assumed GPy fact: GPRegression(X, Y).X == X, .Y == Y
            s.made.append(dict(gp=g, x=x, y=y, kernel=kernel, noise_var=noise_var, mean_function=mean_function))
            return g
        s.self = make_object('GPyRegressionStub', attrs=dict(input_dim=SInt(s.dm), _gp=None, gp_params=gp_params, _rbf_is_cached=SBool(s.cached0)),
                             methods=dict(_make_gpy_instance=make, _default_kernel=lambda self_, x, y: s.kdefault))
        return s, (s.self, s.x, s.y), {}

    def requires(self, s):
        return [s.m >= 1, s.dm >= 1, ('INV (no model yet, hence no cache)', inv(s.self, s))]

    def ensures(self, s, result):
        o = s.self
        if len(s.made) != 1 or o._gp is not s.made[0]['gp']:
            return [('_gp is the one newly built GP model', z3.BoolVal(False))]
        mk = s.made[0]
        default = self.form == 'defaults'
        out = [('the model is built on exactly the given evidence', z3.BoolVal(mk['x'] is s.x and mk['y'] is s.y)),
               ('_kernel_is_default iff default kernel, default noise and no mean function', z3.BoolVal(o._kernel_is_default is default)),
               ('INV holds at exit', inv(o, s))]
        if default:
            out.append(('the default kernel is used', z3.BoolVal(mk['kernel'] is s.kdefault and mk['mean_function'] is None)))
        if self.form == 'kernel':
            out.append(('the user kernel is used', z3.BoolVal(mk['kernel'] is s.kuser)))
        return out


class Update(_Base):
    """update(x, y): evidence X' = X ++ x, Y' = Y ++ y in order (first call: X' = x); INV re-established"""
    target = GPR + 'update'

    def __init__(self, form):
        self.form = form          # first | later | later+optimize | later+optimize, library raises LinAlgError (the REAL optimize() inlined)
        self.label = form
        self.opt_fails = 'raises' in form
        self.vacuity_probe = form != 'first'

    def setup(self, vc):
        ghost_state(vc, s := NS())
        _evidence(vc, s, 2 if self.form == 'first' else 1)
        s.made, s.opt_calls, s.init_calls = [], [], []
        s.sampling0 = z3.Bool('is_sampling')

        def make(self_, x, y, kernel=None, noise_var=None, mean_function=None):
            g = new_gp(vc, s, 'gp_new', X=x, Y=y, kern=kernel, created=True)        # assumed GPy fact: GPRegression(X, Y).X == X, .Y == Y
            s.made.append(dict(gp=g, kernel=kernel, noise_var=noise_var, mean_function=mean_function))
            if self.opt_fails:
                def gp_optimize(gp_, optimizer=None, max_iters=None, **kw):
                    s.opt_calls.append(gp_)
                    gp_.ver = vc.fresh_int('ver_after_failed_optimize')      # the optimiser may have moved the hyper-parameters before it failed
                    raise lib_linalg_error()
                type(g).optimize = gp_optimize
            return g

        def init_gp(self_, x, y):
            # callee under contract (InitGP): pre _gp is None; post _gp = GPRegression(x, y), flag untouched
            vc.oblige('call-pre[_init_gp only while there is no model]', z3.BoolVal(self_._gp is None))
            s.init_calls.append((x, y))
            self_._gp = make(self_, x, y)
            self_._kernel_is_default = SBool(vc.fresh('kernel_is_default', B))

        def optimize(self_):
            # callee under contract (Optimize): hyper-parameters re-fitted (arbitrary new version), may touch the flag, re-establishes INV
            s.opt_calls.append(self_._gp)
            self_._gp.ver = vc.fresh_int('ver_after_optimize')
            self_._rbf_is_cached = SBool(vc.fresh('cached_after_optimize', B))
            vc.assume(inv(self_, s))
            havoc_memo_by_callee(vc, self_, s, 'optimize')
        if self.form == 'first':
            gp0 = None
        else:
            n0 = z3.Int('n_evidence')
            vc.fin_bounds.append(n0)
            s.n0 = n0
            s.X0, s.Y0 = SArr.fresh('X_old', (n0, s.dm)), SArr.fresh('Y_old', (n0, 1))
            s.kcopy = make_object('KernCopyStub')
            kern = make_object('KernStub', methods=dict(copy=lambda self_: s.kcopy))
            s.noise0 = SArr.fresh('noise_variance', (z3.IntVal(1),))
            gp0 = new_gp(vc, s, 'gp_old', X=s.X0, Y=s.Y0, kern=kern, Gaussian_noise=make_object('GaussianStub', attrs=dict(variance=s.noise0)), mean_function=None)
        s.gp0 = gp0
        members = memo_members(vc, s)
        members.update(_make_gpy_instance=make, _init_gp=init_gp, optimize=(inline(vc, GPR + 'optimize') if self.opt_fails else optimize))
        s.self = make_object('GPyRegressionStub', attrs=dict(input_dim=SInt(s.dm), _gp=gp0, is_sampling=SBool(s.sampling0), _rbf_is_cached=SBool(s.cached0)),
                             methods=members)
        if self.opt_fails:
            s.self.optimizer, s.self.max_opt_iters = 'scg', SInt(z3.Int('max_opt_iters'))
        kw = {'optimize': True} if 'optimize' in self.form else {}
        return s, (s.self, s.x, s.y), kw

    def requires(self, s):
        out = [s.m >= 1, s.dm >= 1, ('INV', inv(s.self, s)), ('INV2', inv2(s.self, s))]
        if self.form != 'first':
            out.append(s.n0 >= 1)
        return out

    def ensures(self, s, result):
        o = s.self
        gp = o._gp
        if gp is None or len(s.made) != 1 or gp is not s.made[0]['gp'] or not isinstance(gp.X, SArr) or not isinstance(gp.Y, SArr) or gp.X.ndim != 2 or gp.Y.ndim != 2:
            return [('_gp is one newly built GP model on 2-D evidence arrays', z3.BoolVal(False))]
        X, Y, m, d = gp.X, gp.Y, s.m, s.dm
        if self.form == 'first':
            n0 = z3.IntVal(0)
            out = []
        else:
            n0 = s.n0
            out = [('earlier evidence is kept unchanged and in order',
                    forall_range(0, n0, lambda i: z3.And(Y.at(i, 0) == s.Y0.at(i, 0), forall_range(0, d, lambda c: X.at(i, c) == s.X0.at(i, c), 'c')), 'i')),
                   ('kernel, noise variance and mean function are carried over to the new model',
                    z3.And(z3.BoolVal(s.made[0]['kernel'] is s.kcopy and s.made[0]['mean_function'] is None), lift(s.made[0]['noise_var']).t == s.noise0.at(0)))]
        out += [('evidence shapes: (n + m, input_dim) and (n + m, 1)', z3.And(X.shape[0] == n0 + m, X.shape[1] == d, Y.shape[0] == n0 + m, Y.shape[1] == 1)),
                ('the new evidence is appended after the old one, in order',
                 forall_range(0, m, lambda i: z3.And(Y.at(n0 + i, 0) == s.yat(i), forall_range(0, d, lambda c: X.at(n0 + i, c) == s.x.at(i, c), 'c')), 'i')),
                ('hyper-parameters are optimised iff asked for', z3.BoolVal(len(s.opt_calls) == (1 if 'optimize' in self.form else 0) and all(g is gp for g in s.opt_calls))),
                ('INV re-established: _rbf_is_cached => the cache was computed from the current _gp', inv(o, s)),
                whole_state_clause(o, s, 'after update')]
        if self.opt_fails:
            out.append(('a numerical failure of the GP optimiser is absorbed: the cache is marked stale (and the evidence above is intact)', z3.Not(_b(o._rbf_is_cached))))
        return out


class Optimize(_Base):
    """optimize(): the same model object with re-fitted hyper-parameters; INV re-established"""
    vacuity_probe = True
    target = GPR + 'optimize'

    def __init__(self, fails=False):
        self.fails = fails          # the GP library optimiser raises np.linalg.LinAlgError (its documented numerical failure mode)
        self.label = 'library raises LinAlgError' if fails else None

    def setup(self, vc):
        ghost_state(vc, s := NS())
        s.calls = []

        def gp_optimize(self_, optimizer=None, max_iters=None, **kw):
            s.calls.append((optimizer, max_iters, kw))
            self_.ver = vc.fresh_int('ver_after_optimize')       # GPy re-fits the hyper-parameters: any new state
            if self.fails:
                raise lib_linalg_error()
        gp = new_gp(vc, s, 'gp')
        type(gp).optimize = gp_optimize
        s.gp = gp
        s.self = make_object('GPyRegressionStub', attrs=dict(_gp=gp, optimizer='scg', max_opt_iters=SInt(z3.Int('max_opt_iters')),
                                                             is_sampling=SBool(z3.Bool('is_sampling')), _rbf_is_cached=SBool(s.cached0)),
                             methods=memo_members(vc, s))
        return s, (s.self,), {}

    def requires(self, s):
        return [('INV', inv(s.self, s)), ('INV2', inv2(s.self, s))]

    def ensures(self, s, result):
        o = s.self
        return [('the GP library optimiser runs once with the configured optimiser and iteration limit',
                 z3.BoolVal(len(s.calls) == 1 and s.calls[0][0] == 'scg' and s.calls[0][1] is o.max_opt_iters and not s.calls[0][2])),
                ('the model object (hence the evidence) is kept', z3.BoolVal(o._gp is s.gp)),
                ('INV re-established: _rbf_is_cached => the cache was computed from the current hyper-parameters', inv(o, s)),
                whole_state_clause(o, s, 'after optimize')] + \
            ([('a numerical failure of the GP optimiser is absorbed (no exception escapes) and the cache is marked stale', z3.Not(_b(o._rbf_is_cached)))] if self.fails else [])


class InitRejects(_Base):
    """__init__ input validation: the three documented ValueError branches"""
    target = GPR + '__init__'
    cover = False

    def __init__(self, form):
        self.form = form
        self.label = 'rejects ' + form

    def setup(self, vc):
        ghost_state(vc, s := NS())
        s.self = make_object('GPyRegressionStub')
        kw = {'parameter_names is a string': dict(parameter_names='ab', bounds={'ab': (0, 1)}),
              'bounds of the wrong length': dict(parameter_names=['a', 'b'], bounds={'a': (0, 1)}),
              'bounds not a dict': dict(parameter_names=['a', 'b'], bounds=[(0, 1), (0, 1)])}[self.form]
        return s, (s.self,), kw

    def raises(self, s):
        return {'ValueError': z3.BoolVal(True)}

    def ensures(self, s, result):
        return [('invalid configuration is rejected with ValueError', z3.BoolVal(False))]


CONTRACTS = [FastPathProtocol('predict'), FastPathProtocol('predictive_gradients'), NoModelYet('predict'), NoModelYet('predictive_gradients'),
             CacheRBF(), Init('defaults'), Init('names+bounds'), Init('gp-given'), InitGP('defaults'), InitGP('kernel'), InitGP('noise_var'), InitGP('mean_function'),
             Update('first'), Update('later'), Update('later+optimize'), Update('later+optimize, library raises LinAlgError'), Optimize(), Optimize(fails=True),
             InitRejects('parameter_names is a string'), InitRejects('bounds of the wrong length'), InitRejects('bounds not a dict')]
