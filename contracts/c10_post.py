"""C10, SMT tier, part 1: BolfiPosterior._within_bounds / _unnormalized_loglikelihood / logpdf / pdf on the REAL bodies.

Spec functions (independent of the code):
  lo(i), hi(i)        the surrogate's bounds  (model.bounds[i] = (lo(i), hi(i)))
  inside(r)           forall i in [0, dim). lo(i) <= x[r, i] <= hi(i)           (closed box)
  logPhi(t)           log of the standard normal cdf (uninterpreted)
  sqrt                the engine's uninterpreted real square root
The surrogate (`self.model`) and the prior are stub objects: predict(q) returns fresh (k, 1) arrays mean, var with var > 0
(assumed contract of the surrogate: a noisy GP prediction variance is positive); prior.logpdf is an uninterpreted row-wise
extended-real function with values in [-inf, +inf).

-inf: `_unnormalized_loglikelihood` is analysed in real mode with the engine's constant INF (np.inf): rows outside the box
keep the value -INF, no arithmetic is done on them.  `logpdf` / `pdf` add / exponentiate such values, so there the callee
results are extended reals (pyvc.extreal tags FIN / NINF / PINF / NAN, IEEE tables sanity-tested against numpy)."""
import z3

from pyvc.core import cur, forall_range, OutOfSubset
from pyvc.engine import Contract, Loop, NS, make_object
from pyvc.values import SInt, SReal, SBool, Sym, lift
from pyvc.sarray import SArr, Cell, conc, zi, ew1, ew2, _rdiv
from pyvc import npspec, extreal
from pyvc.extreal import XReal, FIN, NINF, PINF, NAN
from pyvc.npspec import INF, _sqrt, _exp

R, I, B = z3.RealSort(), z3.IntSort(), z3.BoolSort()
LOGPHI = z3.Function('logPhi', R, R)
LO = z3.Function('lo', I, R)
HI = z3.Function('hi', I, R)
POST = 'elfi/methods/posteriors.py::BolfiPosterior.'


# ====================================================================================== library / object models
class QArr(SArr):
    """a query array.  numpy facts used (sanity-tested): for c >= 1, reshape((-1, c)) of an (n, c) array is the array itself
    and of a (c,) array the (1, c) array with the same entries; everything else goes through the general npspec.reshape."""

    def reshape(self, *shape):
        if len(shape) == 1 and isinstance(shape[0], (tuple, list)):
            shape = tuple(shape[0])
        if len(shape) == 2 and isinstance(shape[0], int) and shape[0] == -1:
            c = zi(shape[1])
            if self.ndim == 2 and z3.eq(z3.simplify(c), z3.simplify(self.shape[1])):
                cur().oblige('call-pre[reshape((-1, c)): c >= 1]', c >= 1)
                return self
            if self.ndim == 1 and z3.eq(z3.simplify(c), z3.simplify(self.shape[0])):
                cur().oblige('call-pre[reshape((-1, c)): c >= 1]', c >= 1)
                src = self.snapshot()
                return SArr(Cell(lambda i, j: src.at(j), (z3.IntVal(1), self.shape[0]), self.kind))
        return npspec.reshape(self, shape)


def fresh_q(vc, name, shape, kind='real'):
    shape = tuple(zi(s) for s in shape)
    sort = {'real': R, 'int': I, 'bool': B}[kind]
    if not shape:
        c = vc.fresh(name, sort)
        return QArr(Cell(lambda: c, (), kind), name=name)
    f = vc.fresh_fn(name, *([I] * len(shape) + [sort]))
    return QArr(Cell(lambda *i: f(*i), shape, kind), name=name)


class Bounds(Sym):
    """model.bounds: a list of `dim` pairs (lo(i), hi(i))"""

    def __init__(self, dim):
        self.dim = zi(dim)
        self.t = None

    def __getitem__(self, i):
        it = zi(i)
        cur().oblige('call-pre[bounds index in range]', z3.And(it >= 0, it < self.dim))
        return (SReal(LO(it)), SReal(HI(it)))

    def _vc_len(self):
        return SInt(self.dim)


def inside(row, dim):
    """row(c) -> term of coordinate c; the closed box"""
    return forall_range(0, dim, lambda c: z3.And(LO(c) <= row(c), row(c) <= HI(c)), 'c')


def all_elems(a, pred):
    """forall index tuples of the array a: pred(element term)"""
    def rec(prefix, d):
        if d == a.ndim:
            return pred(a.at(*prefix))
        return forall_range(0, a.shape[d], lambda i: rec(prefix + [i], d + 1), 'e%d' % d)
    return rec([], 0)


def sqrt_pos(x):
    """np.sqrt with the fact the contracts need:  v > 0  =>  sqrt(v) > 0  (assumed of the real square root)"""
    r = npspec.sqrt(x)
    if isinstance(x, SArr):
        src = x.snapshot()
        cur().assume(all_elems(src, lambda v: z3.Implies(v > 0, _sqrt(v) > 0)))
    else:
        t = lift(x).t
        cur().assume(z3.Implies(t > 0, _sqrt(t) > 0))
    return r


class ColArr(SArr):
    """a (k, 1) array returned by a scipy.stats call; numpy's squeeze() gives a 0-d array when k == 1 (modelled as the scalar:
    it is only broadcast into an assignment) and the (k,) array otherwise"""

    def squeeze(self):
        if self.ndim == 2 and conc(self.shape[1]) == 1 and conc(self.shape[0]) is None:
            if cur().branch(self.shape[0] == 1):
                return SReal(self.at(0, 0))
            s = self.snapshot()
            return SArr(Cell(lambda i: s.at(i, 0), (self.shape[0],), self.kind))
        return SArr.squeeze(self)


def _standardise(x, loc, scale):
    """(x - loc) / scale with numpy broadcasting; obligation: scale > 0 (scipy returns nan otherwise)"""
    vc = cur()
    if isinstance(scale, SArr):
        vc.oblige('call-pre[scipy.stats.norm: scale > 0]', all_elems(scale.snapshot(), lambda v: v > 0))
    else:
        vc.oblige('call-pre[scipy.stats.norm: scale > 0]', lift(scale).t > 0)
    if not any(isinstance(a, SArr) for a in (x, loc, scale)):
        return SReal((npspec._real(x) - npspec._real(loc)) / npspec._real(scale))
    num = ew2(x, loc, lambda a, b: a - b) if (isinstance(x, SArr) or isinstance(loc, SArr)) else lift(x) - lift(loc)
    if isinstance(num, SArr) or isinstance(scale, SArr):
        return ew2(num, scale, _rdiv, 'real')
    return SReal(num.t / npspec._real(scale))


class NormSpec:
    """scipy.stats.norm: logcdf(x, loc, scale) = logPhi((x - loc) / scale) elementwise after broadcasting (assumed, sanity-tested)"""

    @staticmethod
    def logcdf(x, loc=0, scale=1):
        z = _standardise(x, loc, scale)
        cur().libcall('ss.norm.logcdf', dict(x=x, loc=loc, scale=scale))
        if isinstance(z, SArr):
            src = z.snapshot()
            return ColArr(Cell(lambda *i: LOGPHI(src.at(*i)), src.shape, 'real'))
        return SReal(LOGPHI(z.t))


    @staticmethod
    def cdf(x, loc=0, scale=1):
        z = _standardise(x, loc, scale)
        cur().libcall('ss.norm.cdf', dict(x=x, loc=loc, scale=scale))
        return _phi_of(z)


class SsSpec:
    norm = NormSpec


# ---- scipy.special.ndtr / log_ndtr, scipy.stats.norm.cdf and np.log of them.  logPhi is DEFINED as log o Phi over the reals, so the analysed
# code may reach it as norm.logcdf(x, loc, scale), log_ndtr(z), np.log(ndtr(z)) or np.log(norm.cdf(...)): these are equal over the REALS ONLY
# (assumption A-REAL).  In double precision Phi(z) underflows to 0 for z < about -38.5 while log Phi(z) is finite: that difference is outside
# this tier and is the business of the tail stand-in (bounded/c10.py run_tails, oracle scipy.special.log_ndtr, relative tolerance).
PHI = z3.Function('Phi', R, R)


class PhiArr(ColArr):
    """elementwise Phi(z); remembers z (attribute phi_arg) through squeeze()"""

    def squeeze(self):
        r = ColArr.squeeze(self)
        a = self.phi_arg
        if isinstance(r, SArr):
            src = SArr(Cell(lambda i: a.at(i, 0), (a.shape[0],), 'real')) if (a.ndim == 2 and r.ndim == 1) else None
            if src is None:
                return r
            out = PhiArr(Cell(lambda i: PHI(src.at(i)), src.shape, 'real'))
            out.phi_arg = src
            return out
        out = PhiReal(lift(r).t)
        out.phi_arg = SReal(a.at(0, 0))
        return out


class PhiReal(SReal):
    pass


def _phi_of(z):
    if isinstance(z, SArr):
        src = z.snapshot()
        out = PhiArr(Cell(lambda *i: PHI(src.at(*i)), src.shape, 'real'))
        out.phi_arg = src
        return out
    zt = lift(z)
    out = PhiReal(PHI(zt.t))
    out.phi_arg = zt
    return out


def _logphi_of(z):
    if isinstance(z, SArr):
        src = z.snapshot()
        return ColArr(Cell(lambda *i: LOGPHI(src.at(*i)), src.shape, 'real'))
    return SReal(LOGPHI(lift(z).t))


def ndtr_spec(z):
    cur().libcall('scipy.special.ndtr', dict(z=z))
    return _phi_of(z)


def log_ndtr_spec(z):
    cur().libcall('scipy.special.log_ndtr', dict(z=z))
    return _logphi_of(z)


def log_spec(x):
    """np.log; log(Phi(z)) = logPhi(z) by definition of logPhi (reals only, see above)"""
    arg = getattr(x, 'phi_arg', None)
    if arg is not None:
        cur().libcall('np.log(Phi)', dict(z=arg))
        return _logphi_of(arg)
    return npspec.log(x)


class SpecialSpec:
    """scipy.special: ndtr, log_ndtr; anything else is outside the spec table"""
    ndtr = staticmethod(ndtr_spec)
    log_ndtr = staticmethod(log_ndtr_spec)


def scipy_names(vc, path='elfi/methods/posteriors.py'):
    """names the analysed MODULE binds to scipy.special / its ndtr, log_ndtr (import statements read from the tree) -> env entries"""
    import ast
    from pyvc import instrument
    src, tree = instrument._parse(path, vc.repo)
    out = {}
    table = {'ndtr': ndtr_spec, 'log_ndtr': log_ndtr_spec}
    for n in tree.body:
        if isinstance(n, ast.ImportFrom) and n.module == 'scipy.special':
            for a in n.names:
                if a.name in table:
                    out[a.asname or a.name] = table[a.name]
        elif isinstance(n, ast.ImportFrom) and n.module == 'scipy':
            for a in n.names:
                if a.name == 'special':
                    out[a.asname or a.name] = SpecialSpec
        elif isinstance(n, ast.Import):
            for a in n.names:
                if a.name == 'scipy.special' and a.asname:
                    out[a.asname] = SpecialSpec
    return out


# ====================================================================================== _within_bounds
class WithinBounds(Contract):
    """logical[r] <=> forall i. lo_i <= x[r, i] <= hi_i for an (n, dim) query; n, dim symbolic (loop invariant)"""
    target = POST + '_within_bounds'
    prop = 'C10'
    fin = 3

    def setup(self, vc):
        n, d = z3.Ints('n dim')
        vc.fin_bounds.extend([n, d])
        x = fresh_q(vc, 'x', (n, d))
        model = make_object('SurrogateStub', attrs=dict(bounds=Bounds(d)))
        s = NS(n=n, dm=d, x=x)
        s.self = make_object('BolfiPosteriorStub', attrs=dict(dim=SInt(d), model=model))
        return s, (s.self, x), {}

    def requires(self, s):
        return [s.n >= 0, s.dm >= 1]

    def _inv(self, s, l):
        lg = l.logical
        if not isinstance(lg, SArr) or lg.ndim != 1 or lg.kind != 'bool':
            return [('logical is a 1-D bool array', z3.BoolVal(False))]
        it = l.it.index
        return [('one entry per query row', lg.shape[0] == s.n),
                ('logical[r] <=> the first `i` coordinates of row r are inside their bounds',
                 forall_range(0, s.n, lambda r: lg.at(r) == inside(lambda c: s.x.at(r, c), it), 'r'))]

    @property
    def loops(self):
        return {0: Loop(inv=self._inv)}

    def ensures(self, s, result):
        if not isinstance(result, SArr) or result.ndim != 1 or result.kind != 'bool':
            return [('the result is a 1-D bool array', z3.BoolVal(False))]
        return [('one entry per query row', result.shape[0] == s.n),
                ('logical[r] <=> forall i. lo_i <= x[r, i] <= hi_i (closed on the boundary)',
                 forall_range(0, s.n, lambda r: result.at(r) == inside(lambda c: s.x.at(r, c), s.dm), 'r'))]

    def witness(self, vc, model, ob):
        ev = lambda t: str(model.eval(t, model_completion=True))
        n, d = z3.Ints('n dim')
        return dict(n=ev(n), dim=ev(d), lo=[ev(LO(z3.IntVal(i))) for i in range(3)], hi=[ev(HI(z3.IntVal(i))) for i in range(3)])


# ====================================================================================== query shapes
CASES = ('scalar', 'point', 'batch1', '2d')


def make_query(vc, case):
    """-> (x, dim (python int or z3 Int), n rows term, row(r, c) -> term, scalar_result?)"""
    if case == 'scalar':            # 0-d query, dim = 1
        x = fresh_q(vc, 'x', ())
        return x, 1, z3.IntVal(1), (lambda r, c: x.at()), True
    if case == 'point':             # 1-D query of length dim > 1: one point
        d = z3.Int('dim')
        vc.fin_bounds.append(d)
        x = fresh_q(vc, 'x', (d,))
        return x, d, z3.IntVal(1), (lambda r, c: x.at(c)), True
    if case == 'batch1':            # 1-D query, dim = 1: n points
        n = z3.Int('n')
        vc.fin_bounds.append(n)
        x = fresh_q(vc, 'x', (n,))
        return x, 1, n, (lambda r, c: x.at(r)), False
    if case == '2d':                # (n, dim) query
        n, d = z3.Ints('n dim')
        vc.fin_bounds.extend([n, d])
        x = fresh_q(vc, 'x', (n, d))
        return x, d, n, (lambda r, c: x.at(r, c)), False
    raise ValueError(case)


def query_requires(case, n, d):
    out = []
    if case == 'point':
        out.append(d > 1)
    if case == 'batch1':
        out.append(n >= 0)
    if case == '2d':
        out += [n >= 0, d >= 1]
    return out


class UnnormLogLik(Contract):
    """rows inside: logPhi((h - mean)/sqrt(var)) of the surrogate's answer for that row; rows outside: -inf; answer shape follows the
    query shape.  `_within_bounds` is replaced by its contract (WithinBounds), the surrogate by the stub described in the module docstring."""
    target = POST + '_unnormalized_loglikelihood'
    prop = 'C10'
    fin = 3

    def __init__(self, case):
        self.case = case
        self.label = case

    def env(self, vc):
        e = scipy_names(vc)
        e.update({'ss': SsSpec, 'np': npspec.module(extra={'sqrt': sqrt_pos, 'log': log_spec})})
        return e

    def setup(self, vc):
        x, d, n, row, scalar = make_query(vc, self.case)
        h = z3.Real('threshold')
        s = NS(x=x, dz=zi(d), n=n, row=row, scalar=scalar, h=h, logi=None, pred=None, wb_calls=0)

        def within_bounds(xq):
            # callee under contract (WithinBounds): pre = an (n, dim) array; post = res[r] <=> inside(row r)
            if not isinstance(xq, SArr) or xq.ndim != 2:
                raise OutOfSubset('_within_bounds called with a non 2-D array')
            vc.oblige('call-pre[_within_bounds: query has dim columns]', xq.shape[1] == s.dz)
            s.wb_calls += 1
            src = xq.snapshot()
            inb = vc.fresh_fn('inb', I, B)
            vc.assume(forall_range(0, src.shape[0], lambda r: inb(r) == inside(lambda c: src.at(r, c), s.dz), 'r'))
            s.logi = SArr(Cell(lambda r: inb(r), (src.shape[0],), 'bool'))
            s.rows = src
            return s.logi

        def predict(q, noiseless=False):
            if not isinstance(q, SArr) or q.ndim != 2:
                raise OutOfSubset('predict called with a non 2-D array')
            if noiseless is not False:
                vc.oblige('call-pre[the posterior uses the NOISY prediction]', z3.BoolVal(False))
            if s.pred is not None:
                raise OutOfSubset('second predict call')
            k = q.shape[0]
            mean, var = SArr.fresh('mean', (k, 1)), SArr.fresh('var', (k, 1))
            vc.assume(forall_range(0, k, lambda j: var.at(j, 0) > 0, 'j'))
            s.pred = dict(q=q.snapshot(), mean=mean, var=var)
            return mean, var
        model = make_object('SurrogateStub', attrs=dict(bounds=Bounds(s.dz)), methods=dict(predict=lambda self_, q, noiseless=False: predict(q, noiseless)))
        s.self = make_object('BolfiPosteriorStub', attrs=dict(dim=(d if isinstance(d, int) else SInt(d)), model=model, threshold=SReal(h)),
                             methods=dict(_within_bounds=lambda self_, xq: within_bounds(xq)))
        return s, (s.self, x), {}

    def requires(self, s):
        return query_requires(self.case, s.n, s.dz)

    def ensures(self, s, result):
        if s.logi is None or s.wb_calls != 1:
            return [('the bounds test is evaluated once on the query rows', z3.BoolVal(False))]
        n, d = s.n, s.dz
        k, sel, rank, m = s.logi.select()
        out = [('the bounds test sees the query rows (one row per point, dim columns)',
                z3.And(s.rows.shape[0] == n, forall_range(0, n, lambda r: forall_range(0, d, lambda c: s.rows.at(r, c) == s.row(r, c), 'c'), 'r')))]
        if s.scalar:
            if not isinstance(result, SReal):
                return out + [('scalar / single-point query gives a scalar answer', z3.BoolVal(False))]
            res = lambda r: result.t
        else:
            if not isinstance(result, SArr) or result.ndim != 1:
                return out + [('n-point query gives a 1-D answer', z3.BoolVal(False))]
            out.append(('n-point query gives n answers', result.shape[0] == n))
            res = lambda r: result.at(r)
        ins = lambda r: inside(lambda c: s.row(r, c), d)
        out.append(('outside the bounds the log-likelihood is -inf', forall_range(0, n, lambda r: z3.Implies(z3.Not(ins(r)), res(r) == -INF), 'r')))
        if s.pred is not None:
            q, mean, var = s.pred['q'], s.pred['mean'], s.pred['var']
            out.append(('the surrogate is asked about exactly the rows inside the bounds, in order',
                        z3.And(q.shape[0] == k, q.shape[1] == d,
                               forall_range(0, k, lambda j: forall_range(0, d, lambda c: q.at(j, c) == s.row(sel(j), c), 'c'), 'j'))))
            out.append(('inside the bounds: log Phi((threshold - mean)/sqrt(var)) of the surrogate\'s noisy prediction for that row',
                        forall_range(0, n, lambda r: z3.Implies(ins(r), res(r) == LOGPHI((s.h - mean.at(rank(r), 0)) / _sqrt(var.at(rank(r), 0)))), 'r')))
        else:
            out.append(('the surrogate is skipped only when no row is inside the bounds', forall_range(0, n, lambda r: z3.Not(ins(r)), 'r')))
        return out

    def witness(self, vc, model, ob):
        return dict(case=self.case)


# ====================================================================================== logpdf / pdf over extended reals
class XArr(Sym):
    """1-D array of extended reals (numpy float64 array that may hold -inf/+inf/nan): element i = XReal(tag(i), val(i))"""

    def __init__(self, n, tag, val):
        self.n, self.tag, self.val = zi(n), tag, val
        self.t = None

    def at(self, i):
        return XReal(self.tag(i), self.val(i))

    @property
    def shape(self):
        return (self.n,)

    ndim = 1

    def _vc_len(self):
        return SInt(self.n)

    def _zip(self, o, f):
        if isinstance(o, XArr):
            cur().oblige('call-pre[operands could be broadcast together]', z3.Or(self.n == o.n, self.n == 1, o.n == 1))
            if not z3.eq(z3.simplify(self.n), z3.simplify(o.n)):
                raise OutOfSubset('broadcast of extended-real arrays of different symbolic lengths')
            return XArr(self.n, lambda i: f(self.at(i), o.at(i)).tag, lambda i: f(self.at(i), o.at(i)).v)
        x = XReal.of(o)
        if x is None:
            return NotImplemented
        return XArr(self.n, lambda i: f(self.at(i), x).tag, lambda i: f(self.at(i), x).v)

    def __add__(self, o): return self._zip(o, lambda a, b: a + b)
    def __radd__(self, o): return self._zip(o, lambda a, b: b + a)
    def __sub__(self, o): return self._zip(o, lambda a, b: a - b)
    def __mul__(self, o): return self._zip(o, lambda a, b: a * b)
    def __rmul__(self, o): return self._zip(o, lambda a, b: b * a)
    def __neg__(self): return XArr(self.n, lambda i: (-self.at(i)).tag, lambda i: (-self.at(i)).v)


def x_exp(x):
    """np.exp over extended reals: exp(-inf) = 0, exp(+inf) = +inf, exp(nan) = nan, exp(finite v) = exp(v)"""
    if isinstance(x, XArr):
        return XArr(x.n, lambda i: extreal._exp_parts(x.at(i), _exp(x.val(i))).tag, lambda i: extreal._exp_parts(x.at(i), _exp(x.val(i))).v)
    if isinstance(x, XReal):
        return extreal._exp_parts(x, _exp(x.v))
    return npspec.exp(x)


LL = z3.Function('loglik', I, R)                 # log Phi((h - mean_r)/sd_r) for query row r (value of the callee for a row inside the bounds)
INB = z3.Function('inside_row', I, B)            # row r is inside the bounds
PT = z3.Function('logprior.tag', I, extreal.XTag)
PV = z3.Function('logprior.val', I, R)


class LogPdf(Contract):
    """logpdf = log-likelihood + log prior inside the bounds, -inf outside (IEEE addition on -inf), same answer shape as the callees.
    Callees by contract: _unnormalized_loglikelihood (UnnormLogLik: finite logPhi value inside, -inf outside) and prior.logpdf
    (row-wise, values in [-inf, +inf), same shape convention: elfi.model.extensions.ModelPrior, property C08)."""
    target = POST + 'logpdf'
    prop = 'C10'
    fin = 3

    def __init__(self, scalar):
        self.scalar = scalar
        self.label = 'scalar-answer' if scalar else 'array-answer'

    def _callee_values(self, vc, s):
        ll_tag = lambda r: z3.If(INB(r), FIN, NINF)
        if self.scalar:
            return XReal(ll_tag(z3.IntVal(0)), LL(z3.IntVal(0))), XReal(PT(z3.IntVal(0)), PV(z3.IntVal(0)))
        return XArr(s.n, ll_tag, lambda r: LL(r)), XArr(s.n, lambda r: PT(r), lambda r: PV(r))

    def setup(self, vc):
        n = z3.IntVal(1) if self.scalar else z3.Int('n')
        if not self.scalar:
            vc.fin_bounds.append(n)
        x = fresh_q(vc, 'x', ())           # opaque for this function: it is only passed on
        s = NS(n=n, x=x, calls=[])
        ll, pr = self._callee_values(vc, s)

        def ull(self_, xq):
            s.calls.append(('ll', xq))
            return ll

        def prior_logpdf(self_, xq):
            s.calls.append(('prior', xq))
            return pr
        prior = make_object('PriorStub', methods=dict(logpdf=prior_logpdf))
        s.self = make_object('BolfiPosteriorStub', attrs=dict(prior=prior), methods=dict(_unnormalized_loglikelihood=ull))
        return s, (s.self, x), {}

    def requires(self, s):
        return [s.n >= 0, ('the prior log density is never +inf or nan', forall_range(0, s.n, lambda r: z3.And(PT(r) != PINF, PT(r) != NAN), 'r'))]

    def _result_at(self, s, result):
        if self.scalar:
            return (lambda r: result) if isinstance(result, XReal) else None
        return (lambda r: result.at(r)) if isinstance(result, XArr) else None

    def ensures(self, s, result):
        at = self._result_at(s, result)
        if at is None:
            return [('answer has the shape of the callees\' answers', z3.BoolVal(False))]
        out = [('both terms are evaluated at the query x', z3.BoolVal(sorted(c[0] for c in s.calls) == ['ll', 'prior'] and all(c[1] is s.x for c in s.calls)))]
        if not self.scalar:
            out.append(('one answer per query row', result.n == s.n))
        out += [('outside the bounds the log posterior is -inf', forall_range(0, s.n, lambda r: z3.Implies(z3.Not(INB(r)), at(r).tag == NINF), 'r')),
                ('inside the bounds: log-likelihood + log prior (finite prior)',
                 forall_range(0, s.n, lambda r: z3.Implies(z3.And(INB(r), PT(r) == FIN), z3.And(at(r).tag == FIN, at(r).v == LL(r) + PV(r))), 'r')),
                ('inside the bounds where the prior density is 0: -inf',
                 forall_range(0, s.n, lambda r: z3.Implies(z3.And(INB(r), PT(r) == NINF), at(r).tag == NINF), 'r'))]
        return out

    def witness(self, vc, model, ob):
        return dict(scalar=self.scalar)


LPT = z3.Function('logpdf.tag', I, extreal.XTag)
LPV = z3.Function('logpdf.val', I, R)


class Pdf(Contract):
    """pdf = exp(logpdf): 0 where logpdf = -inf, exp(value) elsewhere; likewise _unnormalized_likelihood = exp(_unnormalized_loglikelihood)"""
    prop = 'C10'
    fin = 3

    def __init__(self, scalar, fn='pdf', callee='logpdf'):
        self.scalar = scalar
        self.target = POST + fn
        self.callee = callee
        self.label = 'scalar-answer' if scalar else 'array-answer'

    def env(self, vc):
        return {'np': npspec.module(extra={'exp': x_exp})}

    def setup(self, vc):
        n = z3.IntVal(1) if self.scalar else z3.Int('n')
        if not self.scalar:
            vc.fin_bounds.append(n)
        x = fresh_q(vc, 'x', ())
        s = NS(n=n, x=x, calls=[])
        lp = XReal(LPT(z3.IntVal(0)), LPV(z3.IntVal(0))) if self.scalar else XArr(n, lambda r: LPT(r), lambda r: LPV(r))

        def logpdf(self_, xq):
            s.calls.append(xq)
            return lp
        s.self = make_object('BolfiPosteriorStub', methods={self.callee: logpdf})
        return s, (s.self, x), {}

    def requires(self, s):
        return [s.n >= 0, ('logpdf is finite or -inf (LogPdf)', forall_range(0, s.n, lambda r: z3.Or(LPT(r) == FIN, LPT(r) == NINF), 'r'))]

    def ensures(self, s, result):
        if self.scalar:
            at = (lambda r: result) if isinstance(result, XReal) else None
        else:
            at = (lambda r: result.at(r)) if isinstance(result, XArr) else None
        if at is None:
            return [('answer has the shape of logpdf\'s answer', z3.BoolVal(False))]
        out = [('logpdf is evaluated once at the query x', z3.BoolVal(len(s.calls) == 1 and s.calls[0] is s.x))]
        if not self.scalar:
            out.append(('one answer per query row', result.n == s.n))
        out += [('pdf is 0 where the log posterior is -inf', forall_range(0, s.n, lambda r: z3.Implies(LPT(r) == NINF, z3.And(at(r).tag == FIN, at(r).v == 0)), 'r')),
                ('pdf = exp(logpdf) elsewhere', forall_range(0, s.n, lambda r: z3.Implies(LPT(r) == FIN, z3.And(at(r).tag == FIN, at(r).v == _exp(LPV(r)))), 'r'))]
        return out

    def witness(self, vc, model, ob):
        return dict(scalar=self.scalar)


GL = z3.Function('grad_loglik', I, I, R)
GPR_ = z3.Function('grad_logprior', I, I, R)


class GradLogPdf(Contract):
    """gradient_logpdf = gradient of the log-likelihood + gradient of the log prior, entry by entry, in the callees' answer shape"""
    target = POST + 'gradient_logpdf'
    prop = 'C10'
    fin = 3

    def __init__(self, point):
        self.point = point
        self.label = 'single-point answer (dim,)' if point else 'answer (n, dim)'

    def setup(self, vc):
        n, d = (z3.IntVal(1) if self.point else z3.Int('n')), z3.Int('dim')
        vc.fin_bounds.extend([d] if self.point else [n, d])
        x = fresh_q(vc, 'x', ())
        s = NS(n=n, dm=d, x=x, calls=[])
        if self.point:
            a = SArr.from_fn(lambda c: GL(0, c), (d,), 'real')
            b = SArr.from_fn(lambda c: GPR_(0, c), (d,), 'real')
        else:
            a = SArr.from_fn(lambda r, c: GL(r, c), (n, d), 'real')
            b = SArr.from_fn(lambda r, c: GPR_(r, c), (n, d), 'real')

        def gll(self_, xq):
            s.calls.append(('ll', xq))
            return a

        def gprior(self_, xq, stepsize=None):
            s.calls.append(('prior', xq))
            return b
        s.self = make_object('BolfiPosteriorStub', attrs=dict(prior=make_object('PriorStub', methods=dict(gradient_logpdf=gprior))),
                             methods=dict(_gradient_unnormalized_loglikelihood=gll))
        return s, (s.self, x), {}

    def requires(self, s):
        return [s.n >= 0, s.dm >= 1]

    def ensures(self, s, result):
        rank = 1 if self.point else 2
        if not isinstance(result, SArr) or result.ndim != rank:
            return [('the answer has the shape of the callees\' answers', z3.BoolVal(False))]
        at = (lambda r, c: result.at(c)) if self.point else (lambda r, c: result.at(r, c))
        shape_ok = result.shape[0] == s.dm if self.point else z3.And(result.shape[0] == s.n, result.shape[1] == s.dm)
        return [('both terms are evaluated at the query x', z3.BoolVal(sorted(c[0] for c in s.calls) == ['ll', 'prior'] and all(c[1] is s.x for c in s.calls))),
                ('answer shape', shape_ok),
                ('gradient of the log posterior = gradient of the log-likelihood + gradient of the log prior',
                 forall_range(0, s.n, lambda r: forall_range(0, s.dm, lambda c: at(r, c) == GL(r, c) + GPR_(r, c), 'c'), 'r'))]

    def witness(self, vc, model, ob):
        return dict(point=self.point)


# ====================================================================================== __init__: the threshold the user gave
MINVAL = z3.Real('gp_mean_minimum')


def sibling_methods(vc, cls_qual, path, skip):
    """every other method of the class, as the REAL function inlined from the tree under analysis (pyvc.engine.inline): a constructor that
    delegates to a helper method of its class stays in the subset; a method the front end cannot instrument is left out (calling it is then
    an engine limit -> undecided, fail closed)"""
    import ast
    from pyvc import instrument
    from pyvc.engine import inline
    src, tree = instrument._parse(path, vc.repo)
    out = {}
    for n in tree.body:
        if isinstance(n, ast.ClassDef) and n.name == cls_qual:
            for f in n.body:
                if isinstance(f, ast.FunctionDef) and f.name not in skip and not f.decorator_list:
                    try:
                        out[f.name] = inline(vc, '%s::%s.%s' % (path, cls_qual, f.name))
                    except OutOfSubset:
                        pass
    return out


class _NoopBase:
    def __init__(self, *a, **kw):
        pass


class PosteriorInit(Contract):
    """BolfiPosterior.__init__: self.threshold is the threshold the caller gave, for EVERY given value (0 included); the minimum of the GP
    mean (elfi.methods.bo.utils.minimize, a recording stub) is used iff threshold is None"""
    target = POST + '__init__'
    prop = 'C10'
    fin = 3

    def __init__(self, form):
        self.form = form            # real | int-0 | float-0.0 | none
        self.label = 'threshold ' + form

    def env(self, vc):
        s = self._s
        rnd = type('random', (), {'RandomState': staticmethod(lambda seed=None: s.rs)})

        def minimize(fun, bounds, *a, **kw):
            s.min_calls.append(dict(fun=fun, bounds=bounds, args=a, kw=kw))
            return make_object('MinLocStub'), SReal(MINVAL)
        return {'np': npspec.module(extra={'random': rnd}), 'minimize': minimize, 'super': lambda *a: _NoopBase(), 'BolfiPosterior': object}

    def setup(self, vc):
        h = z3.Real('threshold')
        s = NS(h=h, min_calls=[], rs=make_object('RandomStateStub'))
        self._s = s
        s.given = {'real': SReal(h), 'int-0': 0, 'float-0.0': 0.0, 'none': None}[self.form]
        s.model = make_object('SurrogateStub', attrs=dict(input_dim=SInt(z3.Int('dim')), bounds=make_object('BoundsStub'),
                                                           predict_mean=make_object('PredictMeanStub'), predictive_gradient_mean=make_object('GradMeanStub')))
        s.prior = make_object('PriorStub')
        methods = sibling_methods(vc, 'BolfiPosterior', 'elfi/methods/posteriors.py', skip=('__init__',))
        methods['_vc_super'] = lambda self_: _NoopBase()
        s.self = make_object('BolfiPosteriorStub', methods=methods)
        s.n_inits, s.iters = SInt(z3.Int('n_inits')), SInt(z3.Int('max_opt_iters'))
        return s, (s.self, s.model), dict(threshold=s.given, prior=s.prior, n_inits=s.n_inits, max_opt_iters=s.iters, seed=SInt(z3.Int('seed')))

    def ensures(self, s, result):
        o = s.self
        if not all(hasattr(o, f) for f in ('threshold', 'model', 'prior', 'dim')):
            return [('threshold, model, prior and dim are set', z3.BoolVal(False))]
        out = [('model and prior are the given objects, dim is the surrogate\'s input dimension',
                z3.And(z3.BoolVal(o.model is s.model and o.prior is s.prior), lift(o.dim).t == z3.Int('dim')))]
        th = o.threshold
        if self.form == 'none':
            ok = len(s.min_calls) == 1
            if ok:
                c = s.min_calls[0]
                ok = c['fun'] is s.model.predict_mean and c['bounds'] is s.model.bounds and not c['args'] and c['kw'].get('grad') is s.model.predictive_gradient_mean and \
                    c['kw'].get('prior') is s.prior and c['kw'].get('n_start_points') is s.n_inits and c['kw'].get('maxiter') is s.iters and c['kw'].get('random_state') is s.rs
            out.append(('no threshold given: the GP mean is minimised once over the surrogate\'s bounds (its gradient, the prior, n_inits starts, max_opt_iters)', z3.BoolVal(ok)))
            out.append(('no threshold given: the threshold is the minimum found', lift(th).t == MINVAL if th is not None else z3.BoolVal(False)))
            return out
        want = s.h if self.form == 'real' else z3.RealVal(0)
        if th is None or isinstance(th, bool):
            return out + [('the threshold is the one the caller gave', z3.BoolVal(False))]
        t = lift(th).t
        t = z3.ToReal(t) if t.sort() == I else t
        out.append(('the threshold is the one the caller gave (every value, 0 included)', t == want))
        out.append(('a given threshold is never replaced by an optimisation of the GP mean', z3.BoolVal(len(s.min_calls) == 0)))
        return out

    def witness(self, vc, model, ob):
        return dict(form=self.form, threshold=str(model.eval(z3.Real('threshold'), model_completion=True)))


CONTRACTS = [WithinBounds()] + [UnnormLogLik(c) for c in CASES] + [LogPdf(True), LogPdf(False), Pdf(True), Pdf(False),
                                                                       Pdf(True, '_unnormalized_likelihood', '_unnormalized_loglikelihood'), Pdf(False, '_unnormalized_likelihood', '_unnormalized_loglikelihood'),
                                                                       GradLogPdf(True), GradLogPdf(False)] + \
    [PosteriorInit(f) for f in ('real', 'int-0', 'float-0.0', 'none')]
