"""C11 (work in progress)"""
MANIFEST = {'category': 'proof', 'text': 'wip', 'note': 'wip', 'technique': 'wip'}
from contracts import c11_smt
CONTRACTS = c11_smt.contracts()
TRUSTED_BASE = []
ASSUMPTIONS = []
NOT_PROVED = []
