"""C11 - Bayesian optimisation simulates only inside bounds and trains on what it ran.

Functions under contract (all obligations generated from the source in the tree at run time):
  SMT tier (contracts/c11_smt.py; all dimensions, numbers of points / start points, bounds and values; callees by contract):
    bo/utils.minimize [4 cases]                   scipy's result ARBITRARY; final clip through the alias locs_out = locs[ind_min] => inside the
                                                  bounds; start points inside; value = min of the evaluated values, location = that run's clipped end point
    AcquisitionBase._add_noise [4 noise settings] per column: zero variance => unchanged, else truncnorm on exactly [lo_i, hi_i] (loop invariant)
    AcquisitionBase.acquire [2], MaxVar.acquire, ExpIntVar.acquire [2], UniformAcquisition.acquire: exactly n points, shape (n, dim), inside the bounds
    RandMaxVar.acquire [2 samplers]               shape / exactly n points / acquired points are chain states; "inside the bounds" is REFUTED (F8, known finding);
                                                  the log-density closures handed to mcmc are run on a symbolic point: call-pre of the callee (C09): nuts needs a 0-d
                                                  log-target and a vector gradient, metropolis a one-element log-target
    MaxVar.evaluate [theta 1-d / 2-d]             shape (rows, 1) of the value (what the closures above receive from self.evaluate)
    BayesianOptimization.__init__ [2], update, _should_optimize, n_evidence, _get_acquisition_index, _resolve_initial_evidence [3],
    _allow_submit, prepare_new_batch, ParameterInference.iterate (glue: prepare_new_batch only right after _allow_submit said yes)
  CAS tier (contracts/c11_cas.py; sympy, all real values at the listed shapes): LCBSC / MaxVar evaluate_gradient = d evaluate
  Bounded stand-in / replay vehicle: bounded/c11.py."""
import os
os.environ.setdefault('OMP_NUM_THREADS', '1')      # before GPy's OpenMP kernels are loaded by the bounded stand-in (see bounded/c11.py)

MANIFEST = {
    'category': 'proof',
    'text': 'bo/utils.minimize is verified to return a point inside the bounds whatever scipy returns (optimiser result modelled as an arbitrary point; '
            'the final clip acts through the python alias of the selected end point), every acquisition rule except RandMaxVar to return exactly n points of shape '
            '(n, dim) inside the bounds for scalar / per-parameter / zero / no acquisition noise (loop invariants over columns, truncated-normal support = the bounds '
            'in real arithmetic), and the evidence bookkeeping of BayesianOptimization (__init__ with precomputed evidence, update, acquisition index, initial-evidence '
            'rounding, _allow_submit / prepare_new_batch / iterate: no batch is pending when acquire is called synchronously) against the ghost evidence sequence, '
            'for all dimensions, batch sizes and counts; obligations are generated from the current source and discharged by z3/cvc5. The LCBSC and MaxVar '
            'gradients are shown equal to the derivative of evaluate() by computer algebra on the extracted expressions. RandMaxVar.acquire: shape, count and '
            '"acquired points are states of the chain" are live, "inside the bounds" is refuted (known finding C11-F8). BO runs with tiny budgets under a '
            'schedule-driven client are the labelled bounded stand-in and replay vehicle.',
    'note': 'Trusted: pyvc engine and spec tables; assumed library contracts (sanity-tested each run): numpy tile/clip/argmin/views, RandomState.uniform range, '
            'scipy truncnorm / uniform rvs supports, scipy minimize returns a fresh vector of the length of x0, Owen-T partial derivatives (MaxVar gradient), '
            'C10 (GPyRegression.update appends), C09 (MCMC chain shape). Floats are reals: a truncated-normal draw can miss an end point of the support by one ulp. '
            'Bookkeeping contracts that build batch dicts are proved for two parameters with a surrogate column order different from the model order. '
            'Schedule independence of the fitted evidence is a bounded result plus the proved "no pending batch at acquire" invariant (composition with C04 is a paper step).',
    'technique': 'deductive: loop-invariant VCs from the real AST (pyvc, z3/cvc5), callees by contract + computer algebra (sympy) for the gradients; '
                 'bounded: BO runs n_evidence <= 12 under 3-8 worker schedules, arbitrary-optimiser harness for minimize, numeric gradient check',
}

from contracts import c11_smt, c11_cas

CONTRACTS = c11_smt.contracts() + c11_cas.contracts()

TRUSTED_BASE = [
    'pyvc engine (proxies, loop cutting, numpy/builtins spec tables: clip = min(max(x, lo), hi), argmin, basic slices and integer indices are views sharing storage) and pyvc.cas runner; z3/cvc5, sympy',
    'scipy.optimize.minimize returns a freshly allocated 1-d array x of the length of x0 and a value fun; NOTHING else is assumed (x arbitrary, bounds possibly violated)',
    'python list of arrays: locs[k] returns the stored ndarray object itself (alias), modelled as a view of row k of one storage (contracts/c11_smt.py::ArrList)',
    'numpy.tile(vector, (n, 1)) = n copies of the row; tile(0-d, d) = d copies; RandomState.uniform(low, high, size) in [low, high] for low <= high; permutation(a) = rows of a in some order',
    'scipy.stats.truncnorm.rvs(a, b, loc, scale, size): needs scale > 0 and a < b; draw k lies in [loc_k + a_k*scale, loc_k + b_k*scale]',
    'scipy.stats.uniform(loc, scale).rvs(size=(n, d)): needs scale > 0; entry (r, j) in [loc_j, loc_j + scale_j]',
    'C10 (assumed callee contract): GPyRegression.update(x, y) appends: X\' = X ++ x, Y\' = Y ++ y, n_evidence\' = n_evidence + len(x)',
    'C09 (assumed callee contract): mcmc.metropolis / mcmc.nuts return an (n_samples, dim) matrix of chain states; nothing relates the states to model.bounds',
    'CAS tier: scipy norm.cdf = Phi((x - loc)/scale); skewnorm.cdf = Phi(z) - 2 T(z, a); Owen-T partials dT/dh = -phi(h) erf(a h/sqrt 2)/2, dT/da = exp(-h^2(1+a^2)/2)/(2 pi (1+a^2)) (assumed identities, checked numerically against scipy.special.owens_t)',
    'Opaque values (contracts/c11_smt.py::Opaque): GP predictions, kernel matrices and densities inside ExpIntVar.acquire / MaxVar.acquire absorb arithmetic; any use in control flow, as a length or in the returned points is OutOfSubset',
]
ASSUMPTIONS = [
    'A-REAL: floats are reals. In floats xi + std*((hi - xi)/std) can exceed hi by one ulp, so a truncated-normal draw exactly at an end point of its support could leave the box by an ulp (probability ~0; never observed in the bounded runs, which test exact inclusion)',
    'A-INT: integers are mathematical; A-LOG: logging (and BayesianOptimization._report_batch, which only formats a log message) has no effect',
    'bounds are well-formed: lo_i <= hi_i (minimize), lo_i < hi_i for the acquisition rules (a degenerate bound with positive noise makes scipy raise ValueError: a crash, not a point outside the bounds); noise variances >= 0 (_check_noise_var); n_inits >= 1',
    'prior.rvs returns an (n, dim) matrix, or a length-n vector when dim = 1 (ModelPrior.rvs); ModelPrior.rvs(size=None) is modelled as a (dim,) vector (for dim = 1 the real one returns a scalar, which RandMaxVar(init_from_prior=True) cannot index: a crash outside the statement)',
    'batches handed to update have batch_size rows per output (C04/C18); batch dict / evidence bookkeeping contracts are per concrete number of parameters: 1, 2, 3 and 4, each with a surrogate column order that differs from the model order where possible ((b, a) vs (a, b); (c, a, b); (b, d2, a, c))',
    'evidence invariant X = precomputed ++ concat(consumed params): __init__ establishes it, update preserves it (one step each, machine-checked); the induction over the run is a paper step',
    'synchronous schedule independence: proved = acquire is only reached with no pending batch (AllowSubmit + PrepareNewBatch + Iterate glue); that the GP state then is a function of the consumed batches only uses C04 (in-order consumption) and C10 - paper step; bounded runs confirm',
    'termination of RandMaxVar\'s retry loop / MCMC and of scipy are not proved; exceptions raised inside callees (mcmc "bad initialization", GPy) are not modelled',
]
NOT_PROVED = [
    'for every acquisition rule: RandMaxVar.acquire "lies inside the user\'s bounds" is REFUTED when the prior support is not contained in the bounds (known finding C11-F8); proved instead: every acquired point is a state of the chain, whose initial point is inside the bounds',
    'with synchronous acquisition the fitted evidence is the same for every worker schedule: bounded (3-8 schedules x 6 configurations) + the proved invariant "no pending batch at acquire"; the composition with C04 is a paper step',
    'acquisition gradients equal the derivatives: proved by CAS at the listed shapes, for v > 0, beta_t > 0, sigma_n^2 > 0, prior density > 0; MaxVar additionally assumes the two Owen-T partial derivatives; ExpIntVar has no analytic gradient in the code (numeric in scipy)',
    'for all numbers of parameters: the batch-dict bookkeeping (BayesianOptimization.__init__/update/prepare_new_batch) is proved for 1, 2, 3 and 4 parameters (dict keys are concrete strings in the engine), not for a symbolic number; _resolve_initial_evidence default for dim 1..5',
]


# ------------------------------------------------------------------------------------------------ sanity of assumed contracts
def sanity():
    import numpy as np
    import scipy.optimize
    import scipy.stats as ss
    from scipy.special import owens_t
    out = []
    lst = [np.array([5.0, 6.0]), np.array([7.0, 8.0])]
    o = lst[1]
    o[0] = np.clip(o[0], 0.0, 1.0)
    out.append(('list element is the stored array (alias); clip = min(max(x, lo), hi)', lst[1][0] == 1.0 and float(np.clip(-3.0, 0.0, 1.0)) == 0.0 and float(np.clip(0.5, 0.0, 1.0)) == 0.5))
    out.append(('tile(vector, (n, 1)) and tile(0-d, d)', np.tile(np.array([1.0, 2.0]), (3, 1)).tolist() == [[1.0, 2.0]] * 3 and np.tile(np.asanyarray(0.3), 2).tolist() == [0.3, 0.3]))
    a = np.arange(6.0).reshape(3, 2)
    col = a[:, 1]
    col[:] = -1
    out.append(('column slices are views; np.stack(list of pairs) is (d, 2)', a[:, 1].tolist() == [-1.0] * 3 and np.stack([(0, 1), (2, 3)]).shape == (2, 2)))
    rs = np.random.RandomState(0)
    u = rs.uniform(-1.5, 0.25, 2000)
    out.append(('RandomState.uniform(low, high, size) within [low, high]', bool((u >= -1.5).all() and (u <= 0.25).all()) and -1.5 <= np.random.uniform(-1.5, 0.25) <= 0.25))
    m = np.arange(12.0).reshape(6, 2)
    pm = rs.permutation(m)
    out.append(('RandomState.permutation(matrix) = its rows in some order', sorted(map(tuple, pm)) == sorted(map(tuple, m))))
    x0 = np.array([0.2, 0.3, 0.1])
    r = scipy.optimize.minimize(lambda z: float(np.sum((z - 2) ** 2)), x0, method='L-BFGS-B', bounds=[(0, 1)] * 3, options={'maxiter': 5})
    out.append(('scipy minimize: result x is a fresh vector of the length of x0, fun a scalar', r['x'].shape == (3,) and r['x'] is not x0 and np.ndim(r['fun']) == 0))
    r2 = scipy.optimize.minimize(lambda z: 0.0, x0, method=lambda fun, x0, args=(), **kw: scipy.optimize.OptimizeResult(x=np.array([9.0, 9.0, 9.0]), fun=-1.0, success=True))
    out.append(('scipy minimize hands a callable method\'s result through (bounded harness)', r2['x'].tolist() == [9.0] * 3 and r2['fun'] == -1.0))
    xi = np.clip(rs.uniform(-1, 1, 4000), -1, 1)
    xi[:50], xi[50:100] = 1.0, -1.0
    ok = True
    for std in (1e-3, 0.3, 30.0):
        t = ss.truncnorm.rvs((-1 - xi) / std, (1 - xi) / std, loc=xi, scale=std, size=len(xi), random_state=rs)
        ok = ok and t.shape == xi.shape and bool((t >= -1).all() and (t <= 1).all())
    out.append(('truncnorm.rvs(a, b, loc, scale) stays in [loc + a*scale, loc + b*scale]', ok))
    try:
        ss.truncnorm.rvs(np.array([0.0]), np.array([0.0]), loc=np.array([1.0]), scale=0.5, size=1, random_state=rs)
        ok = False
    except ValueError:
        ok = True
    out.append(('truncnorm.rvs raises ValueError unless a < b', ok))
    uu = ss.uniform(np.array([-1.0, 2.0]), np.array([0.5, 3.0])).rvs(size=(500, 2), random_state=rs)
    out.append(('uniform(loc, scale).rvs(size=(n, d)) within [loc_j, loc_j + scale_j]', uu.shape == (500, 2) and bool((uu >= [-1.0, 2.0]).all() and (uu <= [-0.5, 5.0]).all())))
    out.append(('np.percentile returns a scalar', np.ndim(np.percentile(np.arange(5.0)[:, None], 1.0)) == 0))
    # CAS-tier library models
    ok = True
    for z, a_ in ((0.3, 0.7), (-1.2, 0.2), (2.0, 0.95)):
        ok = ok and abs(ss.skewnorm.cdf(z * 1.7 + 0.4, a_, loc=0.4, scale=1.7) - (ss.norm.cdf(z) - 2 * owens_t(z, a_))) < 1e-10
        ok = ok and abs(ss.norm.cdf(z * 1.7 + 0.4, loc=0.4, scale=1.7) - 0.5 * (1 + __import__('math').erf(z / 2 ** 0.5))) < 1e-12
        h = 1e-6
        import math
        dT_dh = (owens_t(z + h, a_) - owens_t(z - h, a_)) / (2 * h)
        dT_da = (owens_t(z, a_ + h) - owens_t(z, a_ - h)) / (2 * h)
        ok = ok and abs(dT_dh - (-math.exp(-z * z / 2) / math.sqrt(2 * math.pi) * math.erf(a_ * z / math.sqrt(2)) / 2)) < 1e-7
        ok = ok and abs(dT_da - math.exp(-z * z * (1 + a_ * a_) / 2) / (2 * math.pi * (1 + a_ * a_))) < 1e-7
    out.append(('skewnorm.cdf = Phi - 2 T(Owen); norm.cdf = Phi((x-loc)/scale); the two Owen-T partial derivatives (finite differences)', bool(ok)))
    import sympy as sp
    f = c11_cas._exact_consts(compile('def f(x):\n    return (2. * x) ** .5 + 1.5\n', '<t>', 'exec'))
    g = {}
    exec(f, g)
    out.append(('CAS runner: float literals enter as exact rationals', g['f'](sp.pi) == sp.sqrt(2 * sp.pi) + sp.Rational(3, 2)))
    return out


# ------------------------------------------------------------------------------------------------ bounded stand-in, replay
_bounded_cache = {}


def bounded(tier, seed):
    from bounded import c11 as b
    key = (tier, seed)
    if key not in _bounded_cache:
        _bounded_cache[key] = b.run(tier, seed)
    return _bounded_cache[key]


FAMILY = [('minimize', 'minimize'), ('AcquisitionBase.', 'add-noise'), ('UniformAcquisition', 'add-noise'), ('RandMaxVar', 'randmaxvar'),
          ('MaxVar.acquire', 'rules'), ('ExpIntVar', 'rules'), ('BayesianOptimization', 'bo'), ('ParameterInference', 'bo'),
          ('LCBSC.evaluate_gradient', 'gradient'), ('MaxVar.evaluate_gradient', 'gradient')]
_replay_cache = {}


def replay_refuted(cname, rf):
    """a failing native input for a refuted obligation: the bounded cases of the family the contract belongs to (thorough grid), filtered by the clause"""
    from bounded import c11 as b
    fam = next((f for p, f in FAMILY if cname.startswith(p)), None)
    if fam is None:
        return dict(found=False, note='no native family for %s' % cname)
    if fam not in _replay_cache:
        _replay_cache[fam] = [f for g in b.run('thorough' if fam in ('minimize', 'add-noise') else 'quick', 0, which=(fam,)) for f in g['failures']]
    fails = _replay_cache[fam]
    kind = rf.get('kind', '')
    want = None
    if fam == 'randmaxvar':
        want = 'c11:randmaxvar-point-count' if 'number of points' in kind else ('c11:prior-support-not-in-bounds' if 'lies inside the bounds' in kind else
                                                                               ('c11:randmaxvar-nuts-crash' if 'mcmc.nuts' in kind else None))
    if fam == 'gradient':
        rule = 'lcbsc' if cname.startswith('LCBSC') else 'maxvar'
        fails = [f for f in fails if f['input'].get('rule') == rule]
    pick = [f for f in fails if want is None or f['signature'] == want]
    if pick:
        return dict(found=True, input=pick[0]['input'], observed=pick[0]['what'], signature=pick[0]['signature'])
    return dict(found=False, searched='bounded cases of family %s' % fam, other_failures=[f['signature'] for f in fails])


def replay_input(inp):
    """True iff the property holds on this input (a bounded-failure record {signature, what, input} is unwrapped)"""
    from bounded import c11 as b
    return b.replay_input(inp)
