"""C11, CAS tier: the REAL bodies of LCBSC.evaluate / evaluate_gradient and MaxVar.evaluate / evaluate_gradient
(pyvc.cas.run_function: instrumented source of the tree under analysis) executed over sympy terms.

The surrogate's predictive mean / variance at the point, their gradients, the prior density and the gradient of its log are
independent SYMBOLS (mu, v > 0, dmu_j, dv_j, p > 0, dlogp_j ...).  evaluate() then is an expression F(mu, v, p, ...) and the
derivative of the acquisition along coordinate j is, by the chain rule,  F_mu dmu_j + F_v dv_j + F_p (p dlogp_j) (+ F_c dc_j);
the obligation is  evaluate_gradient()[r, j] == that expression, for all real values of the symbols at the listed shapes.

Library models: scipy.stats.norm.cdf(x, loc, scale) = Phi((x - loc)/scale), Phi(z) = (1 + erf(z/sqrt 2))/2;
scipy.stats.skewnorm.cdf(x, a, loc, scale) = Phi(z) - 2 T(z, a) with Owen's T as an undefined function whose two partial
derivatives are ASSUMED:  dT/dh = -phi(h) erf(a h/sqrt 2)/2,  dT/da = exp(-h^2 (1 + a^2)/2) / (2 pi (1 + a^2))
(all three sanity-tested numerically against scipy in contracts/c11.py::sanity)."""
import numpy as np
import sympy as sp

from pyvc import cas
from pyvc.cas import CasContract
from pyvc.core import OutOfSubset

ACQ = 'elfi/methods/bo/acquisition.py::'
SQ2 = sp.sqrt(2)


def Phi(z):
    return (1 + sp.erf(z / SQ2)) / 2


def phi_density(z):
    return sp.exp(-z ** 2 / 2) / sp.sqrt(2 * sp.pi)


class OwenT(sp.Function):
    """Owen's T function T(h, a); only its two partial derivatives are given (assumed identities)"""
    nargs = 2

    def fdiff(self, argindex=1):
        h, a = self.args
        if argindex == 1:
            return -phi_density(h) * sp.erf(a * h / SQ2) / 2
        return sp.exp(-h ** 2 * (1 + a ** 2) / 2) / (2 * sp.pi * (1 + a ** 2))

    def _eval_evalf(self, prec):
        from scipy.special import owens_t
        h, a = [float(x) for x in self.args]
        return sp.Float(float(owens_t(h, a)), prec)


def exactify(e):
    """python float literals denote their decimal value (A-REAL)"""
    if isinstance(e, np.ndarray):
        out = np.empty(e.shape, dtype=object)
        for idx in np.ndindex(e.shape):
            out[idx] = exactify(e[idx])
        return out
    e = sp.sympify(e)
    fl = e.atoms(sp.Float)
    return e.xreplace({f: sp.Rational(repr(float(f))) for f in fl}) if fl else e


def _exact_consts(code):
    """python float literals of the analysed function -> the rational number they denote (A-REAL), BEFORE they enter any
    computation: sympy would otherwise evaluate e.g. sqrt(2. * pi) to a 15-digit approximation and the identity could only be
    checked numerically.  Done on the compiled code object's constants (recursively); nothing else is changed."""
    import types
    consts = []
    for c in code.co_consts:
        if isinstance(c, float) and c == c and abs(c) != float('inf'):
            consts.append(sp.Rational(repr(c)))
        elif isinstance(c, types.CodeType):
            consts.append(_exact_consts(c))
        else:
            consts.append(c)
    return code.replace(co_consts=tuple(consts))


def run_exact(target, args=(), kwargs=None, env=None):
    """pyvc.cas.run_function with exact float literals"""
    loc, code, stats = cas.compile_function(target, None)
    g = cas.cas_globals(env, None)
    exec(_exact_consts(code), g)
    return g[loc.node.name](*args, **(kwargs or {})), loc, stats


def _vec(f):
    def g(x, *a, **k):
        if isinstance(x, np.ndarray):
            out = np.empty(x.shape, dtype=object)
            for idx in np.ndindex(x.shape):
                pick = lambda v: v[idx] if isinstance(v, np.ndarray) and v.shape == x.shape else v
                out[idx] = f(x[idx], *[pick(v) for v in a], **{kk: pick(v) for kk, v in k.items()})
            return out
        shapes = [v.shape for v in list(a) + list(k.values()) if isinstance(v, np.ndarray)]
        if shapes:
            return g(np.full(shapes[0], x, dtype=object), *a, **k)
        return f(x, *a, **k)
    return g


class _Norm:
    cdf = staticmethod(_vec(lambda x, loc=0, scale=1: Phi((x - loc) / scale)))


class _SkewNorm:
    cdf = staticmethod(_vec(lambda x, a, loc=0, scale=1: Phi((x - loc) / scale) - 2 * OwenT((x - loc) / scale, a)))


class _SS:
    norm = _Norm
    skewnorm = _SkewNorm


def obj(shape, name, **assume):
    a = np.empty(shape, dtype=object)
    for idx in np.ndindex(*shape):
        a[idx] = sp.Symbol(name + '_' + '_'.join(map(str, idx)), **assume)
    return a


class _Self(cas.Obj):
    pass


def chain_rule(value, pairs):
    """d value / d x_j = sum over (symbol, d symbol / d x_j)"""
    return sum(sp.diff(value, sym) * dsym for sym, dsym in pairs)


def domain_for(exprs):
    dom = {}
    for e in exprs:
        for s_ in sp.sympify(e).free_symbols:
            dom[s_] = (0.3, 2.5) if s_.is_positive else (-1.5, 1.5)
    return dom


class LCBSCGradient(CasContract):
    """LCBSC.evaluate_gradient = derivative of LCBSC.evaluate:  mu' - 0.5 v' sqrt(beta/v) = d(mu - sqrt(beta v)),  beta_t > 0 and v > 0"""
    target = ACQ + 'LCBSC.evaluate_gradient'
    prop = 'C11'
    shapes = '(points, parameters) = (1,1), (1,2), (2,3); with and without additive cost'

    def identities(self, tier, seed):
        repo = None
        for (n, d) in ((1, 1), (1, 2), (2, 3)):
            for cost in (False, True):
                mu, v = obj((n, 1), 'mu', real=True), obj((n, 1), 'v', positive=True)
                dmu, dv = obj((n, d), 'dmu', real=True), obj((n, d), 'dv', real=True)
                c, dc = obj((n, 1), 'c', real=True), obj((n, d), 'dc', real=True)
                beta = sp.Symbol('beta_t', positive=True)
                me = _Self()
                me.model = _Self()
                me.model.predict = lambda x, noiseless=False: (mu.copy(), v.copy())
                me.model.predictive_gradients = lambda x: (dmu.copy(), dv.copy())
                me._beta = lambda t: beta
                me.additive_cost = None
                if cost:
                    me.additive_cost = _Self()
                    me.additive_cost.evaluate = lambda x: c.copy()
                    me.additive_cost.evaluate_gradient = lambda x: dc.copy()
                x = obj((n, d), 'x', real=True)
                t = sp.Symbol('t', integer=True, nonnegative=True)
                val, _, _ = run_exact(ACQ + 'LCBSC.evaluate', (me, x, t))
                grad, _, _ = run_exact(self.target, (me, x, t))
                val, grad = exactify(np.asarray(val, dtype=object)), exactify(np.asarray(grad, dtype=object))
                if val.shape != (n, 1) or grad.shape != (n, d):
                    yield dict(name='shape', verdict='refuted', note='evaluate %r / evaluate_gradient %r for %d points, %d parameters' % (val.shape, grad.shape, n, d),
                               case=dict(rule='lcbsc', cost=cost))
                    continue
                for r in range(n):
                    for j in range(d):
                        rhs = chain_rule(val[r, 0], [(mu[r, 0], dmu[r, j]), (v[r, 0], dv[r, j])] + ([(c[r, 0], dc[r, j])] if cost else []))
                        yield dict(name='gradient = d evaluate/dx_%d (point %d of %d, %d parameters%s)' % (j, r, n, d, ', additive cost' if cost else ''),
                                   lhs=grad[r, j], rhs=rhs, domain=domain_for([grad[r, j], rhs]), case=dict(rule='lcbsc', cost=cost))


class MaxVarGradient(CasContract):
    """MaxVar.evaluate_gradient = derivative of MaxVar.evaluate, given the two Owen-T partial derivatives (assumed identities)"""
    target = ACQ + 'MaxVar.evaluate_gradient'
    prop = 'C11'
    shapes = '(points, parameters) = (1,1), (1,2)'

    def identities(self, tier, seed):
        for d in (1, 2):
            mu, v = obj((1, 1), 'mu', real=True), obj((1, 1), 'v', positive=True)
            dmu, dv = obj((1, d), 'dmu', real=True), obj((1, d), 'dv', real=True)
            p, dlogp = obj((1,), 'p', positive=True), obj((1, d), 'dlogp', real=True)
            me = _Self()
            me.model = _Self()
            me.model.predict = lambda x, noiseless=False: (mu.copy(), v.copy())
            me.model.predictive_gradients = lambda x: (dmu.copy(), dv.copy())
            me.model.noise = sp.Symbol('sigma2_n', positive=True)
            me.eps = sp.Symbol('eps', real=True)
            me.prior = _Self()
            me.prior.pdf = lambda th: p.copy()
            me.prior.gradient_logpdf = lambda th: dlogp.copy()
            x = obj((1, d), 'x', real=True)
            env = dict(ss=_SS)
            val, _, _ = run_exact(ACQ + 'MaxVar.evaluate', (me, x), env=env)
            grad, _, _ = run_exact(self.target, (me, x), env=env)
            val, grad = exactify(np.asarray(val, dtype=object)), exactify(np.asarray(grad, dtype=object))
            if val.shape != (1, 1) or grad.shape != (1, d):
                yield dict(name='shape', verdict='refuted', note='evaluate %r / evaluate_gradient %r for 1 point, %d parameters' % (val.shape, grad.shape, d), case=dict(rule='maxvar'))
                continue
            for j in range(d):
                rhs = chain_rule(val[0, 0], [(mu[0, 0], dmu[0, j]), (v[0, 0], dv[0, j]), (p[0], p[0] * dlogp[0, j])])
                yield dict(name='gradient = d evaluate/dx_%d (%d parameters; Owen-T partials assumed)' % (j, d), lhs=grad[0, j], rhs=rhs,
                           domain=domain_for([grad[0, j], rhs]), case=dict(rule='maxvar'))


def contracts():
    return [LCBSCGradient(), MaxVarGradient()]
