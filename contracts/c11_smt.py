"""C11, SMT tier: the REAL function bodies of bo/utils.minimize, the acquisition rules' acquire()/_add_noise and the evidence
bookkeeping of BayesianOptimization, run over symbolic proxies (pyvc engine).  Library models and callee stubs live here.

Spec functions (independent of the code):
  lo(j), hi(j)          the user's bounds of parameter j   (lo(j) <= hi(j))
  OPTX(i, j), OPTF(i)   whatever scipy.optimize.minimize returns when started from row i of the start points - ARBITRARY
                        (uninterpreted: nothing is assumed about L-BFGS-B / SLSQP, in particular not that they respect bounds)
  in_bounds(A)          forall rows r, columns j:  lo(j) <= A[r, j] <= hi(j)
"""
import z3

from pyvc.core import cur, forall_range, exists_range, OutOfSubset, program_exception
from pyvc.engine import Contract, Loop, NS, SeqIter, make_object, inline, Stub
from pyvc.values import SInt, SReal, SBool, SKey, SOpt, Sym, lift, term as T
from pyvc.sarray import SArr, Cell, zi, conc
from pyvc import npspec

R, I, B = z3.RealSort(), z3.IntSort(), z3.BoolSort()
LO, HI = z3.Function('lo', I, R), z3.Function('hi', I, R)
OPTX, OPTF = z3.Function('OPTX', I, I, R), z3.Function('OPTF', I, R)

UTILS = 'elfi/methods/bo/utils.py::'
ACQ = 'elfi/methods/bo/acquisition.py::'
BOLFI = 'elfi/methods/inference/bolfi.py::'


def zclip(t, l, h):
    """numpy.clip(t, l, h) = minimum(maximum(t, l), h)"""
    m = z3.If(t < l, l, t)
    return z3.If(m > h, h, m)


def inb(t, j):
    return z3.And(LO(j) <= t, t <= HI(j))


def rows_in_bounds(a, nrows, ncols):
    """2-D array: every row inside the box"""
    return forall_range(0, nrows, lambda r: forall_range(0, ncols, lambda j: inb(a.at(r, j), j), 'j'), 'r')


def vec_in_bounds(a, ncols):
    return forall_range(0, ncols, lambda j: inb(a.at(j), j), 'j')


# ---------------------------------------------------------------------------------------------- proxies of python / library objects
class Bounds(Sym):
    """the python sequence `bounds` = [(lo_0, hi_0), ..., (lo_{d-1}, hi_{d-1})] of symbolic length d"""

    def __init__(self, dim):
        self.dim = dim
        self.t = None

    def _vc_len(self):
        return SInt(self.dim)

    def pair(self, i):
        return (SReal(LO(i)), SReal(HI(i)))

    def __getitem__(self, i):
        i = zi(i)
        c = conc(i)
        r = (self.dim + i) if (c is not None and c < 0) else (i if c is not None else z3.If(i >= 0, i, self.dim + i))
        cur().oblige('call-pre[index in range: bounds]', z3.And(r >= 0, r < self.dim))
        return self.pair(r)

    def _vc_iter(self):
        return SeqIter(self.dim, lambda i: self.pair(i))

    def _vc_enumerate(self, start=0):
        if start != 0:
            raise OutOfSubset('enumerate(bounds, start)')
        me = self

        class _Enum:
            def _vc_iter(self_):
                return SeqIter(me.dim, lambda i: (SInt(i), me.pair(i)))

            def __iter__(self_):
                raise OutOfSubset('enumerate over symbolic bounds needs a loop contract')
        return _Enum()

    def __iter__(self):
        raise OutOfSubset('iteration over symbolic bounds needs a loop contract')

    def _vc_asarray(self):
        return SArr(Cell(lambda i, j: z3.If(j == 0, LO(i), HI(i)), (self.dim, z3.IntVal(2)), 'real'))


class ArrList(Sym):
    """python list of 1-D float arrays of one common length w (the list `locs` of optimiser end points): 2-D storage, element k is
    a VIEW of row k (so a write through `locs[k]` is seen by a later `locs[k]`, as with the aliased ndarray in python).
    Model restriction: an appended array is not mutated through another name afterwards (true of `result['x']`)."""

    def __init__(self, n, w, elt):
        self.n, self.w = n, w
        self.cell = Cell(elt, (n, w), 'real')
        self.t = None

    def append(self, a):
        if not (isinstance(a, SArr) and a.ndim == 1):
            raise OutOfSubset('list.append of a non 1-d array')
        src = a.snapshot()
        cur().oblige('call-pre[list of end points: every entry has one length]', src.shape[0] == self.w)
        old, n = self.cell.elt, self.n
        self.cell.elt = lambda i, j: z3.If(i == n, src.at(j), old(i, j))
        self.n = n + 1
        self.cell.shape = (self.n, self.w)

    def __getitem__(self, k):
        k = zi(k)
        r = z3.If(k >= 0, k, self.n + k)
        cur().oblige('call-pre[index in range: list of end points]', z3.And(r >= 0, r < self.n))
        return SArr(self.cell, [('fix', z3.simplify(r)), ('rng', z3.IntVal(0))], (self.w,))

    def at(self, k, j):
        return self.cell.elt(zi(k), zi(j))

    def _vc_len(self):
        return SInt(self.n)

    def _vc_havoc(self, name='hv'):
        f = cur().fresh_fn(name, I, I, R)
        self.cell.elt = lambda i, j: f(i, j)


class RandomState(Sym):
    """numpy RandomState / the numpy.random module.  Assumed (sanity-tested): uniform(low, high, size) returns `size` values in
    [low, high] for low <= high (closed at high: float rounding); permutation(a) returns the rows of a in some order."""
    _vc_models = None

    def __init__(self):
        self.t = None

    def __bool__(self):
        return True

    def uniform(self, low=0.0, high=1.0, size=None):
        vc = cur()
        l, h = npspec._real(low), npspec._real(high)
        vc.oblige('call-pre[uniform: low <= high]', l <= h)
        if size is None:
            v = vc.fresh('unif', R)
            vc.assume(l <= v, v <= h)
            return SReal(v)
        n = zi(size)
        vc.oblige('call-pre[uniform: size >= 0]', n >= 0)
        out = SArr.fresh('unif', (n,), 'real')
        vc.assume(forall_range(0, n, lambda k: z3.And(l <= out.at(k), out.at(k) <= h), 'k'))
        return out

    def permutation(self, a):
        vc = cur()
        src = a.snapshot()
        if src.ndim != 2:
            raise OutOfSubset('permutation of rank %d' % src.ndim)
        p = vc.fresh_fn('perm', I, I)
        vc.assume(forall_range(0, src.shape[0], lambda k: z3.And(0 <= p(k), p(k) < src.shape[0]), 'k'))
        out = SArr(Cell(lambda r, j: src.at(p(r), j), src.shape, 'real'))
        vc.libcall('rs.permutation', dict(src=src, res=out, p=p))
        return out


def np_tile(a, reps):
    """numpy.tile for the two uses in the acquisition code: tile(1-d vector, (n, 1)) -> (n, d) copies of the row;
    tile(0-d value, d) -> (d,) copies of the value"""
    vc = cur()
    a = npspec.asarray(a)
    src = a.snapshot()
    if isinstance(reps, tuple):
        if len(reps) == 2 and isinstance(reps[1], int) and reps[1] == 1 and src.ndim == 1:
            n = zi(reps[0])
            vc.oblige('call-pre[tile: non-negative repetitions]', n >= 0)
            out = SArr(Cell(lambda r, j: src.at(j), (n, src.shape[0]), src.kind))
            vc.libcall('np.tile', dict(src=src, res=out))
            return out
        raise OutOfSubset('np.tile reps %r on rank %d' % (reps, src.ndim))
    if src.ndim == 0:
        n = zi(reps)
        vc.oblige('call-pre[tile: non-negative repetitions]', n >= 0)
        return SArr(Cell(lambda j: src.at(), (n,), src.kind))
    raise OutOfSubset('np.tile reps %r on rank %d' % (reps, src.ndim))


def np_stack(x):
    f = getattr(x, '_vc_asarray', None)
    if f is None:
        raise OutOfSubset('np.stack(%s)' % type(x).__name__)
    return f()


def np_percentile(a, q):
    return SReal(cur().fresh('percentile', R))


class Opaque(Sym):
    """a numeric value / object the property does not depend on (GP predictions, kernel matrices, densities ...): absorbs
    arithmetic, attribute access, calls and indexing; any use in control flow or as a length is OutOfSubset (fail closed).
    Contracts check that no Opaque reaches the returned value."""

    def __init__(self, what='opaque'):
        object.__setattr__(self, 'what', what)
        object.__setattr__(self, 't', None)

    def _o(self, *a, **k):
        return Opaque(self.what)

    def __getattr__(self, name):
        if name.startswith('_vc') or name.startswith('__'):
            raise AttributeError(name)
        return Opaque(self.what + '.' + name)

    def __setattr__(self, name, v):
        pass

    def __bool__(self):
        raise OutOfSubset('truth value of an unmodelled value (%s)' % self.what)

    def __iter__(self):
        raise OutOfSubset('iteration over an unmodelled value (%s)' % self.what)

    __call__ = __getitem__ = _o
    __add__ = __radd__ = __sub__ = __rsub__ = __mul__ = __rmul__ = __truediv__ = __rtruediv__ = __pow__ = __rpow__ = _o
    __neg__ = __pos__ = __abs__ = _o
    __lt__ = __le__ = __gt__ = __ge__ = _o
    __matmul__ = __rmatmul__ = _o

    def __eq__(self, o):
        return Opaque(self.what)

    def __ne__(self, o):
        return Opaque(self.what)

    __hash__ = Sym.__hash__

    def __setitem__(self, k, v):
        pass


def np_module(**extra):
    ex = dict(tile=np_tile, stack=np_stack, percentile=np_percentile, random=RandomState())
    ex.update(extra)
    return npspec.module(extra=ex)


# ---------------------------------------------------------------------------------------------- bo/utils.minimize
class Minimize(Contract):
    """minimize(): whatever the optimiser returns, the returned location is inside the bounds (final clip through the alias
    locs_out = locs[ind_min]); start points are inside the bounds; the returned value is the minimum of the evaluated values."""
    target = UTILS + 'minimize'
    prop = 'C11'
    fin = 3
    fin_range = 4

    def __init__(self, mode):
        self.mode = mode          # uniform-rs | uniform-module | prior-2d | prior-1d
        self.label = mode

    def setup(self, vc):
        n, d = z3.Ints('n_start_points ndim')
        vc.fin_bounds.extend([n, d])
        s = NS(n=n, d=d, bounds=Bounds(d), rs=RandomState(), fun=object(), grad=object(), sp_calls=[])
        if self.mode.startswith('prior'):
            rank1 = self.mode == 'prior-1d'

            class Prior:
                def rvs(self_, size, random_state=None):
                    cur().oblige('call-pre[prior.rvs: size is n_start_points]', T(size) == n)
                    return SArr.fresh('prior_rvs', (n,) if rank1 else (n, d), 'real')
            s.prior = Prior()
        else:
            s.prior = None
        self._s = s
        kw = dict(method='L-BFGS-B', constraints=None, grad=s.grad, prior=s.prior, n_start_points=SInt(n), maxiter=1000,
                  random_state=None if self.mode == 'uniform-module' else s.rs)
        return s, (s.fun, s.bounds), kw

    def env(self, vc):
        s = self._s

        def sp_minimize(fun, x0, method=None, jac=None, bounds=None, constraints=None, options=None, **kw):
            """scipy.optimize.minimize: returns an ARBITRARY point x (a fresh 1-D array of the length of x0) and value fun.
            Ghost: the call is identified by the row of the start-point matrix it starts from."""
            if not (isinstance(x0, SArr) and x0.ndim == 1 and len(x0.view) == 2 and x0.view[0][0] == 'fix' and x0.perm is None):
                raise OutOfSubset('scipy.optimize.minimize started from something else than a row of the start-point matrix')
            row = x0.view[0][1]
            vc.oblige('call-pre[scipy minimize: objective, gradient and bounds are the caller\'s]', z3.BoolVal(fun is s.fun and jac is s.grad and bounds is s.bounds))
            vc.oblige('call-pre[scipy minimize: the start point has one entry per parameter]', x0.shape[0] == s.d)
            vc.oblige('call-pre[scipy minimize: the start point lies inside the bounds]', vec_in_bounds(x0, s.d))
            s.sp_calls.append(row)
            x = SArr(Cell(lambda j: OPTX(row, j), (s.d,), 'real'))
            return {'x': x, 'fun': SReal(OPTF(row))}
        scipy = NS(optimize=NS(minimize=sp_minimize))
        return dict(np=np_module(), scipy=scipy)

    def requires(self, s):
        r = [s.n >= 1, s.d >= 1, ('bounds are well-formed', z3.ForAll([z3.Int('jb')], LO(z3.Int('jb')) <= HI(z3.Int('jb'))))]
        if self.mode == 'prior-1d':
            r.append(s.d == 1)
        return r

    # ---- loop contracts, keyed by source order: 0 uniform start columns, 1 clipped prior start columns, 2 optimiser runs, 3 final clip
    def _inv_start(self, s, l):
        sp = l.start_points
        if not (isinstance(sp, SArr) and sp.ndim == 2):
            return [('start points form a matrix', z3.BoolVal(False))]
        return [('start-point matrix is n_start_points x ndim', z3.And(sp.shape[0] == s.n, sp.shape[1] == s.d)),
                ('the columns filled so far are inside their bounds',
                 forall_range(0, s.n, lambda r: forall_range(0, l.it.index, lambda j: inb(sp.at(r, j), j), 'j'), 'r'))]

    def _locs(self, l):
        lc = l.locs
        if isinstance(lc, list):
            if lc:
                raise OutOfSubset('non-empty concrete list of end points')
            return z3.IntVal(0), (lambda k, j: z3.RealVal(0))
        return lc.n, lc.at

    def _inv_runs(self, s, l):
        n_l, at = self._locs(l)
        k = l.it.index
        return [('one end point and one value per finished run', z3.And(n_l == k, l.vals.shape[0] == s.n)),
                ('end points and values are the optimiser results, in order',
                 forall_range(0, k, lambda i: z3.And(l.vals.at(i) == OPTF(i), forall_range(0, s.d, lambda j: at(i, j) == OPTX(i, j), 'j')), 'i'))]

    def _inv_clip(self, s, l):
        m = T(l.ind_min)
        k = l.it.index
        return [('the selected end point is clipped up to the current coordinate and untouched beyond',
                 forall_range(0, s.d, lambda j: l.locs.at(m, j) == z3.If(j < k, zclip(OPTX(m, j), LO(j), HI(j)), OPTX(m, j)), 'j')),
                ('locs_out aliases the selected end point', z3.BoolVal(isinstance(l.locs_out, SArr) and l.locs_out.cell is l.locs.cell)),
                ('values untouched', forall_range(0, s.n, lambda i: l.vals.at(i) == OPTF(i), 'i'))]

    @property
    def loops(self):
        from pyvc import instrument
        s_fresh = lambda why: ArrList(cur().fresh_int('n_locs'), self._s.d, cur().fresh_fn('locs', I, I, R))
        runs = Loop(inv=self._inv_runs, modifies=lambda s, l: [l.vals], fresh={'locs': s_fresh})
        runs.rebind = ('locs',)
        all_ = {0: Loop(inv=self._inv_start, modifies=lambda s, l: [l.start_points]),
                1: Loop(inv=self._inv_start, modifies=lambda s, l: [l.start_points]),
                2: runs,
                3: Loop(inv=self._inv_clip, modifies=lambda s, l: [l.locs])}
        try:
            loc = instrument.locate(self.target, None)
            k = len(instrument.loops_in_source_order(loc.node))
        except Exception:
            k = 4
        return {i: L for i, L in all_.items() if i < k}

    def ensures(self, s, result):
        if not (isinstance(result, tuple) and len(result) == 2 and isinstance(result[0], SArr) and result[0].ndim == 1):
            return [('returns (location vector, value)', z3.BoolVal(False))]
        x, v = result[0], T(result[1])
        return [('the location has one entry per parameter', x.shape[0] == s.d),
                ('the returned location lies inside the bounds, whatever the optimiser returned', vec_in_bounds(x, s.d)),
                ('the returned value is the minimum of the evaluated values', forall_range(0, s.n, lambda i: v <= OPTF(i), 'i')),
                ('value and location belong to one optimiser run; the location is that run\'s end point clipped into the bounds',
                 exists_range(0, s.n, lambda k: z3.And(v == OPTF(k), forall_range(0, s.d, lambda j: x.at(j) == zclip(OPTX(k, j), LO(j), HI(j)), 'j')), 'k'))]

    def witness(self, vc, model, ob):
        ev = lambda t: str(model.eval(t, model_completion=True))
        d = int(ev(z3.Int('ndim')))
        n = int(ev(z3.Int('n_start_points')))
        return dict(mode=self.mode, ndim=d, n_start_points=n, bounds=[[ev(LO(z3.IntVal(j))), ev(HI(z3.IntVal(j)))] for j in range(d)],
                    optimiser_end_points=[[ev(OPTX(z3.IntVal(i), z3.IntVal(j))) for j in range(d)] for i in range(n)],
                    optimiser_values=[ev(OPTF(z3.IntVal(i))) for i in range(n)])
