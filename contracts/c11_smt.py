"""C11, SMT tier: the REAL function bodies of bo/utils.minimize, the acquisition rules' acquire()/_add_noise and the evidence
bookkeeping of BayesianOptimization, run over symbolic proxies (pyvc engine).  Library models and callee stubs live here.

Spec functions (independent of the code):
  lo(j), hi(j)          the user's bounds of parameter j   (lo(j) <= hi(j))
  OPTX(i, j), OPTF(i)   whatever scipy.optimize.minimize returns when started from row i of the start points - ARBITRARY
                        (uninterpreted: nothing is assumed about L-BFGS-B / SLSQP, in particular not that they respect bounds)
  in_bounds(A)          forall rows r, columns j:  lo(j) <= A[r, j] <= hi(j)
"""
import z3

from pyvc.core import cur, forall_range, exists_range, OutOfSubset, program_exception
from pyvc.engine import Contract, Loop, NS, SeqIter, make_object, inline, Stub
from pyvc.values import SInt, SReal, SBool, SKey, SOpt, Sym, lift, term as T
from pyvc.sarray import SArr, Cell, zi, conc
from pyvc import npspec

R, I, B = z3.RealSort(), z3.IntSort(), z3.BoolSort()
LO, HI = z3.Function('lo', I, R), z3.Function('hi', I, R)
OPTX, OPTF = z3.Function('OPTX', I, I, R), z3.Function('OPTF', I, R)

UTILS = 'elfi/methods/bo/utils.py::'
ACQ = 'elfi/methods/bo/acquisition.py::'
BOLFI = 'elfi/methods/inference/bolfi.py::'


def zclip(t, l, h):
    """numpy.clip(t, l, h) = minimum(maximum(t, l), h)"""
    m = z3.If(t < l, l, t)
    return z3.If(m > h, h, m)


def inb(t, j):
    return z3.And(LO(j) <= t, t <= HI(j))


def rows_in_bounds(a, nrows, ncols):
    """2-D array: every row inside the box"""
    return forall_range(0, nrows, lambda r: forall_range(0, ncols, lambda j: inb(a.at(r, j), j), 'j'), 'r')


def vec_in_bounds(a, ncols):
    return forall_range(0, ncols, lambda j: inb(a.at(j), j), 'j')


# ---------------------------------------------------------------------------------------------- proxies of python / library objects
class Bounds(Sym):
    """the python sequence `bounds` = [(lo_0, hi_0), ..., (lo_{d-1}, hi_{d-1})] of symbolic length d"""

    def __init__(self, dim):
        self.dim = dim
        self.t = None

    def _vc_len(self):
        return SInt(self.dim)

    def pair(self, i):
        return (SReal(LO(i)), SReal(HI(i)))

    def __getitem__(self, i):
        i = zi(i)
        c = conc(i)
        r = (self.dim + i) if (c is not None and c < 0) else (i if c is not None else z3.If(i >= 0, i, self.dim + i))
        cur().oblige('call-pre[index in range: bounds]', z3.And(r >= 0, r < self.dim))
        return self.pair(r)

    def _vc_iter(self):
        return SeqIter(self.dim, lambda i: self.pair(i))

    def _vc_enumerate(self, start=0):
        if start != 0:
            raise OutOfSubset('enumerate(bounds, start)')
        me = self

        class _Enum:
            def _vc_iter(self_):
                return SeqIter(me.dim, lambda i: (SInt(i), me.pair(i)))

            def __iter__(self_):
                raise OutOfSubset('enumerate over symbolic bounds needs a loop contract')
        return _Enum()

    def __iter__(self):
        raise OutOfSubset('iteration over symbolic bounds needs a loop contract')

    def _vc_asarray(self):
        return SArr(Cell(lambda i, j: z3.If(j == 0, LO(i), HI(i)), (self.dim, z3.IntVal(2)), 'real'))


class ArrList(Sym):
    """python list of 1-D float arrays of one common length w (the list `locs` of optimiser end points): 2-D storage, element k is
    a VIEW of row k (so a write through `locs[k]` is seen by a later `locs[k]`, as with the aliased ndarray in python).
    Model restriction: an appended array is not mutated through another name afterwards (true of `result['x']`)."""

    def __init__(self, n, w, elt):
        self.n, self.w = n, w
        self.cell = Cell(elt, (n, w), 'real')
        self.t = None

    def append(self, a):
        if not (isinstance(a, SArr) and a.ndim == 1):
            raise OutOfSubset('list.append of a non 1-d array')
        src = a.snapshot()
        cur().oblige('call-pre[list of end points: every entry has one length]', src.shape[0] == self.w)
        old, n = self.cell.elt, self.n
        self.cell.elt = lambda i, j: z3.If(i == n, src.at(j), old(i, j))
        self.n = n + 1
        self.cell.shape = (self.n, self.w)

    def __getitem__(self, k):
        k = zi(k)
        r = z3.If(k >= 0, k, self.n + k)
        cur().oblige('call-pre[index in range: list of end points]', z3.And(r >= 0, r < self.n))
        return SArr(self.cell, [('fix', z3.simplify(r)), ('rng', z3.IntVal(0))], (self.w,))

    def at(self, k, j):
        return self.cell.elt(zi(k), zi(j))

    def _vc_len(self):
        return SInt(self.n)

    def _vc_havoc(self, name='hv'):
        f = cur().fresh_fn(name, I, I, R)
        self.cell.elt = lambda i, j: f(i, j)


class RandomState(Sym):
    """numpy RandomState / the numpy.random module.  Assumed (sanity-tested): uniform(low, high, size) returns `size` values in
    [low, high] for low <= high (closed at high: float rounding); permutation(a) returns the rows of a in some order."""
    _vc_models = None

    def __init__(self):
        self.t = None

    def __bool__(self):
        return True

    def uniform(self, low=0.0, high=1.0, size=None):
        vc = cur()
        l, h = npspec._real(low), npspec._real(high)
        vc.oblige('call-pre[uniform: low <= high]', l <= h)
        if size is None:
            v = vc.fresh('unif', R)
            vc.assume(l <= v, v <= h)
            return SReal(v)
        n = zi(size)
        vc.oblige('call-pre[uniform: size >= 0]', n >= 0)
        out = SArr.fresh('unif', (n,), 'real')
        vc.assume(forall_range(0, n, lambda k: z3.And(l <= out.at(k), out.at(k) <= h), 'k'))
        return out

    def permutation(self, a):
        vc = cur()
        src = a.snapshot()
        if src.ndim != 2:
            raise OutOfSubset('permutation of rank %d' % src.ndim)
        p = vc.fresh_fn('perm', I, I)
        vc.assume(forall_range(0, src.shape[0], lambda k: z3.And(0 <= p(k), p(k) < src.shape[0]), 'k'))
        out = SArr(Cell(lambda r, j: src.at(p(r), j), src.shape, 'real'))
        vc.libcall('rs.permutation', dict(src=src, res=out, p=p))
        return out


def np_tile(a, reps):
    """numpy.tile for the two uses in the acquisition code: tile(1-d vector, (n, 1)) -> (n, d) copies of the row;
    tile(0-d value, d) -> (d,) copies of the value"""
    vc = cur()
    a = npspec.asarray(a)
    src = a.snapshot()
    if isinstance(reps, tuple):
        if len(reps) == 2 and isinstance(reps[1], int) and reps[1] == 1 and src.ndim == 1:
            n = zi(reps[0])
            vc.oblige('call-pre[tile: non-negative repetitions]', n >= 0)
            out = SArr(Cell(lambda r, j: src.at(j), (n, src.shape[0]), src.kind))
            vc.libcall('np.tile', dict(src=src, res=out))
            return out
        raise OutOfSubset('np.tile reps %r on rank %d' % (reps, src.ndim))
    if src.ndim == 0:
        n = zi(reps)
        vc.oblige('call-pre[tile: non-negative repetitions]', n >= 0)
        return SArr(Cell(lambda j: src.at(), (n,), src.kind))
    raise OutOfSubset('np.tile reps %r on rank %d' % (reps, src.ndim))


def np_stack(x):
    f = getattr(x, '_vc_asarray', None)
    if f is None:
        raise OutOfSubset('np.stack(%s)' % type(x).__name__)
    return f()


def np_percentile(a, q):
    return SReal(cur().fresh('percentile', R))


class Opaque(Sym):
    """a numeric value / object the property does not depend on (GP predictions, kernel matrices, densities ...): absorbs
    arithmetic, attribute access, calls and indexing; any use in control flow or as a length is OutOfSubset (fail closed).
    Contracts check that no Opaque reaches the returned value."""

    def __init__(self, what='opaque'):
        object.__setattr__(self, 'what', what)
        object.__setattr__(self, 't', None)

    def _o(self, *a, **k):
        return Opaque(self.what)

    def __getattr__(self, name):
        if name.startswith('_vc') or name.startswith('__'):
            raise AttributeError(name)
        return Opaque(self.what + '.' + name)

    def __setattr__(self, name, v):
        pass

    def __bool__(self):
        raise OutOfSubset('truth value of an unmodelled value (%s)' % self.what)

    def __iter__(self):
        raise OutOfSubset('iteration over an unmodelled value (%s)' % self.what)

    __call__ = __getitem__ = _o
    __add__ = __radd__ = __sub__ = __rsub__ = __mul__ = __rmul__ = __truediv__ = __rtruediv__ = __pow__ = __rpow__ = _o
    __neg__ = __pos__ = __abs__ = _o
    __lt__ = __le__ = __gt__ = __ge__ = _o
    __matmul__ = __rmatmul__ = _o

    def __eq__(self, o):
        return Opaque(self.what)

    def __ne__(self, o):
        return Opaque(self.what)

    __hash__ = Sym.__hash__

    def __setitem__(self, k, v):
        pass


def np_module(**extra):
    ex = dict(tile=np_tile, stack=np_stack, percentile=np_percentile, random=RandomState())
    ex.update(extra)
    return npspec.module(extra=ex)


# ---------------------------------------------------------------------------------------------- bo/utils.minimize
class Minimize(Contract):
    """minimize(): whatever the optimiser returns, the returned location is inside the bounds (final clip through the alias
    locs_out = locs[ind_min]); start points are inside the bounds; the returned value is the minimum of the evaluated values."""
    target = UTILS + 'minimize'
    prop = 'C11'
    fin = 3
    fin_range = 4

    def __init__(self, mode):
        self.mode = mode          # uniform-rs | uniform-module | prior-2d | prior-1d
        self.label = mode

    def setup(self, vc):
        n, d = z3.Ints('n_start_points ndim')
        vc.fin_bounds.extend([n, d])
        s = NS(n=n, dim=d, bounds=Bounds(d), rs=RandomState(), fun=object(), grad=object(), sp_calls=[])
        if self.mode.startswith('prior'):
            rank1 = self.mode == 'prior-1d'

            class Prior:
                def rvs(self_, size, random_state=None):
                    cur().oblige('call-pre[prior.rvs: size is n_start_points]', T(size) == n)
                    return SArr.fresh('prior_rvs', (n,) if rank1 else (n, d), 'real')
            s.prior = Prior()
        else:
            s.prior = None
        self._s = s
        kw = dict(method='L-BFGS-B', constraints=None, grad=s.grad, prior=s.prior, n_start_points=SInt(n), maxiter=1000,
                  random_state=None if self.mode == 'uniform-module' else s.rs)
        return s, (s.fun, s.bounds), kw

    def env(self, vc):
        s = self._s

        def sp_minimize(fun, x0, method=None, jac=None, bounds=None, constraints=None, options=None, **kw):
            """scipy.optimize.minimize: returns an ARBITRARY point x (a fresh 1-D array of the length of x0) and value fun.
            Ghost: the call is identified by the row of the start-point matrix it starts from."""
            if not (isinstance(x0, SArr) and x0.ndim == 1 and len(x0.view) == 2 and x0.view[0][0] == 'fix' and x0.perm is None):
                raise OutOfSubset('scipy.optimize.minimize started from something else than a row of the start-point matrix')
            row = x0.view[0][1]
            vc.oblige('call-pre[scipy minimize: objective, gradient and bounds are the caller\'s]', z3.BoolVal(fun is s.fun and jac is s.grad and bounds is s.bounds))
            vc.oblige('call-pre[scipy minimize: the start point has one entry per parameter]', x0.shape[0] == s.dim)
            vc.oblige('call-pre[scipy minimize: the start point lies inside the bounds]', vec_in_bounds(x0, s.dim))
            s.sp_calls.append(row)
            x = SArr(Cell(lambda j: OPTX(row, j), (s.dim,), 'real'))
            return {'x': x, 'fun': SReal(OPTF(row))}
        scipy = NS(optimize=NS(minimize=sp_minimize))

        def np_empty(shape, dtype=None):
            a = npspec.empty(shape, dtype)
            if a.ndim == 1:
                s.vals = a              # the vector of values (anchored to the allocation, not to the local's name)
            return a

        def np_argmin(a):
            s.ind_min = npspec.argmin(a)
            return s.ind_min
        return dict(np=np_module(empty=np_empty, argmin=np_argmin), scipy=scipy)

    def requires(self, s):
        r = [s.n >= 1, s.dim >= 1, ('bounds are well-formed', forall_range(0, s.dim, lambda j: LO(j) <= HI(j), 'j'))]
        if self.mode == 'prior-1d':
            r.append(s.dim == 1)
        return r

    # ---- loop contracts, keyed by source order: 0 uniform start columns, 1 clipped prior start columns, 2 optimiser runs, 3 final clip
    def _inv_start(self, s, l):
        sp = l.start_points
        if not (isinstance(sp, SArr) and sp.ndim == 2):
            return [('start points form a matrix', z3.BoolVal(False))]
        return [('start-point matrix is n_start_points x ndim', z3.And(sp.shape[0] == s.n, sp.shape[1] == s.dim)),
                ('the columns filled so far are inside their bounds',
                 forall_range(0, s.n, lambda r: forall_range(0, l.it.index, lambda j: inb(sp.at(r, j), j), 'j'), 'r'))]

    def _locs(self, l):
        lc = l.locs
        if isinstance(lc, list):
            if lc:
                raise OutOfSubset('non-empty concrete list of end points')
            return z3.IntVal(0), (lambda k, j: z3.RealVal(0))
        return lc.n, lc.at

    def _inv_runs(self, s, l):
        n_l, at = self._locs(l)
        k = l.it.index
        return [('one end point and one value per finished run', z3.And(n_l == k, s.vals.shape[0] == s.n)),
                ('end points and values are the optimiser results, in order',
                 forall_range(0, k, lambda i: z3.And(s.vals.at(i) == OPTF(i), forall_range(0, s.dim, lambda j: at(i, j) == OPTX(i, j), 'j')), 'i'))]

    def _inv_clip(self, s, l):
        m = T(s.ind_min)
        k = l.it.index
        return [('the selected end point is clipped up to the current coordinate and untouched beyond',
                 forall_range(0, s.dim, lambda j: l.locs.at(m, j) == z3.If(j < k, zclip(OPTX(m, j), LO(j), HI(j)), OPTX(m, j)), 'j')),
                ('values untouched', forall_range(0, s.n, lambda i: s.vals.at(i) == OPTF(i), 'i'))]

    @property
    def loops(self):
        from pyvc import instrument
        s_fresh = lambda why: ArrList(cur().fresh_int('n_locs'), self._s.dim, cur().fresh_fn('locs', I, I, R))
        runs = Loop(inv=self._inv_runs, modifies=lambda s, l: [s.vals], fresh={'locs': s_fresh})
        runs.rebind = ('locs',)
        all_ = {0: Loop(inv=self._inv_start, modifies=lambda s, l: [l.start_points]),
                1: Loop(inv=self._inv_start, modifies=lambda s, l: [l.start_points]),
                2: runs,
                3: Loop(inv=self._inv_clip, modifies=lambda s, l: [l.locs])}
        try:
            loc = instrument.locate(self.target, None)
            k = len(instrument.loops_in_source_order(loc.node))
        except Exception:
            k = 4
        return {i: L for i, L in all_.items() if i < k}

    def ensures(self, s, result):
        if not (isinstance(result, tuple) and len(result) == 2 and isinstance(result[0], SArr) and result[0].ndim == 1):
            return [('returns (location vector, value)', z3.BoolVal(False))]
        x, v = result[0], T(result[1])
        return [('the location has one entry per parameter', x.shape[0] == s.dim),
                ('the returned location lies inside the bounds, whatever the optimiser returned', vec_in_bounds(x, s.dim)),
                ('the returned value is the minimum of the evaluated values', forall_range(0, s.n, lambda i: v <= OPTF(i), 'i')),
                ('value and location belong to one optimiser run; the location is that run\'s end point clipped into the bounds',
                 exists_range(0, s.n, lambda k: z3.And(v == OPTF(k), forall_range(0, s.dim, lambda j: x.at(j) == zclip(OPTX(k, j), LO(j), HI(j)), 'j')), 'k'))]

    def witness(self, vc, model, ob):
        ev = lambda t: str(model.eval(t, model_completion=True))
        d = int(ev(z3.Int('ndim')))
        n = int(ev(z3.Int('n_start_points')))
        return dict(mode=self.mode, ndim=d, n_start_points=n, bounds=[[ev(LO(z3.IntVal(j))), ev(HI(z3.IntVal(j)))] for j in range(d)],
                    optimiser_end_points=[[ev(OPTX(z3.IntVal(i), z3.IntVal(j))) for j in range(d)] for i in range(n)],
                    optimiser_values=[ev(OPTF(z3.IntVal(i))) for i in range(n)])


# ---------------------------------------------------------------------------------------------- callee stubs (each proved by a contract above/below)
def minimize_stub(s):
    """bo/utils.minimize seen from the acquisition rules; post = what Minimize proves"""
    def stub(vc, fun, bounds, method='L-BFGS-B', constraints=None, grad=None, prior=None, n_start_points=10, maxiter=1000, random_state=None):
        vc.oblige('call-pre[minimize: the bounds are the surrogate model\'s bounds]', z3.BoolVal(bounds is s.bounds))
        vc.oblige('call-pre[minimize: at least one start point]', T(n_start_points) >= 1)
        x = SArr.fresh('xhat', (s.dim,), 'real')
        vc.assume(vec_in_bounds(x, s.dim))
        vc.libcall('minimize', dict(x=x, prior=prior, random_state=random_state))
        return x, SReal(vc.fresh('fmin', R))
    return Stub('minimize', stub, checked_by='Minimize')


def model_stub(s, **attrs):
    d = dict(bounds=s.bounds, input_dim=SInt(s.dim), Y=Opaque('gp.Y'), X=Opaque('gp.X'), noise=Opaque('gp.noise'), _gp=Opaque('gp._gp'),
             predict=lambda *a, **k: (Opaque('gp.mean'), Opaque('gp.var')))
    d.update(attrs)
    return NS(**d)


class _AcqContract(Contract):
    prop = 'C11'
    fin = 3
    fin_range = 4

    def base(self, vc):
        n, d = z3.Ints('n ndim')
        vc.fin_bounds.extend([n, d])
        s = NS(n=n, dim=d, bounds=Bounds(d), rs=RandomState())
        self._s = s
        return s

    def requires(self, s):
        return [s.n >= 1, s.dim >= 1, ('bounds are well-formed and non-degenerate', forall_range(0, s.dim, lambda j: LO(j) < HI(j), 'j'))]

    def points_post(self, s, result):
        if not (isinstance(result, SArr) and result.ndim == 2):
            return [('returns a matrix of points', z3.BoolVal(False))]
        return [('exactly the requested number of points, one column per parameter', z3.And(result.shape[0] == s.n, result.shape[1] == s.dim)),
                ('every acquired point lies inside the bounds', rows_in_bounds(result, s.n, s.dim))]

    def ensures(self, s, result):
        return self.points_post(s, result)


class TruncNorm:
    """scipy.stats.truncnorm.rvs(a, b, loc, scale, size): assumed (sanity-tested) - needs scale > 0 and a < b elementwise (else ValueError);
    sample k lies in [loc_k + a_k*scale, loc_k + b_k*scale] (real arithmetic; in floats an end point can be missed by an ulp)"""

    def rvs(self, a, b, loc=0, scale=1, size=None, random_state=None):
        vc = cur()
        sc, n = npspec._real(scale), zi(size)

        def vec(v):      # scipy broadcasts scalar shape / location parameters against `size`
            if isinstance(v, SArr) and v.ndim == 1:
                return v.snapshot()
            if isinstance(v, SArr) and v.ndim == 0:
                v = v.item()
            if isinstance(v, (SReal, SInt, int, float)):
                t = npspec._real(v)
                return SArr(Cell(lambda k: t, (n,), 'real'))
            raise OutOfSubset('truncnorm.rvs with a / b / loc of type %s' % type(v).__name__)
        a, b, loc = vec(a), vec(b), vec(loc)
        vc.oblige('call-pre[truncnorm.rvs: scale > 0]', sc > 0)
        vc.oblige('call-pre[truncnorm.rvs: a, b, loc have `size` entries]', z3.And(a.shape[0] == n, b.shape[0] == n, loc.shape[0] == n))
        vc.oblige('call-pre[truncnorm.rvs: a < b]', forall_range(0, n, lambda k: a.at(k) < b.at(k), 'k'))
        vc.oblige('call-pre[truncnorm.rvs: the generator is the acquisition\'s random_state]', z3.BoolVal(random_state is self.rs))
        out = SArr.fresh('truncnorm', (n,), 'real')
        vc.assume(forall_range(0, n, lambda k: z3.And(loc.at(k) + a.at(k) * sc <= out.at(k), out.at(k) <= loc.at(k) + b.at(k) * sc), 'k'))
        vc.libcall('truncnorm.rvs', dict(a=a, b=b, loc=loc, scale=sc, res=out))
        return out


class NoiseList(Sym):
    """the python list self.noise_var = [variance of parameter 0, ...] (one entry per parameter, from _transform_noise_var)"""

    def __init__(self, dim, f):
        self.dim, self.f = dim, f
        self.t = None

    def _vc_asarray(self):
        return SArr(Cell(lambda j: self.f(j), (self.dim,), 'real'))

    def _vc_len(self):
        return SInt(self.dim)


NV = z3.Function('noise_var', I, R)


class AddNoise(_AcqContract):
    """_add_noise: per column, zero variance => unchanged, else a truncated normal whose support is exactly [lo_i, hi_i]"""
    target = ACQ + 'AcquisitionBase._add_noise'

    def __init__(self, mode):
        self.mode = mode      # none | zero | scalar | per-parameter
        self.label = mode

    def setup(self, vc):
        s = self.base(vc)
        s.x = SArr.fresh('x', (s.n, s.dim), 'real')
        s.x0 = s.x.snapshot()
        nv = z3.Real('noise_var_scalar')
        s.nv = {'none': None, 'zero': (lambda j: z3.RealVal(0)), 'scalar': (lambda j: nv), 'per-parameter': (lambda j: NV(j))}[self.mode]
        noise = {'none': None, 'zero': 0, 'scalar': SReal(nv), 'per-parameter': NoiseList(s.dim, NV)}[self.mode]
        s.self = make_object('AcquisitionStub', attrs=dict(noise_var=noise, model=model_stub(s), random_state=s.rs))
        return s, (s.self, s.x), {}

    def env(self, vc):
        tn = TruncNorm()
        tn.rs = self._s.rs
        return dict(np=np_module(), ss=NS(truncnorm=tn))

    def requires(self, s):
        r = _AcqContract.requires(self, s) + [('the points handed in lie inside the bounds', rows_in_bounds(s.x, s.n, s.dim))]
        if s.nv is not None:
            r.append(('noise variances are non-negative (_check_noise_var)', forall_range(0, s.dim, lambda j: s.nv(j) >= 0, 'j')))
        return r

    def _inv(self, s, l):
        k = l.it.index
        return [('the matrix keeps its shape and every point stays inside the bounds', z3.And(z3.BoolVal(l.x is s.x), rows_in_bounds(s.x, s.n, s.dim))),
                ('columns with zero variance and columns not yet visited are unchanged',
                 forall_range(0, s.n, lambda r: forall_range(0, s.dim, lambda j: z3.Implies(z3.Or(j >= k, s.nv(j) == 0), s.x.at(r, j) == s.x0.at(r, j)), 'j'), 'r'))]

    @property
    def loops(self):
        return {0: Loop(inv=self._inv, modifies=lambda s, l: [s.x])}

    def ensures(self, s, result):
        out = [('returns the matrix it was given', z3.BoolVal(result is s.x))] + self.points_post(s, result)
        if s.nv is None:
            out.append(('no noise setting: every point unchanged', forall_range(0, s.n, lambda r: forall_range(0, s.dim, lambda j: s.x.at(r, j) == s.x0.at(r, j), 'j'), 'r')))
        else:
            out.append(('columns with zero noise variance are unchanged',
                        forall_range(0, s.n, lambda r: forall_range(0, s.dim, lambda j: z3.Implies(s.nv(j) == 0, s.x.at(r, j) == s.x0.at(r, j)), 'j'), 'r')))
        return out


class BaseAcquire(_AcqContract):
    """AcquisitionBase.acquire (LCBSC and every rule that inherits it): n copies of the clipped optimum, then the noise step"""
    target = ACQ + 'AcquisitionBase.acquire'

    def __init__(self, constrained):
        self.constrained = constrained
        self.label = 'constraints' if constrained else 'no-constraints'

    def setup(self, vc):
        s = self.base(vc)
        t = z3.Int('t')

        def add_noise(self_, x):
            vc.oblige('call-pre[_add_noise: a matrix of n points inside the bounds]',
                      z3.And(z3.BoolVal(isinstance(x, SArr) and x.ndim == 2), x.shape[0] == s.n, x.shape[1] == s.dim, rows_in_bounds(x, s.n, s.dim)))
            x._vc_havoc('noisy')
            vc.assume(rows_in_bounds(x, s.n, s.dim))
            return x
        s.self = make_object('AcquisitionStub', attrs=dict(model=model_stub(s), constraints=(object() if self.constrained else None), prior=object(),
                                                           n_inits=SInt(z3.Int('n_inits')), max_opt_iters=1000, random_state=s.rs),
                             methods=dict(_add_noise=add_noise, evaluate=lambda self_, x, t=None: Opaque('acq'), evaluate_gradient=lambda self_, x, t=None: Opaque('acq')))
        return s, (s.self, SInt(s.n)), dict(t=SInt(t))

    def env(self, vc):
        return dict(np=np_module(), minimize=minimize_stub(self._s))

    def requires(self, s):
        return _AcqContract.requires(self, s) + [z3.Int('n_inits') >= 1]


class MaxVarAcquire(_AcqContract):
    target = ACQ + 'MaxVar.acquire'

    def setup(self, vc):
        s = self.base(vc)
        s.self = make_object('MaxVarStub', attrs=dict(model=model_stub(s), prior=object(), quantile_eps=SReal(z3.Real('quantile_eps')), eps=SReal(z3.RealVal('0.1')),
                                                      n_inits=SInt(z3.Int('n_inits')), max_opt_iters=1000, random_state=s.rs),
                             methods=dict(evaluate=lambda self_, x, t=None: Opaque('acq'), evaluate_gradient=lambda self_, x, t=None: Opaque('acq')))
        return s, (s.self, SInt(s.n)), dict(t=SInt(z3.Int('t')))

    def env(self, vc):
        return dict(np=np_module(), minimize=minimize_stub(self._s))

    def requires(self, s):
        return _AcqContract.requires(self, s) + [z3.Int('n_inits') >= 1]


class FrozenUniform:
    """scipy.stats.uniform(loc, scale).rvs(size=(n, d)): assumed (sanity-tested) - scale > 0 elementwise (else ValueError); entry (r, j)
    lies in [loc_j, loc_j + scale_j] (broadcast along the last axis)"""

    def __init__(self, rs):
        self.rs = rs

    def __call__(self, loc, scale):
        vc = cur()
        loc, scale = loc.snapshot(), scale.snapshot()
        if loc.ndim != 1 or scale.ndim != 1:
            raise OutOfSubset('uniform with non-vector loc / scale')
        vc.oblige('call-pre[uniform: loc and scale have equal length]', loc.shape[0] == scale.shape[0])
        vc.oblige('call-pre[uniform: scale > 0]', forall_range(0, scale.shape[0], lambda j: scale.at(j) > 0, 'j'))
        me = self

        class Frozen:
            def rvs(self_, size=None, random_state=None):
                if not (isinstance(size, tuple) and len(size) == 2):
                    raise OutOfSubset('uniform.rvs size %r' % (size,))
                n, d = zi(size[0]), zi(size[1])
                vc.oblige('call-pre[uniform.rvs: the last axis broadcasts against loc]', d == loc.shape[0])
                vc.oblige('call-pre[uniform.rvs: the generator is the acquisition\'s random_state]', z3.BoolVal(random_state is me.rs))
                out = SArr.fresh('uniform', (n, d), 'real')
                vc.assume(forall_range(0, n, lambda r: forall_range(0, d, lambda j: z3.And(loc.at(j) <= out.at(r, j), out.at(r, j) <= loc.at(j) + scale.at(j)), 'j'), 'r'))
                return out
        return Frozen()


class UniformAcquire(_AcqContract):
    target = ACQ + 'UniformAcquisition.acquire'

    def setup(self, vc):
        s = self.base(vc)
        s.self = make_object('UniformStub', attrs=dict(model=model_stub(s), random_state=s.rs))
        return s, (s.self, SInt(s.n)), dict(t=SInt(z3.Int('t')))

    def env(self, vc):
        return dict(np=np_module(), ss=NS(uniform=FrozenUniform(self._s.rs)))


class MaxVarEvaluate(_AcqContract):
    """MaxVar.evaluate (inherited by RandMaxVar / used by ExpIntVar): shape of the value - one row per point and ONE column, also for a
    single parameter vector (the surrogate's predict reshapes to (-1, dim) and returns (rows, 1) arrays: C10).  RandMaxVar's log-density
    closures are judged against this shape."""
    target = ACQ + 'MaxVar.evaluate'
    options = {'div_check': False}          # values are uninterpreted here; this is a shape contract

    def __init__(self, rank):
        self.rank = rank
        self.label = 'theta-%dd' % rank

    def setup(self, vc):
        s = self.base(vc)
        s.theta = SArr.fresh('theta', (s.dim,) if self.rank == 1 else (s.n, s.dim), 'real')
        s.rows = z3.IntVal(1) if self.rank == 1 else s.n
        scalar_prior = vc.fork_values('prior_pdf_scalar', [True, False]) if self.rank == 1 else False

        def predict(x, noiseless=False):
            vc.oblige('call-pre[predict: the points have one entry per parameter]', x.shape[-1] == s.dim)
            return SArr.fresh('gp_mean', (s.rows, 1), 'real'), SArr.fresh('gp_var', (s.rows, 1), 'real')

        def pdf(x):
            # ModelPrior.pdf: one value per row; for a single vector of dim > 1 the bare value (0-d)
            return SArr.fresh('prior_pdf', (), 'real') if scalar_prior else SArr.fresh('prior_pdf', (s.rows,), 'real')
        s.self = make_object('MaxVarStub', attrs=dict(model=NS(predict=predict, noise=SReal(z3.Real('sigma2_n'))), eps=SReal(z3.Real('eps')), prior=NS(pdf=pdf)))
        return s, (s.self, s.theta), {}

    def env(self, vc):
        def cdf(x, *a, loc=0, scale=1):
            arrs = [v for v in list(a) + [loc, scale] if isinstance(v, SArr)]
            for v in arrs[1:]:
                for p_, q_ in zip(arrs[0].shape, v.shape):
                    vc.oblige('call-pre[cdf: array parameters have equal shapes]', p_ == q_)
            return SArr.fresh('cdf', arrs[0].shape, 'real')
        return dict(np=np_module(), ss=NS(skewnorm=NS(cdf=cdf), norm=NS(cdf=cdf)))

    def requires(self, s):
        return _AcqContract.requires(self, s) + [z3.Real('sigma2_n') > 0]

    def ensures(self, s, result):
        if not (isinstance(result, SArr) and result.ndim == 2):
            return [('the value is a 2-d array (rows, 1)', z3.BoolVal(False))]
        return [('one row per point (a single parameter vector is one point) and one column', z3.And(result.shape[0] == s.rows, result.shape[1] == 1))]


def _shape_text(v):
    if isinstance(v, SArr):
        return 'shape (%s)' % ', '.join(str(conc(k)) if conc(k) is not None else '?' for k in v.shape)
    return type(v).__name__


def _all_returns(vc, thunk):
    """the value a closure of the analysed function returns on THIS path (its branches fork the path as usual, so every way
    through the closure is visited by some path)"""
    return [thunk()]


class SystemExitModel(Exception):
    """stands for builtins.SystemExit inside the analysed function (a BaseException must not escape the engine)"""


SystemExitModel.__name__ = 'SystemExit'


class RandMaxVarAcquire(_AcqContract):
    """RandMaxVar.acquire: the acquired points are states of an MCMC chain (callee: elfi.methods.mcmc, C09).  The chain's contract
    confines its states to {log-density finite}, i.e. to the support of the PRIOR - nothing relates them to model.bounds, so the
    chain is modelled as an arbitrary (n_samples, dim) matrix.  Clauses: matrix shape / exactly n points / inside the bounds."""
    target = ACQ + 'RandMaxVar.acquire'

    def __init__(self, sampler):
        self.sampler = sampler
        self.label = sampler

    def setup(self, vc):
        s = self.base(vc)
        ns, wu, lim = z3.Ints('n_samples warmup limit_faulty_init')
        vc.fin_bounds.extend([ns, wu, lim])
        s.ns, s.wu, s.lim = ns, wu, lim
        s.init_from_prior = vc.fork_values('init_from_prior', [False, True])
        s.chains = []

        class Prior:
            def rvs(self_, size=None, random_state=None):
                if size is not None:
                    raise OutOfSubset('prior.rvs(size)')
                return SArr.fresh('prior_draw', (s.dim,), 'real')

        def chain_of(sampler):
            def chain(n_samples, params0, target, *a, **kw):
                vc.oblige('call-pre[mcmc: chain length is n_samples]', T(n_samples) == ns)
                vc.oblige('call-pre[mcmc: the initial point has one entry per parameter and lies inside the bounds]',
                          z3.And(z3.BoolVal(isinstance(params0, SArr) and params0.ndim == 1), params0.shape[0] == s.dim, vec_in_bounds(params0, s.dim)))
                # the callee's precondition on the closures it is handed (C09: the log-target maps a parameter vector to a SCALAR, its gradient to a
                # vector): each closure is run once on an arbitrary point.  nuts converts comparisons of the log-target with float(): 0-d only;
                # metropolis only takes truth values, so a one-element array of any rank also serves.
                probe = SArr.fresh('chain_point', (s.dim,), 'real')
                for v in _all_returns(vc, lambda: target(probe)):
                    if sampler == 'nuts':
                        ok = isinstance(v, (SReal, SInt, int, float)) or (isinstance(v, SArr) and v.ndim == 0)
                        vc.oblige('call-pre[mcmc.nuts: the log-target returns a scalar (0-d), got %s]' % _shape_text(v), z3.BoolVal(ok))
                    else:
                        ok = isinstance(v, (SReal, SInt, int, float)) or (isinstance(v, SArr) and all(conc(k) == 1 for k in v.shape))
                        vc.oblige('call-pre[mcmc.metropolis: the log-target returns one value, got %s]' % _shape_text(v), z3.BoolVal(ok))
                if sampler == 'nuts':
                    grad = a[0] if a else kw.get('grad_target')
                    for g_ in _all_returns(vc, lambda: grad(probe)):
                        if isinstance(g_, SArr) and g_.ndim == 1:
                            vc.oblige('call-pre[mcmc.nuts: the gradient of the log-target has one entry per parameter]', g_.shape[0] == s.dim)
                        else:
                            ok = isinstance(g_, (SReal, SInt, int, float)) or (isinstance(g_, SArr) and g_.ndim == 0)      # a scalar broadcasts over the momentum
                            vc.oblige('call-pre[mcmc.nuts: the gradient of the log-target is a vector (or a scalar), got %s]' % _shape_text(g_), z3.BoolVal(ok))
                out = SArr.fresh('chain', (ns, s.dim), 'real')
                s.chains.append(out)
                return out
            return chain
        s.mcmc = NS(metropolis=chain_of('metropolis'), nuts=chain_of('nuts'))

        def evaluate(self_, x, t=None):
            # post of MaxVarEvaluate: one row per point, ONE column (a single parameter vector is one point)
            rows = z3.IntVal(1) if (isinstance(x, SArr) and x.ndim == 1) else x.shape[0]
            return SArr.fresh('acq_value', (rows, 1), 'real')

        def evaluate_gradient(self_, x, t=None):
            rows = z3.IntVal(1) if (isinstance(x, SArr) and x.ndim == 1) else x.shape[0]
            return SArr.fresh('acq_grad', (rows, s.dim), 'real')
        s.self = make_object('RandMaxVarStub', attrs=dict(
            model=model_stub(s), prior=Prior(), quantile_eps=SReal(z3.Real('quantile_eps')), eps=SReal(z3.RealVal('0.1')), random_state=s.rs,
            _n_samples=SInt(ns), _warmup=SInt(wu), _limit_faulty_init=SInt(lim), _init_from_prior=s.init_from_prior, name_sampler=self.sampler,
            _sigma_proposals=Opaque('sigma'), seed=0),
            methods=dict(evaluate=evaluate, evaluate_gradient=evaluate_gradient))
        return s, (s.self, SInt(s.n)), dict(t=SInt(z3.Int('t')))

    options = {'div_check': False}          # the density value in the denominator of the log-gradient is non-zero on that branch of the closure

    def env(self, vc):
        return dict(np=np_module(), mcmc=self._s.mcmc, SystemExit=SystemExitModel)

    def requires(self, s):
        return _AcqContract.requires(self, s) + [s.ns >= 1, s.wu >= 0, s.wu <= s.ns, s.lim >= 0]

    def _inv_theta(self, s, l):
        th = l.theta_init
        if not (isinstance(th, SArr) and th.ndim == 1):
            return [('the initial point is a vector', z3.BoolVal(False))]
        return [('the initial point has one entry per parameter; the entries visited so far are inside their bounds',
                 z3.And(th.shape[0] == s.dim, forall_range(0, l.it.index, lambda j: inb(th.at(j), j), 'j')))]

    @property
    def loops(self):
        return {0: Loop(inv=lambda s, l: [('the attempt counter stays below the limit (the last attempt exits)', l.it.index <= s.lim)]),
                1: Loop(inv=self._inv_theta, modifies=lambda s, l: [l.theta_init]),
                2: Loop(inv=self._inv_theta, modifies=lambda s, l: [l.theta_init])}

    def raises(self, s):
        return {'ValueError': s.n > s.ns - s.wu,          # more points requested than the chain keeps after warm-up
                'SystemExit': z3.BoolVal(True)}          # "Unable to find a suitable initial point" after limit_faulty_init attempts

    def ensures(self, s, result):
        if not (isinstance(result, SArr) and result.ndim == 2):
            return [('returns a matrix of points', z3.BoolVal(False))]
        return [('one column per parameter', result.shape[1] == s.dim),
                ('exactly the requested number of points', result.shape[0] == s.n),
                ('every acquired point is a state of the one chain that was run (so it is inside the bounds whenever the chain stays inside)',
                 z3.And(z3.BoolVal(len(s.chains) == 1), forall_range(0, result.shape[0], lambda r: exists_range(0, s.ns, lambda k: forall_range(
                     0, s.dim, lambda j: result.at(r, j) == s.chains[0].at(k, j), 'j'), 'k'), 'r')) if len(s.chains) == 1 else z3.BoolVal(False)),
                ('every acquired point lies inside the bounds', rows_in_bounds(result, result.shape[0], s.dim))]

    def witness(self, vc, model, ob):
        ev = lambda t: str(model.eval(t, model_completion=True))
        return dict(sampler=self.sampler, n=ev(z3.Int('n')), n_samples=ev(z3.Int('n_samples')), warmup=ev(z3.Int('warmup')), ndim=ev(z3.Int('ndim')))


class _OpaqueNp:
    """numpy for code whose numerics the property does not depend on: any call with an Opaque argument yields Opaque"""

    def __init__(self, base):
        self.__dict__['_base'] = base

    def __getattr__(self, name):
        def f(*a, **k):
            if any(isinstance(v, Opaque) for v in list(a) + list(k.values())):
                return Opaque('np.' + name)
            return getattr(self._base, name)(*a, **k)
        try:
            v = getattr(self._base, name)
        except OutOfSubset:
            return lambda *a, **k: (Opaque('np.' + name) if any(isinstance(x, Opaque) for x in list(a) + list(k.values())) else _oos('numpy.%s' % name))
        if callable(v) and not isinstance(v, type):
            return f
        return v


def _oos(what):
    raise OutOfSubset('%s is not in the spec table' % what)


class FillArr(SArr):
    __slots__ = ()

    def fill(self, v):
        self[slice(None)] = v


def np_empty_fill(shape, dtype=None):
    a = npspec.empty(shape, dtype)
    return FillArr(a.cell, a.view, a.shape, a.perm)


class ExpIntVarAcquire(_AcqContract):
    """ExpIntVar.acquire: the GP / integration-point numerics are opaque; the acquired batch is tile(minimize(...))"""
    target = ACQ + 'ExpIntVar.acquire'

    def __init__(self, integration):
        self.integration = integration
        self.label = integration

    def setup(self, vc):
        s = self.base(vc)
        G = z3.Int('n_integration_points')
        vc.fin_bounds.append(G)
        s.G = G
        s.is_calls = []

        def is_acquire(n_imp, t=None):
            s.is_calls.append(n_imp)
            return SArr.fresh('importance_points', (zi(n_imp), s.dim), 'real')
        attrs = dict(model=model_stub(s), prior=Opaque('prior'), quantile_eps=SReal(z3.Real('quantile_eps')), eps=SReal(z3.RealVal('0.1')), random_state=s.rs,
                     n_inits=SInt(z3.Int('n_inits')), max_opt_iters=1000, _integration=self.integration, _iter_imp=SInt(z3.Int('iter_imp')),
                     _n_samples_imp=SInt(G), density_is=NS(acquire=is_acquire), points_int=SArr.fresh('points_int', (G, s.dim), 'real'))
        s.self = make_object('ExpIntVarStub', attrs=attrs, methods=dict(evaluate=lambda self_, x, t=None: Opaque('loss')))
        return s, (s.self, SInt(s.n), SInt(z3.Int('t'))), {}

    def env(self, vc):
        return dict(np=_OpaqueNp(np_module(empty=np_empty_fill)), minimize=minimize_stub(self._s), ss=Opaque('scipy.stats'),
                    MaxVar=NS(evaluate=lambda self_, x, t=None: Opaque('maxvar')))

    def requires(self, s):
        return _AcqContract.requires(self, s) + [z3.Int('n_inits') >= 1, s.G >= 1, z3.Int('iter_imp') >= 1, z3.Int('t') >= 0]


# ============================================================================================== evidence bookkeeping (bolfi.py)
PI = 'elfi/methods/inference/parameter_inference.py::'
ACQ_INDEX = z3.Function('acq_index', I, I)        # the acquisition index of a batch index (GetAcquisitionIndex pins it to the floor quotient)


def floor_quot(t, num, den):
    """t = floor(num / den) for den > 0, as two inequalities (no division)"""
    return z3.And(t * den <= num, num < (t + 1) * den)


def bo_ints(vc):
    b, bpa, ni, npre = z3.Ints('batch_size batches_per_acquisition n_initial_evidence n_precomputed_evidence')
    vc.fin_bounds.extend([b, bpa, ni, npre])
    return b, bpa, ni, npre


class GetAcquisitionIndex(Contract):
    target = BOLFI + 'BayesianOptimization._get_acquisition_index'
    prop = 'C11'
    fin = 4

    def setup(self, vc):
        b, bpa, ni, npre = bo_ints(vc)
        i = z3.Int('batch_index')
        vc.fin_bounds.append(i)
        s = NS(b=b, bpa=bpa, ni=ni, npre=npre, i=i)
        s.self = make_object('BOStub', attrs=dict(batch_size=SInt(b), batches_per_acquisition=SInt(bpa), n_initial_evidence=SInt(ni), n_precomputed_evidence=SInt(npre)))
        return s, (s.self, SInt(i)), {}

    def requires(self, s):
        return [s.b >= 1, s.bpa >= 1, s.ni >= 0, s.npre >= 0, s.i >= 0]

    def ensures(self, s, result):
        t = T(result)
        off = s.ni - s.npre
        return [('t = floor((batch_size * batch_index - (n_initial - n_precomputed)) / (batch_size * batches_per_acquisition))',
                 floor_quot(t, s.b * s.i - off, s.b * s.bpa)),
                ('t < 0 exactly while the batch still belongs to the initial evidence', (t < 0) == (s.b * s.i < off))]


class ResolveInitialEvidence(Contract):
    target = BOLFI + 'BayesianOptimization._resolve_initial_evidence'
    prop = 'C11'
    fin = 4

    def __init__(self, form):
        self.form = form          # default | count | precomputed
        self.label = form

    def setup(self, vc):
        b, given, npre = z3.Ints('batch_size initial_evidence n_precomputed')
        vc.fin_bounds.extend([b, given, npre])
        dim = vc.fork_values('input_dim', [1, 2, 3, 4, 5])
        s = NS(b=b, given=given, npre=npre, input_dim=dim)
        s.pre = {'d': SArr.fresh('pre_d', (npre,), 'real'), 'a': SArr.fresh('pre_a', (npre,), 'real')}
        s.self = make_object('BOStub', attrs=dict(batch_size=SInt(b), target_name='d', target_model=NS(input_dim=dim)))
        arg = {'default': None, 'count': SInt(given), 'precomputed': s.pre}[self.form]
        return s, (s.self, arg), {}

    def env(self, vc):
        return dict(ceil_to_batch_size=inline(vc, 'elfi/methods/utils.py::ceil_to_batch_size'),
                    np=np_module(isscalar=lambda x: isinstance(x, (SInt, SReal, int, float))))

    def requires(self, s):
        return [s.b >= 1, s.npre >= 0]

    def raises(self, s):
        return {'ValueError': s.given < 0 if self.form == 'count' else z3.BoolVal(False)}

    def iff_raises(self, s):
        return [('a negative count is rejected', s.given >= 0)] if self.form == 'count' else []

    def ensures(self, s, result):
        if not (isinstance(result, tuple) and len(result) == 2):
            return [('returns (n_initial_evidence, precomputed)', z3.BoolVal(False))]
        n = T(result[0])
        ceil_of = lambda want: z3.And(n >= want, n < want + s.b, exists_range(0, want + 1, lambda k: n == k * s.b, 'k'))
        if self.form == 'precomputed':
            return [('precomputed evidence: the count is the number of precomputed target values, the dict is passed on', z3.And(n == s.npre, z3.BoolVal(result[1] is s.pre)))]
        if self.form == 'count':
            return [('count: rounded up to the next multiple of batch_size, nothing precomputed', z3.And(ceil_of(s.given), z3.BoolVal(result[1] is None)))]
        want = max(10, 2 ** s.input_dim + 1)
        return [('default: max(10, 2^dim + 1) rounded up to the next multiple of batch_size', z3.And(ceil_of(z3.IntVal(want)), z3.BoolVal(result[1] is None)))]


NAMES_MODEL = ['a', 'b']          # order of the parameters in the ElfiModel / in a batch
NAMES_GP = ['b', 'a']             # target_model.parameter_names: the column order of the surrogate (deliberately different)
# the batch-dict / evidence bookkeeping contracts are per CONCRETE number of parameters (dict keys are concrete strings); families proved:
NAME_FAMILIES = {1: (['a'], ['a']), 2: (['a', 'b'], ['b', 'a']), 3: (['a', 'b', 'c'], ['c', 'a', 'b']), 4: (['a', 'b', 'c', 'd2'], ['b', 'd2', 'a', 'c'])}


def _use_names(c):
    """select the parameter-name family of contract `c` (module globals: every helper below reads them); called first thing in setup()"""
    global NAMES_MODEL, NAMES_GP
    NAMES_MODEL, NAMES_GP = (list(x) for x in NAME_FAMILIES[getattr(c, 'npar', 2)])
    return len(NAMES_GP)


class _NPar:
    """mixin: contract instances per number of parameters"""
    npar = 2

    def with_npar(self, k):
        self.npar = k
        if k != 2:
            self.label = ((getattr(self, 'label', '') or '') + ',%d-parameters' % k).lstrip(',')
        return self


class GPStub:
    """the surrogate (GPyRegression) seen from BayesianOptimization.  Assumed callee contract (C10, gpy_regression.update):
    X' = X ++ x, Y' = Y ++ y, n_evidence' = n_evidence + len(x); needs x with one column per parameter and len(x) == len(y)."""

    def __init__(self, vc, N, names=None):
        names = NAMES_GP if names is None else names
        self.parameter_names = list(names)
        self.input_dim = len(names)
        self.N0 = N
        self.N = N
        self.X0 = SArr.fresh('X0', (N, len(names)), 'real')
        self.Y0 = SArr.fresh('Y0', (N,), 'real')
        self.X, self.Y = self.X0, self.Y0
        self.calls = []

    def __bool__(self):
        return True

    @property
    def n_evidence(self):
        return SInt(self.N)

    def update(self, x, y, optimize=False):
        vc = cur()
        if not (isinstance(x, SArr) and x.ndim == 2 and isinstance(y, SArr) and y.ndim == 1):
            raise OutOfSubset('target_model.update with x of rank != 2 or y of rank != 1')
        x, y = x.snapshot(), y.snapshot()
        vc.oblige('call-pre[C10 update: one column per surrogate parameter, as many targets as points]',
                  z3.And(x.shape[1] == self.input_dim, x.shape[0] == y.shape[0]))
        self.calls.append(dict(x=x, y=y, optimize=optimize, N_before=self.N))
        X, Y, N = self.X.snapshot(), self.Y.snapshot(), self.N
        self.X = SArr(Cell(lambda r, j: z3.If(r < N, X.at(r, j), x.at(r - N, j)), (N + x.shape[0], z3.IntVal(self.input_dim)), 'real'))
        self.Y = SArr(Cell(lambda r: z3.If(r < N, Y.at(r), y.at(r - N)), (N + y.shape[0],), 'real'))
        self.N = N + x.shape[0]


def batch_of(prefix, rows):
    """a batch dict: target 'd' and one 1-d output per model parameter, each with `rows` entries"""
    return {k: SArr.fresh('%s_%s' % (prefix, k), (rows,), 'real') for k in ['d'] + NAMES_MODEL}


def appended(gp, N0, rows, batch, target='d'):
    """evidence after = evidence before ++ the batch's (parameters in surrogate column order, target) pairs"""
    d = len(gp.parameter_names)
    keep = forall_range(0, N0, lambda r: z3.And(gp.Y.at(r) == gp.Y0.at(r), z3.And([gp.X.at(r, j) == gp.X0.at(r, j) for j in range(d)])), 'r')
    new = forall_range(0, rows, lambda r: z3.And(gp.Y.at(N0 + r) == batch[target].at(r),
                                                  z3.And([gp.X.at(N0 + r, j) == batch[gp.parameter_names[j]].at(r) for j in range(d)])), 'r')
    return z3.And(gp.X.shape[0] == N0 + rows, gp.Y.shape[0] == N0 + rows, keep, new)


def bo_env(vc):
    return dict(batch_to_arr2d=inline(vc, 'elfi/methods/utils.py::batch_to_arr2d'), arr2d_to_batch=inline(vc, 'elfi/methods/utils.py::arr2d_to_batch'),
                np=np_module(), super=lambda cls, obj: obj._vc_super(), BayesianOptimization=object())


class BOInit(_NPar, Contract):
    """BayesianOptimization.__init__: precomputed evidence goes to the surrogate once, columns in the surrogate's parameter order,
    and n_evidence counts exactly it"""
    target = BOLFI + 'BayesianOptimization.__init__'
    prop = 'C11'
    fin = 4

    def __init__(self, form):
        self.form = form      # precomputed | count
        self.label = form

    def setup(self, vc):
        _use_names(self)
        b, ni, npre = z3.Ints('batch_size n_initial_resolved n_precomputed')
        vc.fin_bounds.extend([b, ni, npre])
        s = NS(b=b, ni=ni, npre=npre)
        s.gp = GPStub(vc, z3.IntVal(0))
        s.pre = batch_of('pre', npre) if self.form == 'precomputed' else None
        s.initial_evidence = s.pre if self.form == 'precomputed' else SInt(z3.Int('initial_evidence'))
        s.model = NS(parameter_names=list(NAMES_MODEL))
        s.made = []

        def base_init(model, output_names, batch_size=1, **kw):
            o = s.self
            o.model, o.output_names, o.batch_size = model, output_names, batch_size
            o.state, o.objective = dict(n_sim=0, n_batches=0), dict()
            o.max_parallel_batches, o.seed = SInt(z3.Int('max_parallel_batches')), 7
            s.made.append(('base', output_names))

        def resolve_initial(self_, ie):
            vc.oblige('call-pre[_resolve_initial_evidence receives the initial_evidence argument]', z3.BoolVal(ie is s.initial_evidence))
            return SInt(ni), s.pre
        s.self = make_object('BOStub', methods=dict(_vc_super=lambda self_: NS(__init__=base_init), _resolve_model=lambda self_, m, t: (m, t),
                                                    _resolve_initial_evidence=resolve_initial))
        s.acq = object()
        kw = dict(target_name='d', bounds=None, initial_evidence=s.initial_evidence, update_interval=SInt(z3.Int('update_interval')), target_model=s.gp,
                  acquisition_method=s.acq, batch_size=SInt(b), batches_per_acquisition=None, async_acq=False)
        return s, (s.self, s.model), kw

    def env(self, vc):
        e = bo_env(vc)
        e.update(ModelPrior=lambda *a, **k: Opaque('ModelPrior'), LCBSC=lambda *a, **k: _oos('default acquisition'), GPyRegression=lambda *a, **k: _oos('default surrogate'))
        return e

    def requires(self, s):
        return [s.b >= 1, s.ni >= 0, s.npre >= 1, z3.Int('max_parallel_batches') >= 1] + ([s.ni == s.npre] if self.form == 'precomputed' else [])

    def ensures(self, s, result):
        o, gp = s.self, s.gp
        out = [('the requested outputs are the target followed by the model parameters', z3.BoolVal(s.made == [('base', ['d'] + NAMES_MODEL)])),
               ('the surrogate and the acquisition rule are the ones passed in', z3.BoolVal(o.target_model is gp and o.acquisition_method is s.acq)),
               ('no acquisition is stored yet', z3.BoolVal(isinstance(o.state.get('acquisition'), list) and o.state['acquisition'] == []))]
        if self.form == 'precomputed':
            out += [('the surrogate is trained exactly once, on the precomputed evidence, columns in the surrogate\'s parameter order',
                     z3.And(z3.BoolVal(len(gp.calls) == 1), appended(gp, z3.IntVal(0), s.npre, s.pre))),
                    ('n_evidence counts the precomputed evidence', z3.And(T(o.state['n_evidence']) == s.npre, T(o.n_precomputed_evidence) == s.npre, T(o.state['n_evidence']) == gp.N))]
        else:
            out += [('nothing precomputed: the surrogate is not trained and n_evidence = 0',
                     z3.And(z3.BoolVal(len(gp.calls) == 0), T(o.state['n_evidence']) == 0, T(o.n_precomputed_evidence) == 0))]
        out.append(('n_initial_evidence is what _resolve_initial_evidence returned', T(o.n_initial_evidence) == s.ni))
        return out


class BOUpdate(_NPar, Contract):
    """BayesianOptimization.update: n_evidence += batch_size; the surrogate receives exactly the batch's parameters (columns in the
    surrogate's parameter order) and target values, once: X' = X ++ params, Y' = Y ++ target (with C10's update contract)"""
    target = BOLFI + 'BayesianOptimization.update'
    prop = 'C11'
    fin = 4

    def setup(self, vc):
        _use_names(self)
        b, N, last, interval, ni = z3.Ints('batch_size n_evidence last_GP_update update_interval n_initial_evidence')
        vc.fin_bounds.extend([b, N])
        s = NS(b=b, N=N, last=last, interval=interval, ni=ni)
        s.gp = GPStub(vc, N)
        s.batch = batch_of('batch', b)
        s.base_calls = []
        s.opt = z3.Bool('should_optimize')
        s.state = dict(n_evidence=SInt(N), last_GP_update=SInt(last), n_batches=SInt(z3.Int('n_batches')), n_sim=SInt(z3.Int('n_sim')), acquisition=[])
        s.self = make_object('BOStub', attrs=dict(state=s.state, batch_size=SInt(b), target_model=s.gp, target_name='d', model=NS(parameter_names=list(NAMES_MODEL))),
                             methods=dict(_vc_super=lambda self_: NS(update=lambda batch, i: s.base_calls.append((batch, i))),
                                          _report_batch=lambda self_, *a: None, _should_optimize=lambda self_: SBool(s.opt)))
        s.idx = SInt(z3.Int('batch_index'))
        return s, (s.self, s.batch, s.idx), {}

    def env(self, vc):
        return bo_env(vc)

    def requires(self, s):
        return [s.b >= 1, s.N >= 0]

    def ensures(self, s, result):
        gp, st = s.gp, s.state
        return [('the base class counts the batch (same batch, same index)', z3.BoolVal(len(s.base_calls) == 1 and s.base_calls[0][0] is s.batch and s.base_calls[0][1] is s.idx)),
                ('n_evidence grows by batch_size', T(st['n_evidence']) == s.N + s.b),
                ('the surrogate is trained exactly once with this batch; its evidence is the old evidence followed by the batch\'s (parameters, target) pairs in order',
                 z3.And(z3.BoolVal(len(gp.calls) == 1), appended(gp, s.N, s.b, s.batch))),
                ('n_evidence keeps counting the surrogate\'s evidence', T(st['n_evidence']) == gp.N),
                ('hyperparameters are re-optimised exactly when _should_optimize says so; last_GP_update then is the new evidence count',
                 z3.And(gp.calls[0]['optimize'].t == s.opt if gp.calls and isinstance(gp.calls[0]['optimize'], SBool) else z3.BoolVal(False),
                        T(st['last_GP_update']) == z3.If(s.opt, s.N + s.b, s.last)))]


class ShouldOptimize(Contract):
    target = BOLFI + 'BayesianOptimization._should_optimize'
    prop = 'C11'
    fin = 4

    def setup(self, vc):
        b, N, last, interval, ni = z3.Ints('batch_size n_evidence last_GP_update update_interval n_initial_evidence')
        vc.fin_bounds.extend([b, N])
        s = NS(b=b, N=N, last=last, interval=interval, ni=ni)
        s.self = make_object('BOStub', attrs=dict(state=dict(last_GP_update=SInt(last)), batch_size=SInt(b), target_model=NS(n_evidence=SInt(N)),
                                                  update_interval=SInt(interval), n_initial_evidence=SInt(ni)))
        return s, (s.self,), {}

    def requires(self, s):
        return [s.b >= 1, s.N >= 0]

    def ensures(self, s, result):
        after = s.N + s.b
        return [('optimise iff the evidence after this batch reaches the initial evidence and the next update point', T(result) == z3.And(after >= s.ni, after >= s.last + s.interval))]


class NEvidence(Contract):
    target = BOLFI + 'BayesianOptimization.n_evidence'
    prop = 'C11'
    fin = 4

    def setup(self, vc):
        N = z3.Int('n_evidence')
        s = NS(N=N)
        s.self = make_object('BOStub', attrs=dict(state=dict(n_evidence=SInt(N))))
        return s, (s.self,), {}

    def ensures(self, s, result):
        return [('n_evidence reports the counter of the state', T(result) == s.N)]


def acq_index_stub(s):
    """_get_acquisition_index seen from its callers (post = GetAcquisitionIndex)"""
    def stub(self_, batch_index):
        vc = cur()
        i = T(batch_index)
        vc.oblige('call-pre[_get_acquisition_index: batch_index >= 0]', i >= 0)
        t = ACQ_INDEX(i)
        vc.assume(floor_quot(t, s.b * i - (s.ni - s.npre), s.b * s.bpa))
        return SInt(t)
    return stub


class AllowSubmit(Contract):
    """_allow_submit: with synchronous acquisition a batch that would trigger a new acquisition is not allowed while any batch is pending"""
    target = BOLFI + 'BayesianOptimization._allow_submit'
    prop = 'C11'
    fin = 4

    def setup(self, vc):
        b, bpa, ni, npre = bo_ints(vc)
        i, pend, left = z3.Ints('batch_index num_pending acquisitions_left')
        vc.fin_bounds.extend([i, pend, left])
        s = NS(b=b, bpa=bpa, ni=ni, npre=npre, i=i, pend=pend, left=left, base_ok=z3.Bool('base_allows'), async_=z3.Bool('async_acq'))
        # state an equivalent formulation of "some batch is pending" may read; pinned by invariants proved elsewhere: n_evidence = n_precomputed +
        # batch_size * consumed batches (BOInit, BOUpdate), n_sim / n_batches (ParameterInference.update), submitted = consumed + pending (BatchHandler, C04)
        total = z3.Int('batches_total')
        vc.fin_bounds.append(total)
        s.total = total
        consumed = total - pend
        s.self = make_object('BOStub', attrs=dict(async_acq=SBool(s.async_), batch_size=SInt(b), batches_per_acquisition=SInt(bpa),
                                                  n_initial_evidence=SInt(ni), n_precomputed_evidence=SInt(npre),
                                                  state=dict(acquisition=SArr.fresh('acq', (left, 2), 'real'), n_evidence=SInt(npre + b * consumed),
                                                             n_batches=SInt(consumed), n_sim=SInt(b * consumed)),
                                                  batches=NS(has_pending=SBool(pend > 0), num_pending=SInt(pend), total=SInt(total), next_index=SInt(total),
                                                             num_ready=SInt(consumed))),
                             methods=dict(_vc_super=lambda self_: NS(_allow_submit=lambda i_: SBool(s.base_ok)), _get_acquisition_index=acq_index_stub(s)))
        return s, (s.self, SInt(i)), {}

    def env(self, vc):
        return bo_env(vc)

    def requires(self, s):
        return [s.b >= 1, s.bpa >= 1, s.ni >= 0, s.npre >= 0, s.i >= 0, s.pend >= 0, s.left >= 0, s.total >= s.pend]

    def ensures(self, s, result):
        r = T(result)
        t = ACQ_INDEX(s.i)
        return [('never more permissive than the base rule', z3.Implies(r, s.base_ok)),
                ('synchronous acquisition: a batch that needs a NEW acquisition (t >= 0, none left over) is allowed only when no batch is pending',
                 z3.Implies(z3.And(r, z3.Not(s.async_), t >= 0, s.left == 0), s.pend == 0)),
                ('initial-evidence batches, left-over acquisitions and asynchronous mode follow the base rule',
                 z3.Implies(z3.And(s.base_ok, z3.Or(s.async_, t < 0, s.left > 0, s.pend == 0)), r))]


def allowed_fact(async_, t, left, pend):
    """what a True answer of _allow_submit guarantees (AllowSubmit, second clause)"""
    return z3.Implies(z3.And(z3.Not(async_), t >= 0, left == 0), pend == 0)


class PrepareNewBatch(_NPar, Contract):
    """prepare_new_batch: initial-evidence batches come from the prior (None); otherwise the next batch_size rows of the stored
    acquisition, a new acquisition being made only when none is left - and then, if not async, with no batch pending"""
    target = BOLFI + 'BayesianOptimization.prepare_new_batch'
    prop = 'C11'
    fin = 3
    fin_range = 10

    def setup(self, vc):
        D = _use_names(self)
        b, bpa, ni, npre = bo_ints(vc)
        i, pend, m = z3.Ints('batch_index num_pending stored_batches')
        vc.fin_bounds.extend([i, pend, m])
        s = NS(b=b, bpa=bpa, ni=ni, npre=npre, i=i, pend=pend, m=m, async_=z3.Bool('async_acq'), dim=z3.IntVal(D), bounds=Bounds(z3.IntVal(D)))
        s.D = D
        s.stored = SArr.fresh('stored_acq', (m * b, D), 'real')
        s.acquired = []

        def acquire(n, t=None):
            vc.oblige('call-pre[acquire: with synchronous acquisition no batch is pending]', z3.Or(s.async_, s.pend == 0))
            vc.oblige('call-pre[acquire: asks for batch_size * batches_per_acquisition points at the acquisition index of the batch]',
                      z3.And(T(n) == b * bpa, T(t) == ACQ_INDEX(i)))
            out = SArr.fresh('acquired', (b * bpa, D), 'real')      # post of the acquisition rules' contracts: exactly n points, inside the bounds
            vc.assume(rows_in_bounds(out, b * bpa, D))
            s.acquired.append(out)
            return out
        s.state = dict(acquisition=s.stored)
        s.gp = NS(parameter_names=list(NAMES_GP))
        s.self = make_object('BOStub', attrs=dict(state=s.state, batch_size=SInt(b), batches_per_acquisition=SInt(bpa), target_model=s.gp,
                                                  acquisition_method=NS(acquire=acquire)),
                             methods=dict(_get_acquisition_index=acq_index_stub(s)),
                             properties=dict(acq_batch_size=inline(vc, BOLFI + 'BayesianOptimization.acq_batch_size')))
        return s, (s.self, SInt(i)), {}

    def env(self, vc):
        return bo_env(vc)

    def requires(self, s):
        return [s.b >= 1, s.bpa >= 1, s.ni >= 0, s.npre >= 0, s.i >= 0, s.pend >= 0, s.m >= 0,
                ('stored acquisitions lie inside the bounds (posts of acquire and of this function)', rows_in_bounds(s.stored, s.m * s.b, s.D)),
                ('the batch was allowed by _allow_submit in this state', allowed_fact(s.async_, ACQ_INDEX(s.i), s.m * s.b, s.pend))]

    def ensures(self, s, result):
        t = ACQ_INDEX(s.i)
        if result is None:
            return [('None (parameters from the prior) only for initial-evidence batches; nothing acquired, the stored acquisition untouched',
                     z3.And(t < 0, z3.BoolVal(not s.acquired and s.state['acquisition'] is s.stored)))]
        if not (isinstance(result, dict) and list(result.keys()) == NAMES_GP and all(isinstance(v, SArr) and v.ndim == 1 for v in result.values())):
            return [('returns one 1-d array per surrogate parameter', z3.BoolVal(False))]
        src = s.acquired[0] if s.acquired else s.stored
        M = s.bpa if s.acquired else s.m
        rest = s.state['acquisition']
        if not (isinstance(rest, SArr) and rest.ndim == 2):
            return [('the rest of the acquisition stays stored as a matrix', z3.BoolVal(False))]
        return [('a batch is built only after the initial evidence', t >= 0),
                ('a new acquisition is made exactly when none was left', z3.And(z3.BoolVal(len(s.acquired) <= 1), (s.m == 0) == z3.BoolVal(bool(s.acquired)))),
                ('the batch holds exactly batch_size points: the first rows of the acquisition, parameter j from column j of the surrogate\'s order',
                 z3.And([z3.And(result[NAMES_GP[j]].shape[0] == s.b, forall_range(0, s.b, lambda r, j=j: result[NAMES_GP[j]].at(r) == src.at(r, j), 'r')) for j in range(s.D)])),
                ('every point of the batch lies inside the bounds',
                 z3.And([forall_range(0, s.b, lambda r, j=j: inb(result[NAMES_GP[j]].at(r), j), 'r') for j in range(s.D)])),
                ('the remaining rows stay stored, in order, a whole number of batches, inside the bounds',
                 z3.And(rest.shape[0] == (M - 1) * s.b, rest.shape[1] == s.D,
                        forall_range(0, (M - 1) * s.b, lambda r: z3.And([z3.And(rest.at(r, j) == src.at(s.b + r, j), inb(rest.at(r, j), j)) for j in range(s.D)]), 'r')))]


class World(Sym):
    """ghost state of one BayesianOptimization object between the calls made by iterate()"""

    def __init__(self):
        self.t = None
        self._vc_havoc('w')

    def _vc_havoc(self, name='w'):
        vc = cur()
        self.pend, self.left, self.next = vc.fresh_int('pending'), vc.fresh_int('left'), vc.fresh_int('next_index')
        vc.assume(self.pend >= 0, self.left >= 0, self.next >= 0)


class Iterate(Contract):
    """ParameterInference.iterate as used by BayesianOptimization: prepare_new_batch(i) is only ever called right after
    _allow_submit(i) returned True, for the same index and in the same state - so the premise of PrepareNewBatch holds at its only
    call site, hence: whenever acquisition_method.acquire is called and not async_acq, no batch is pending."""
    target = PI + 'ParameterInference.iterate'
    prop = 'C11'
    fin = 4

    def setup(self, vc):
        s = NS(async_=z3.Bool('async_acq'), prepared=[], updates=[])
        w = s.w = World()

        def allow(self_, i):
            r = vc.fresh('allowed', B)
            vc.assume(z3.Implies(r, allowed_fact(s.async_, ACQ_INDEX(T(i)), w.left, w.pend)))       # post of AllowSubmit
            return SBool(r)

        def prepare(self_, i):
            vc.oblige('call-pre[prepare_new_batch: the batch was allowed by _allow_submit in this state]',
                      allowed_fact(s.async_, ACQ_INDEX(T(i)), w.left, w.pend))
            s.prepared.append(i)
            w.left = vc.fresh_int('left')           # post of PrepareNewBatch: some rows are taken from / added to the stored acquisition
            vc.assume(w.left >= 0)
            return object()

        class Batches:
            @property
            def next_index(self_):
                return SInt(w.next)

            def submit(self_, batch=None):
                w.pend, w.next = w.pend + 1, w.next + 1

            def wait_next(self_):
                vc.assume(w.pend >= 1)          # BatchHandler.wait_next raises when nothing is pending (C04): normal return only otherwise
                w.pend = w.pend - 1
                return object(), SInt(vc.fresh_int('received_index'))
        s.self = make_object('BOStub', attrs=dict(batches=Batches()),
                             methods=dict(_allow_submit=allow, prepare_new_batch=prepare, update=lambda self_, batch, i: s.updates.append(i)))
        return s, (s.self,), {}

    @property
    def loops(self):
        return {0: Loop(inv=lambda s, l: [('the counters of the batch handler stay non-negative', z3.And(s.w.pend >= 0, s.w.next >= 0, s.w.left >= 0))], modifies=lambda s, l: [s.w])}

    def ensures(self, s, result):
        return [('exactly one batch is consumed per iteration', z3.BoolVal(len(s.updates) == 1))]


def contracts():
    return [Minimize('uniform-rs'), Minimize('uniform-module'), Minimize('prior-2d'), Minimize('prior-1d'),
            AddNoise('none'), AddNoise('zero'), AddNoise('scalar'), AddNoise('per-parameter'),
            BaseAcquire(False), BaseAcquire(True), MaxVarAcquire(), UniformAcquire(), ExpIntVarAcquire('grid'), ExpIntVarAcquire('importance'),
            MaxVarEvaluate(1), MaxVarEvaluate(2), RandMaxVarAcquire('metropolis'), RandMaxVarAcquire('nuts'),
            GetAcquisitionIndex(), ResolveInitialEvidence('default'), ResolveInitialEvidence('count'), ResolveInitialEvidence('precomputed'),
            BOInit('precomputed'), BOInit('count'), BOUpdate(), ShouldOptimize(), NEvidence(), AllowSubmit(), PrepareNewBatch(), Iterate()] + \
           [c.with_npar(k) for k in (1, 3, 4) for c in (BOInit('precomputed'), BOInit('count'), BOUpdate(), PrepareNewBatch())]
