"""C12 - Distance nodes compute the stated metric; adaptive scales ignore batching.

Functions under contract (all on the REAL bodies, read from the tree at run time):
  elfi/model/utils.py::distance_as_discrepancy            layout of X (column-stacked summaries) and Y (stacked observed),
                                                          one value per row, result[i] = dist(X, Y)[i, 0]
  elfi/model/elfi_model.py::Distance.__init__             kwargs plumbing: exactly the keys of {p, w, V, VI} present in kwargs go to the cdist partial, the rest to Discrepancy; raise rule
  elfi/model/elfi_model.py::AdaptiveDistance.__init__ / init_state / init_adaptation_round / add_data / update_distance / nested_distance
  elfi/methods/inference/samplers.py::Rejection.__init__ (adaptive branch) / Rejection._merge_batch (adaptive lines): the call site that feeds add_data -
                                                          self.sums = parent names in POSITIONAL order; add_data(*[batch[s] for s in self.sums]) once per batch
Ghost lemmas (lemmas/c12_lemmas.py::lemma_induction with the statements below): shifted linear sum, shifted second moment,
weighted = scaled squared differences, extensionality of a finite sum (statement shared with C13).

Spec functions (independent of the code):
  row(r, j)      r-th summary row (column j of the column-stacked summaries) added in the current adaptation round, in the order of
                 addition - the batching is NOT part of it;  x(r) = row(r, col) for one ARBITRARY column `col` (a free constant:
                 what is proved for it holds for every column; the code works column-wise)
  A1(i), A2(i)   definitional prefix sums  sum_{r<i} x(r),  sum_{r<i} x(r)^2
  V(i)           sum_{r<i} (x(r) - mu)^2,  mu = A1(n)/n     (population variance = V(n)/n)
Store invariant  store_ok(N):  store = [N, A1(N)/N, A2(N) - A1(N)^2/N]   (N >= 1;  [0, 0, 0] for N = 0)
add_data with the rows N .. N+k-1:  store_ok(N) => store_ok(N+k)  and  scale[col] = sqrt(V(N+k)/(N+k)): an expression over the
rows of the round only, hence independent of the partition into calls (induction over the calls of the round).

cdist libspec (assumed, sanity-tested against the installed scipy): cdist(XA, XB, metric, **kw)[i, j] = metric_kw(XA[i], XB[j]),
a pure function of its arguments (modelled: fresh result array tied to the recorded arguments; the contract proves that the
arguments ARE the specified X, Y, metric, kw); closed form for metric='euclidean' with optional weights w >= 0:
sqrt(sum_t w_t (XA[i,t] - XB[j,t])^2).
"""
MANIFEST = {
    'category': 'proof',
    'text': 'distance_as_discrepancy (column layout of simulated and observed summaries for scalar and vector summaries, batch size >= 1, '
            'one value per row), Distance.__init__ (keyword plumbing into the cdist partial, for every metric name and every subset of the '
            'extra arguments), and AdaptiveDistance.__init__/init_state/init_adaptation_round/add_data/update_distance/nested_distance are verified '
            'on the real source: the batched Welford update preserves store = [N, mean, sum of squared deviations] over ALL rows of the round for '
            'all batch sizes, widths and values (reals), so scale = population standard deviation independently of the batching; update_distance '
            'appends 1/scale and the euclidean partial with w = (1/scale)^2 and resets the round; the newest nested distance equals '
            '||(u - v)/scale||_2. The call site in Rejection (__init__: adaptation columns = the distance node\'s parents in positional order for every user output_names order; '
            '_merge_batch: add_data receives the batch outputs in that order, once per batch) is under contract as well. Every obligation is generated from the current source and discharged by z3/cvc5; ghost lemmas are verified.',
    'note': 'Trusted: pyvc engine and numpy spec table; scipy cdist as a pure row-wise function with the euclidean closed form (sanity-tested); '
            'functools.partial; reals for floats (Welford exists because of floats: only the real-number meaning is proved); scale != 0 assumed for '
            'update_distance (a constant summary column gives an infinite weight: the property formula is undefined there). '
            'Rejection._update_distances (re-sorting by the newest distance) is under contract in C01 (F18, fixed).',
    'technique': 'deductive: VCs from the real AST (pyvc) + ghost induction lemmas, NRA on the ground slice, z3/cvc5; bounded: Distance/AdaptiveDistance '
                 'nodes via node.generate(with_values=...) against scipy evaluated directly, all compositions of <= 8 rows into add_data calls',
}

import functools
import types

import z3

from pyvc.core import cur, forall_range, OutOfSubset, program_exception
from pyvc.engine import Contract, Loop, NS, make_object, inline
from pyvc.values import SInt, SReal, SBool, Sym, lift, term as T
from pyvc.sarray import SArr, Cell, conc
from pyvc import npspec
from contracts.c13 import prefix_def, prefix_inst, stmt_sum_ext, use, _LoopLemma, LemmaSumExt as _C13SumExt

R, I, B_ = z3.RealSort(), z3.IntSort(), z3.BoolSort()
KEYS = ('p', 'w', 'V', 'VI')                                          # the extra cdist arguments named by the property / docstring
REQUIRED = {'wminkowski': 'w', 'seuclidean': 'V', 'mahalanobis': 'VI'}  # metric -> argument that must be given (docstring / error texts)
AD = 'elfi/model/elfi_model.py::AdaptiveDistance.'
METRIC_NAMES = ('euclidean', 'sqeuclidean', 'minkowski', 'wminkowski', 'seuclidean', 'mahalanobis', 'cityblock', 'chebyshev', 'cosine', 'canberra',
                'hamming', 'no-such-metric')


def sample_cover(hints):
    """finitised mode only: one more vacuity probe at this normal exit, on a SAMPLE input (the hints pin the free constants, which turns the
    nonlinear path condition into constant arithmetic).  sat with extra constraints implies sat without them, so this probe can only be harder to
    pass than the engine's own cover; it exists because a model search over nonlinear real arithmetic has heavy-tailed run times."""
    vc = cur()
    if vc.fin is None:
        return
    saved = list(vc.pc)
    vc.pc.extend(hints)
    vc.oblige('cover[normal exit reachable on a sample input]', z3.BoolVal(False), expect='sat')
    vc.pc[:] = saved


def real(t):
    return z3.ToReal(t) if t.sort() == I else t


def sq(t):
    return t * t


# ---------------------------------------------------------------- library / callee stand-ins
class CdistSpec:
    """scipy.spatial.distance.cdist (assumed contract, see module docstring).  Every call is recorded (vc.libcalls['cdist'])."""
    __name__ = 'cdist'

    def __call__(self, XA, XB, metric='euclidean', **kw):
        vc = cur()
        if not (isinstance(XA, SArr) and isinstance(XB, SArr)):
            raise OutOfSubset('cdist on %s / %s' % (type(XA).__name__, type(XB).__name__))
        if XA.ndim != 2 or XB.ndim != 2:
            raise program_exception(ValueError('XA and XB must be 2-dimensional arrays.'))
        if not vc.branch(XA.shape[1] == XB.shape[1]):
            raise program_exception(ValueError('XA and XB must have the same number of columns (i.e. feature dimension.)'))
        nb = conc(XB.shape[0])
        if nb is None:
            raise OutOfSubset('cdist with a symbolic number of XB rows (the analysed code inspects d.shape[1] with ==)')
        xa, xb = XA.snapshot(), XB.snapshot()
        na, m = xa.shape
        rec = dict(XA=xa, XB=xb, XA_obj=XA, XB_obj=XB, metric=metric, kw=dict(kw), closed=False)
        if isinstance(metric, str) and metric == 'euclidean' and set(kw) <= {'w'} and nb == 1:
            w = kw.get('w')
            if w is None:
                wt = lambda t: z3.RealVal(1)
            elif isinstance(w, SArr) and w.ndim == 1:
                ws = w.snapshot()
                vc.oblige('call-pre[cdist: one weight per column]', ws.shape[0] == m)
                vc.oblige('call-pre[cdist: weights are non-negative]', forall_range(0, m, lambda t: ws.at(t) >= 0, 't'))
                wt = lambda t: ws.at(t)
            else:
                raise OutOfSubset('cdist weights of type %s' % type(w).__name__)
            SS = vc.fresh_fn('ss', I, I, R)
            term_ = lambda i, t: wt(t) * sq(xa.at(i, t) - xb.at(0, t))
            row_def = lambda i: prefix_def(lambda t: SS(i, t), m, lambda t: term_(i, t))
            vc.assume(forall_range(0, na, row_def, 'r'))
            out = SArr(Cell(lambda i, j: npspec._sqrt(SS(i, m)), (na, z3.IntVal(1)), 'real'))
            rec.update(closed=True, SS=SS, wt=wt, row_def=row_def)
        else:
            out = SArr.fresh('cdist', (na, z3.IntVal(nb)), 'real')
        rec['res'] = out
        vc.libcall('cdist', rec)
        return out


CDIST = CdistSpec()
SCIPY = types.SimpleNamespace(spatial=types.SimpleNamespace(distance=types.SimpleNamespace(cdist=CDIST)))


def DAD(dist, *summaries, observed):
    """stands for elfi.model.utils.distance_as_discrepancy where it is only REFERENCED (its own contract: DistanceAsDiscrepancy)"""
    raise OutOfSubset('distance_as_discrepancy is not called by the functions under contract')


class MetricName(Sym):
    """an arbitrary python str (the metric name): all the code does with it is isinstance(.., str) and == against literals"""

    def __init__(self, t):
        self.t = t

    def _vc_isinstance(self, cls):
        classes = cls if isinstance(cls, tuple) else (cls,)
        classes = tuple(getattr(c, '_vc_models', c) for c in classes)
        return any(isinstance(c, type) and issubclass(str, c) for c in classes)

    def __eq__(self, o):
        if isinstance(o, str):
            return SBool(self.t == z3.StringVal(o))
        if isinstance(o, MetricName):
            return SBool(self.t == o.t)
        return False

    def __ne__(self, o):
        r = self.__eq__(o)
        return (not r) if isinstance(r, bool) else ~r

    def __hash__(self):
        # a plain dict / set lookup with a symbolic string cannot fork: fail closed (tables of the analysed module are ForkDicts, see below)
        raise OutOfSubset('hash of a symbolic metric name (lookup in a container that is not a literal module-level table)')

    def __repr__(self):
        return '<metric name>'


class ForkDict(dict):
    """a literal module-level table with string keys, as seen by the analysed code: lookups with a SYMBOLIC string fork over the keys
    (key == k1 ? .. : absent); lookups with concrete keys are python's"""

    def _find(self, key):
        for k in list(dict.keys(self)):
            if isinstance(k, str) and bool(key == k):
                return True, k
        return False, None

    def get(self, key, default=None):
        if isinstance(key, MetricName):
            hit, k = self._find(key)
            return dict.__getitem__(self, k) if hit else default
        return dict.get(self, key, default)

    def __getitem__(self, key):
        if isinstance(key, MetricName):
            hit, k = self._find(key)
            if not hit:
                raise program_exception(KeyError('<metric name>'))
            return dict.__getitem__(self, k)
        return dict.__getitem__(self, key)

    def __contains__(self, key):
        if isinstance(key, MetricName):
            return self._find(key)[0]
        return dict.__contains__(self, key)


def module_level_names(vc, target, have):
    """Names that the analysed function (and, transitively, the helpers found this way) loads and that are defined at the top level of the SAME
    module of the tree under analysis, but are not supplied by the contract: a module-level `def` is the REAL function (pyvc.engine.inline), a
    module-level assignment of a python LITERAL is that literal (dicts with string keys become ForkDicts).  Classes, imports and non-literal
    values are NOT resolved: the run then ends in a NameError = out of subset (undecided), never in a guess."""
    import ast
    from pyvc import instrument
    path = target.split('::')[0]
    loc = instrument.locate(target, vc.repo)
    src, tree = instrument._parse(path, vc.repo)
    top = {}
    for n in tree.body:
        if isinstance(n, ast.FunctionDef):
            top[n.name] = n
        elif isinstance(n, ast.Assign) and len(n.targets) == 1 and isinstance(n.targets[0], ast.Name):
            top[n.targets[0].id] = n
    out, seen, work = {}, set(), [loc.node]
    while work:
        fn = work.pop()
        for x in ast.walk(fn):
            if not (isinstance(x, ast.Name) and isinstance(x.ctx, ast.Load)):
                continue
            nm = x.id
            if nm in seen or nm in have or nm in vc.g or nm in vc.g['__builtins__'] or nm not in top:
                continue
            seen.add(nm)
            d = top[nm]
            if isinstance(d, ast.FunctionDef):
                if d is loc.node:
                    continue
                out[nm] = inline(vc, '%s::%s' % (path, nm))
                work.append(d)
            else:
                try:
                    v = ast.literal_eval(d.value)
                except (ValueError, SyntaxError, TypeError):
                    continue                                   # not a literal: left unresolved (fail closed)
                out[nm] = ForkDict(v) if isinstance(v, dict) and all(isinstance(k, str) for k in v) else v
    return out


def _resolving_env(env0):
    def env(self, vc):
        e = dict(env0(self, vc))
        e.update(module_level_names(vc, self.target, e))
        return e
    env._c12_wrapped = True
    return env


def is_partial(f, func, keys):
    return isinstance(f, functools.partial) and f.func is func and f.args == () and set(f.keywords) == set(keys)


# ---------------------------------------------------------------- lemma statements
def _sh(n0, i):
    return i if (isinstance(n0, int) and n0 == 0) else n0 + i


def stmt_shift_lin(n0, k, x, c, A1, Q):
    """sum_{i<k} (x(n0+i) - c) = A1(n0+k) - A1(n0) - k c"""
    hyp = z3.And(k >= 0, _sh(n0, 0) >= 0, prefix_def(A1, _sh(n0, k), x), prefix_def(Q, k, lambda i: x(_sh(n0, i)) - c))
    return hyp, Q(k) == A1(_sh(n0, k)) - A1(_sh(n0, 0)) - real(k) * c


def stmt_shift_mom(n0, k, x, c, d, A1, A2, P):
    """sum_{i<k} (x(n0+i) - c)(x(n0+i) - d) = [A2(n0+k) - A2(n0)] - (c+d) [A1(n0+k) - A1(n0)] + k c d"""
    hyp = z3.And(k >= 0, _sh(n0, 0) >= 0, prefix_def(A1, _sh(n0, k), x), prefix_def(A2, _sh(n0, k), lambda r: sq(x(r))),
                 prefix_def(P, k, lambda i: (x(_sh(n0, i)) - c) * (x(_sh(n0, i)) - d)))
    return hyp, P(k) == (A2(_sh(n0, k)) - A2(_sh(n0, 0))) - (c + d) * (A1(_sh(n0, k)) - A1(_sh(n0, 0))) + real(k) * c * d


def scaled_term(dl, sc):
    return lambda t: sq(dl(t) / sc(t))


def stmt_weighted_scaled(n, dl, w, sc, A, Bp):
    """w_t = (1/s_t)^2, s_t != 0:  sum_t w_t d_t^2 = sum_t (d_t / s_t)^2"""
    hyp = z3.And(n >= 0, forall_range(0, n, lambda t: z3.And(sc(t) != 0, w(t) == sq(1 / sc(t))), 't'),
                 prefix_def(A, n, lambda t: w(t) * sq(dl(t))), prefix_def(Bp, n, scaled_term(dl, sc)))
    return hyp, A(n) == Bp(n)


class _Ind(_LoopLemma):
    prop = 'C12'
    fin = 3
    fin_range = 8
    target = '@verif/lemmas/c12_lemmas.py::lemma_induction'

    def _sample(self, s):
        return []

    def ensures(self, s, result):
        sample_cover(self._sample(s))
        return _LoopLemma.ensures(self, s, result)


class LemmaSumExt(_C13SumExt):
    """extensionality: pointwise equal summands give equal sums"""
    prop = 'C12'


class LemmaShiftLin(_Ind):
    """shifted linear sum: sum_{i<k} (x(n0+i) - c) = A1(n0+k) - A1(n0) - k c"""
    label = 'shift-lin'

    def _mk(self, vc):
        n0, k = z3.Ints('n0 k')
        c = z3.Real('c')
        x, A1, Q = [z3.Function(nm, I, R) for nm in ('x', 'A1', 'Q')]
        hyp, goal = stmt_shift_lin(n0, k, x, c, A1, Q)
        vc.fin_bounds.extend([n0, k])
        s = NS(n0=n0, k=k, c=c, x=x, A1=A1, Q=Q, hyp=hyp, goal=goal, args=(SInt(k),))
        vc._lemma_s = s
        return s

    def _instances(self, s, j):
        return [z3.Implies(z3.And(0 <= j, j < s.k), z3.And(prefix_inst(s.A1, s.x, s.n0 + j), prefix_inst(s.Q, lambda i: s.x(s.n0 + i) - s.c, j)))]

    loops = {0: Loop(inv=lambda s, l: [z3.And(0 <= T(l.j), T(l.j) <= s.k), s.Q(T(l.j)) == s.A1(s.n0 + T(l.j)) - s.A1(s.n0 + 0) - real(T(l.j)) * s.c])}

    def _sample(self, s):
        return [s.n0 == 1, s.k == 1, s.c == 2, s.x(0) == 1, s.x(1) == 3]


class LemmaShiftMom(_Ind):
    """shifted second moment: sum_{i<k} (x(n0+i) - c)(x(n0+i) - d) = dA2 - (c+d) dA1 + k c d"""
    label = 'shift-mom'

    def _mk(self, vc):
        n0, k = z3.Ints('n0 k')
        c, d = z3.Reals('c d')
        x, A1, A2, P = [z3.Function(nm, I, R) for nm in ('x', 'A1', 'A2', 'P')]
        hyp, goal = stmt_shift_mom(n0, k, x, c, d, A1, A2, P)
        vc.fin_bounds.extend([n0, k])
        s = NS(n0=n0, k=k, c=c, dd=d, x=x, A1=A1, A2=A2, P=P, hyp=hyp, goal=goal, args=(SInt(k),))
        vc._lemma_s = s
        return s

    def _instances(self, s, j):
        return [z3.Implies(z3.And(0 <= j, j < s.k), z3.And(prefix_inst(s.A1, s.x, s.n0 + j), prefix_inst(s.A2, lambda r: sq(s.x(r)), s.n0 + j),
                                                           prefix_inst(s.P, lambda i: (s.x(s.n0 + i) - s.c) * (s.x(s.n0 + i) - s.dd), j)))]

    loops = {0: Loop(inv=lambda s, l: [z3.And(0 <= T(l.j), T(l.j) <= s.k),
                                       s.P(T(l.j)) == (s.A2(s.n0 + T(l.j)) - s.A2(s.n0 + 0)) - (s.c + s.dd) * (s.A1(s.n0 + T(l.j)) - s.A1(s.n0 + 0)) + real(T(l.j)) * s.c * s.dd])}


    def _sample(self, s):
        return [s.n0 == 1, s.k == 1, s.c == 2, s.dd == 3, s.x(0) == 1, s.x(1) == 4]


class LemmaShiftMom0(LemmaShiftMom):
    """second moment about a constant from 0: sum_{r<n} (x(r) - c)(x(r) - d) = A2(n) - (c+d) A1(n) + n c d   (the n0 = 0 form used for the variance)"""
    label = 'shift-mom-n0=0'

    def _mk(self, vc):
        k = z3.Int('k')
        c, d = z3.Reals('c d')
        x, A1, A2, P = [z3.Function(nm, I, R) for nm in ('x', 'A1', 'A2', 'P')]
        hyp, goal = stmt_shift_mom(0, k, x, c, d, A1, A2, P)
        vc.fin_bounds.extend([k])
        s = NS(n0=z3.IntVal(0), k=k, c=c, dd=d, x=x, A1=A1, A2=A2, P=P, hyp=hyp, goal=goal, args=(SInt(k),))
        vc._lemma_s = s
        return s

    def _instances(self, s, j):
        return [z3.Implies(z3.And(0 <= j, j < s.k), z3.And(prefix_inst(s.A1, s.x, j), prefix_inst(s.A2, lambda r: sq(s.x(r)), j),
                                                           prefix_inst(s.P, lambda i: (s.x(i) - s.c) * (s.x(i) - s.dd), j)))]

    loops = {0: Loop(inv=lambda s, l: [z3.And(0 <= T(l.j), T(l.j) <= s.k),
                                       s.P(T(l.j)) == (s.A2(T(l.j)) - s.A2(0)) - (s.c + s.dd) * (s.A1(T(l.j)) - s.A1(0)) + real(T(l.j)) * s.c * s.dd])}


    def _sample(self, s):
        return [s.k == 2, s.c == 2, s.dd == 3, s.x(0) == 1, s.x(1) == 4]


class LemmaWeightedScaled(_Ind):
    """weights (1/s)^2: sum_t w_t d_t^2 = sum_t (d_t/s_t)^2"""
    label = 'weighted-scaled'

    def _mk(self, vc):
        n = z3.Int('n')
        dl, w, sc, A, Bp = [z3.Function(nm, I, R) for nm in ('dl', 'w', 'sc', 'A', 'Bp')]
        hyp, goal = stmt_weighted_scaled(n, dl, w, sc, A, Bp)
        vc.fin_bounds.append(n)
        s = NS(n=n, dl=dl, w=w, sc=sc, A=A, Bp=Bp, hyp=hyp, goal=goal, args=(SInt(n),))
        vc._lemma_s = s
        return s

    def _instances(self, s, j):
        return [z3.Implies(z3.And(0 <= j, j < s.n), z3.And(s.sc(j) != 0, s.w(j) == sq(1 / s.sc(j)), prefix_inst(s.A, lambda t: s.w(t) * sq(s.dl(t)), j),
                                                           prefix_inst(s.Bp, scaled_term(s.dl, s.sc), j)))]

    loops = {0: Loop(inv=lambda s, l: [z3.And(0 <= T(l.j), T(l.j) <= s.n), s.A(T(l.j)) == s.Bp(T(l.j))])}

    def _sample(self, s):
        return [s.n == 2, s.sc(0) == 2, s.sc(1) == 4, s.dl(0) == 1, s.dl(1) == 3]


def stmt_welford(n, k, nk, a1, a2, s1, s2, t1, t2, c, d, q1, q2, m2o, m2n):
    """one batched Welford step over the reals: old moments (a1, a2) of n rows, batch moments (s1, s2) of k rows, totals (t1, t2) of nk rows;
    c / d the old / new mean, q1 / q2 the two batch sums the code forms, m2o / m2n the old / new sum of squared deviations"""
    hyp = z3.And(n >= 0, k >= 0, nk == n + k, nk >= 1, t1 == a1 + s1, t2 == a2 + s2,
                 z3.Or(z3.And(n > 0, c == a1 / n, m2o == a2 - a1 * a1 / n), z3.And(n == 0, c == 0, m2o == 0, a1 == 0, a2 == 0)),
                 q1 == s1 - k * c, d == c + q1 / nk, q2 == s2 - (c + d) * s1 + k * c * d, m2n == m2o + q2)
    return hyp, z3.And(d == t1 / nk, m2n == t2 - t1 * t1 / nk)


def stmt_variance(nr, t1, t2, z1, z2, mu, v, m2):
    """sum of squared deviations from the mean, expanded (v) = moment form (m2)"""
    hyp = z3.And(nr >= 1, z1 == 0, z2 == 0, mu == t1 / nr, v == (t2 - z2) - (mu + mu) * (t1 - z1) + nr * mu * mu, m2 == t2 - t1 * t1 / nr)
    return hyp, v == m2


class _Algebra(Contract):
    """a lemma of real arithmetic (no induction): requires hyp, ensures goal, over free real constants"""
    prop = 'C12'
    fin = 2
    target = '@verif/lemmas/c12_lemmas.py::lemma_algebra'
    names, stmt = (), None

    def setup(self, vc):
        hyp, goal = type(self).stmt(*z3.Reals(' '.join(self.names)))
        return NS(hyp=hyp, goal=goal), (), {}

    def requires(self, s):
        return [s.hyp]

    def ensures(self, s, result):
        return [(self.__doc__.strip().splitlines()[0], s.goal)]


class LemmaWelford(_Algebra):
    """batched Welford step: new mean = (a1+s1)/(n+k), new M2 = (a2+s2) - (a1+s1)^2/(n+k)"""
    label = 'welford-step'
    names = 'n k nk a1 a2 s1 s2 t1 t2 c d q1 q2 m2o m2n'.split()
    stmt = staticmethod(stmt_welford)


class LemmaVariance(_Algebra):
    """A2 - 2 mu A1 + n mu^2 = A2 - A1^2/n for mu = A1/n"""
    label = 'variance'
    names = 'nr t1 t2 z1 z2 mu v m2'.split()
    stmt = staticmethod(stmt_variance)


# ---------------------------------------------------------------- distance_as_discrepancy
def _offsets(widths):
    offs = [z3.IntVal(0)]
    for w in widths:
        offs.append(z3.simplify(offs[-1] + w))
    return offs


class DistanceAsDiscrepancy(Contract):
    """layout = tuple over 's' (scalar summary: output (B,)) / 'v' (vector summary: output (B, w_t)), CONCRETE arity 1..5, symbolic B >= 1 and
    widths >= 1.  Observed value of a scalar summary: shape (1,) or a 0-d scalar; of a vector summary: (1, w_t) or (w_t,) (forked).
    dist: 'cdist' = functools.partial(cdist, metric=<any str>, **extra) as built by Distance.__init__; 'fn1' / 'fn21' / 'fn22' = a user
    callable (or AdaptiveDistance.nested_distance) returning shape (B,) / (B,1) / (B,2)."""
    target = 'elfi/model/utils.py::distance_as_discrepancy'
    prop = 'C12'
    fin = 3
    fin_range = 8

    def __init__(self, layout, dist='cdist', extra=()):
        self.layout, self.dist, self.extra = tuple(layout), dist, tuple(extra)
        self.label = '%s-%s%s' % (''.join(layout), dist, ('-' + '+'.join(extra)) if extra else '')

    def setup(self, vc):
        Bn = z3.Int('B')
        vc.fin_bounds.append(Bn)
        widths, sims, obs, obs_at, forms = [], [], [], [], []
        for t, kind in enumerate(self.layout):
            if kind == 's':
                widths.append(z3.IntVal(1))
                sims.append(SArr.fresh('s%d' % t, (Bn,), 'real'))
                form = vc.fork_values('obs%d' % t, ['(1,)', '0d'])
                if form == '(1,)':
                    o = SArr.fresh('o%d' % t, (1,), 'real')
                    obs_at.append(lambda c, o=o: o.at(0))
                else:
                    oc = z3.Real('o%d' % t)
                    o = SReal(oc)
                    obs_at.append(lambda c, oc=oc: oc)
            else:
                w = z3.Int('w%d' % t)
                vc.fin_bounds.append(w)
                widths.append(w)
                sims.append(SArr.fresh('s%d' % t, (Bn, w), 'real'))
                form = vc.fork_values('obs%d' % t, ['(1,w)', '(w,)'])
                if form == '(1,w)':
                    o = SArr.fresh('o%d' % t, (1, w), 'real')
                    obs_at.append(lambda c, o=o: o.at(0, c))
                else:
                    o = SArr.fresh('o%d' % t, (w,), 'real')
                    obs_at.append(lambda c, o=o: o.at(c))
            obs.append(o)
            forms.append(form)
        offs = _offsets(widths)
        s = NS(B=Bn, widths=widths, sims=sims, sims0=[a.snapshot() for a in sims], obs=obs, obs_at=obs_at, offs=offs, m=offs[-1], forms=forms)
        if self.dist == 'cdist':
            s.metric = MetricName(z3.String('metric'))
            kw = {}
            for k in self.extra:
                kw[k] = SReal(z3.Real('p')) if k == 'p' else SArr.fresh(k, (s.m, s.m) if k == 'VI' else (s.m,), 'real')
            s.kw = kw
            dist = functools.partial(CDIST, metric=s.metric, **kw)
        else:
            shape = {'fn1': (Bn,), 'fn21': (Bn, z3.IntVal(1)), 'fn22': (Bn, z3.IntVal(2))}[self.dist]

            def dist(XA, XB):
                out = SArr.fresh('d', shape, 'real')
                cur().libcall('dist', dict(XA=XA.snapshot(), XB=XB.snapshot(), res=out, kw={}, metric=None))
                return out
        return s, (dist,) + tuple(sims), dict(observed=tuple(obs))

    def requires(self, s):
        return [s.B >= 1] + [w >= 1 for w in s.widths]

    def ensures(self, s, result):
        vc = cur()
        recs = vc.libcalls.get('cdist' if self.dist == 'cdist' else 'dist', [])
        if len(recs) != 1:
            return [('the distance function is evaluated exactly once', z3.BoolVal(False))]
        rec = recs[0]
        XA, XB, D = rec['XA'], rec['XB'], rec['res']
        out = []
        if self.dist == 'cdist':
            out.append(('the metric name and the extra keyword arguments reach cdist unchanged',
                        z3.BoolVal(rec['metric'] is s.metric and set(rec['kw']) == set(s.kw) and all(rec['kw'][k] is s.kw[k] for k in s.kw))))
        out.append(('X has one row per simulation and sum(w_t) columns; Y has one row and the same number of columns',
                    z3.And(XA.shape[0] == s.B, XA.shape[1] == s.m, XB.shape[0] == 1, XB.shape[1] == s.m)))
        for t, kind in enumerate(self.layout):
            st, off, w = s.sims0[t], s.offs[t], s.widths[t]
            if kind == 's':
                out.append(('X[i, off_%d] = summary_%d[i]  (scalar summary)' % (t, t), forall_range(0, s.B, lambda i: XA.at(i, off) == st.at(i), 'i')))
            else:
                out.append(('X[i, off_%d + c] = summary_%d[i, c]  (vector summary)' % (t, t),
                            forall_range(0, s.B, lambda i: forall_range(0, w, lambda c: XA.at(i, off + c) == st.at(i, c), 'c'), 'i')))
            out.append(('Y[0, off_%d + c] = observed_%d[c]: same column layout as X' % (t, t),
                        forall_range(0, w, lambda c: XB.at(0, off + c) == s.obs_at[t](c), 'c')))
        if self.dist == 'fn22':
            out.append(('a (B, 2) answer (two nested distances) is returned as it is',
                        z3.And(z3.BoolVal(isinstance(result, SArr) and result.ndim == 2), result.shape[0] == s.B, result.shape[1] == 2,
                               forall_range(0, s.B, lambda i: z3.And(result.at(i, 0) == D.at(i, 0), result.at(i, 1) == D.at(i, 1)), 'i'))
                        if isinstance(result, SArr) and result.ndim == 2 else z3.BoolVal(False)))
            return out
        if not (isinstance(result, SArr) and result.ndim == 1):
            out.append(('one value per simulated row (1-D result)', z3.BoolVal(False)))
            return out
        out.append(('one value per simulated row (1-D result of length B)', result.shape[0] == s.B))
        if self.dist == 'fn1':
            out.append(('result[i] = dist(X, Y)[i]', forall_range(0, s.B, lambda i: result.at(i) == D.at(i), 'i')))
        else:
            out.append(('result[i] = dist(X, Y)[i, 0] = metric(X[i], Y[0]) by the cdist contract', forall_range(0, s.B, lambda i: result.at(i) == D.at(i, 0), 'i')))
        return out


# ---------------------------------------------------------------- Distance.__init__
def _super_env(cls_name):
    return {'super': lambda cls, obj: obj._vc_super(), cls_name: object(), 'partial': functools.partial,
            'distance_as_discrepancy': DAD, 'scipy': SCIPY}


def _node_stub(s, name, methods=None, state=None):
    """stub `self` of a node class: super().__init__ (Discrepancy/NodeReference, outside this property) records its arguments and creates the state dict"""
    s.super_calls = []

    def base_init(self_, *a, **kw):
        s.super_calls.append((a, dict(kw)))
        s.self.state = dict(state or {}, attr_dict={'_operation': a[0] if a else None, '_uses_observed': True})
    base = make_object('DiscrepancyStub', methods={'__init__': base_init})
    m = dict(methods or {})
    m['_vc_super'] = lambda self_: base
    return make_object(name, methods=m)


class DistanceInit(Contract):
    target = 'elfi/model/elfi_model.py::Distance.__init__'
    prop = 'C12'
    fin = 2

    def __init__(self, kind, nsum):
        self.kind, self.nsum = kind, nsum          # kind: 'str' (any metric name, symbolic) | 'names' (the concrete names of METRIC_NAMES) | 'callable'
        self.label = '%s-%d-summaries' % (kind, nsum)
        if nsum == 0:
            self.cover = False                     # raise-only case

    def env(self, vc):
        return _super_env('Distance')

    def setup(self, vc):
        s = NS()
        s.self = _node_stub(s, 'DistanceStub')
        s.summaries = tuple(object() for _ in range(self.nsum))
        subsets = [frozenset(k for i, k in enumerate(KEYS) if b >> i & 1) for b in range(16)]
        present = vc.fork_values('extra', subsets if self.nsum else subsets[-1:])       # every subset of {p, w, V, VI}
        other = vc.fork_values('elfi_kwargs', [{'name': 'd', 'model': object()}] + ([{}] if self.kind == 'callable' else []))
        s.values = {k: object() for k in KEYS}
        s.present, s.other = present, dict(other)
        s.kwargs = dict({k: s.values[k] for k in KEYS if k in present}, **other)
        if self.kind == 'str':
            s.distance = MetricName(z3.String('metric'))
            s.mt = s.distance.t
        elif self.kind == 'names':
            # CONCRETE python strings: decided whatever the code does with the name (local dict / set lookups, str methods ...)
            s.distance = vc.fork_values('metric', list(METRIC_NAMES))
            s.mt = z3.StringVal(s.distance)
        else:
            s.distance = lambda X, Y: None
        return s, (s.self, s.distance) + s.summaries, dict(s.kwargs)

    def _missing(self, s):
        if self.kind == 'callable':
            return z3.BoolVal(False)
        return z3.Or([z3.And(s.mt == z3.StringVal(mname), z3.BoolVal(k not in s.present)) for mname, k in sorted(REQUIRED.items())])

    def raises(self, s):
        return {'ValueError': z3.Or(z3.BoolVal(self.nsum == 0), self._missing(s))}

    def iff_raises(self, s):
        return [('normal return only with >= 1 summary and every required extra argument given', z3.And(z3.BoolVal(self.nsum >= 1), z3.Not(self._missing(s))))]

    def ensures(self, s, result):
        if len(s.super_calls) != 1:
            return [('Discrepancy.__init__ is called exactly once', z3.BoolVal(False))]
        (a, kw) = s.super_calls[0]
        disc = a[0] if a else None
        ok_disc = isinstance(disc, functools.partial) and disc.func is DAD and len(disc.args) == 1 and not disc.keywords
        dist_fn = disc.args[0] if ok_disc else None
        out = [('the node operation is distance_as_discrepancy bound to the distance function', z3.BoolVal(ok_disc)),
               ('the summaries are the parents, in order', z3.BoolVal(tuple(a[1:]) == s.summaries))]
        if self.kind in ('str', 'names'):
            moved = {k for k in KEYS if k in s.present}
            ok = is_partial(dist_fn, CDIST, {'metric'} | moved) and dist_fn.keywords['metric'] is s.distance and \
                all(dist_fn.keywords[k] is s.values[k] for k in moved)
            out.append(('exactly the given ones of p, w, V, VI are bound into the cdist call, with the metric name', z3.BoolVal(ok)))
            out.append(('the remaining keyword arguments go to Discrepancy', z3.BoolVal(set(kw) == set(s.other) and all(kw[k] is s.other[k] for k in s.other))))
        else:
            out.append(('a callable distance is used as it is', z3.BoolVal(dist_fn is s.distance)))
            out.append(('all keyword arguments go to Discrepancy', z3.BoolVal(set(kw) == set(s.kwargs) and all(kw[k] is s.kwargs[k] for k in kw))))
        out.append(('the distance passed by the user is recorded in the node state', z3.BoolVal(s.self.state.get('distance') is s.distance)))
        return out


# ---------------------------------------------------------------- AdaptiveDistance: construction / round reset
def _ad_methods(vc, *names):
    return {n: inline(vc, AD + n) for n in names}


def _store_is_zero(st):
    return isinstance(st, list) and len(st) == 3 and all(isinstance(v, int) and not isinstance(v, bool) and v == 0 for v in st)


def _initial_state_facts(state, eucl):
    """what init_state must establish"""
    dfs = state.get('distance_functions')
    return [('w = [None]', z3.BoolVal(state.get('w') == [None])),
            ('distance_functions = [euclidean cdist with w=None]',
             z3.BoolVal(isinstance(dfs, list) and len(dfs) == 1 and is_partial(dfs[0], CDIST, {'metric', 'w'}) and dfs[0].keywords['metric'] == 'euclidean'
                        and dfs[0].keywords['w'] is None)),
            ('round stores are [0, 0, 0]', z3.BoolVal(_store_is_zero(state.get('store'))))]


class AdaptiveInit(Contract):
    target = AD + '__init__'
    prop = 'C12'
    fin = 2

    def __init__(self, nsum):
        self.nsum = nsum
        self.label = '%d-summaries' % nsum
        if nsum == 0:
            self.cover = False

    def env(self, vc):
        return _super_env('AdaptiveDistance')

    def setup(self, vc):
        s = NS()
        s.nested = lambda self_, u, v: None
        s.self = _node_stub(s, 'AdaptiveDistanceStub', methods=dict(_ad_methods(vc, 'init_state', 'init_adaptation_round'), nested_distance=s.nested))
        s.summaries = tuple(object() for _ in range(self.nsum))
        s.kwargs = vc.fork_values('elfi_kwargs', [{'name': 'd', 'model': object()}, {}])
        return s, (s.self,) + s.summaries, dict(s.kwargs)

    def raises(self, s):
        return {'ValueError': z3.BoolVal(self.nsum == 0)}

    def iff_raises(self, s):
        return [('normal return only with >= 1 summary', z3.BoolVal(self.nsum >= 1))]

    def ensures(self, s, result):
        if len(s.super_calls) != 1:
            return [('Discrepancy.__init__ is called exactly once', z3.BoolVal(False))]
        (a, kw) = s.super_calls[0]
        disc = a[0] if a else None
        ok = isinstance(disc, functools.partial) and disc.func is DAD and len(disc.args) == 1 and not disc.keywords and \
            getattr(disc.args[0], '__self__', None) is s.self and getattr(disc.args[0], '__func__', None) is s.nested
        st = s.self.state
        eucl = st['attr_dict'].get('distance')
        return [('the node operation is distance_as_discrepancy bound to this node\'s nested_distance', z3.BoolVal(ok)),
                ('the summaries are the parents, in order; keyword arguments go to Discrepancy',
                 z3.BoolVal(tuple(a[1:]) == s.summaries and set(kw) == set(s.kwargs) and all(kw[k] is s.kwargs[k] for k in kw))),
                ('the base distance is scipy cdist with metric euclidean', z3.BoolVal(is_partial(eucl, CDIST, {'metric'}) and eucl.keywords['metric'] == 'euclidean'))] + \
            _initial_state_facts(st, eucl)


def _eucl():
    return functools.partial(CDIST, metric='euclidean')


class InitState(Contract):
    target = AD + 'init_state'
    prop = 'C12'
    fin = 2

    def env(self, vc):
        return {'partial': functools.partial}

    def setup(self, vc):
        s = NS()
        s.eucl = _eucl()
        stale = vc.fork_values('stale', [True, False])
        st = {'attr_dict': {'distance': s.eucl}}
        if stale:
            st.update(w=[None, object()], distance_functions=[object(), object()], store=[SInt(z3.Int('n')), object(), object()], scale=object())
        s.self = make_object('AdaptiveDistanceStub', attrs=dict(state=st), methods=_ad_methods(vc, 'init_adaptation_round'))
        return s, (s.self,), {}

    def ensures(self, s, result):
        return _initial_state_facts(s.self.state, s.eucl) + [('the base distance is kept', z3.BoolVal(s.self.state['attr_dict']['distance'] is s.eucl))]


class InitRound(Contract):
    target = AD + 'init_adaptation_round'
    prop = 'C12'
    fin = 2

    def env(self, vc):
        return {'partial': functools.partial}

    def setup(self, vc):
        s = NS()
        s.eucl = _eucl()
        s.has_store = vc.fork_values('has_store', [True, False])
        st = {'attr_dict': {'distance': s.eucl}}
        if s.has_store:
            s.w, s.dfs = [None, object()], [object(), object()]
            s.scale = object()
            st.update(w=s.w, distance_functions=s.dfs, store=[SInt(z3.Int('n')), SArr.fresh('mean', (z3.Int('W'),)), SArr.fresh('m2', (z3.Int('W'),))], scale=s.scale)
            s.w0, s.dfs0 = list(s.w), list(s.dfs)
        s.self = make_object('AdaptiveDistanceStub', attrs=dict(state=st), methods=_ad_methods(vc, 'init_state', 'init_adaptation_round'))
        return s, (s.self,), {}

    def ensures(self, s, result):
        st = s.self.state
        if not s.has_store:
            return _initial_state_facts(st, s.eucl)
        return [('round stores are [0, 0, 0]', z3.BoolVal(_store_is_zero(st.get('store')))),
                ('weights, distance functions and the last scale are untouched',
                 z3.BoolVal(st['w'] is s.w and st['distance_functions'] is s.dfs and len(s.w) == len(s.w0) and all(a is b for a, b in zip(s.w, s.w0))
                            and len(s.dfs) == len(s.dfs0) and all(a is b for a, b in zip(s.dfs, s.dfs0)) and st['scale'] is s.scale))]


# ---------------------------------------------------------------- AdaptiveDistance.add_data (batched Welford)
def sum_col_is(vc, rec, k, W, col, summand, P, name):
    """connect column `col` of a code-level np.sum(.., axis=0) with the definitional prefix sum P of `summand` over [0, k): pointwise equal summands
    (obligation), the instance at `col` of the np.sum spec, the extensionality lemma instance (LemmaSumExt), then the cut res[col] = P(k)"""
    a, ps = rec['arr'], rec['ps']
    if not (a.ndim == 2 and rec.get('axis') == 0):
        raise OutOfSubset('expected a sum over the rows of a 2-d array')
    vc.cut('%s: summand of the code = summand of the definition' % name,
           z3.And(a.shape[0] == k, a.shape[1] == W, forall_range(0, k, lambda i: a.at(i, col) == summand(i), 'i')))
    vc.assume(z3.Implies(z3.And(0 <= col, col < a.shape[1]), prefix_def(lambda i: ps(i, col), a.shape[0], lambda i: a.at(i, col))))     # instance of the np.sum spec
    vc.assume(use(stmt_sum_ext(k, lambda i: a.at(i, col), summand, lambda i: ps(i, col), P)))
    vc.cut('%s: code sum = definitional sum' % name, rec['res'].at(col) == P(k))


class AddData(Contract):
    target = AD + 'add_data'
    prop = 'C12'
    fin = 2                # finitised mode (vacuity cover, counter-models): N, k, widths, col < 2, i.e. N + k <= 2
    fin_range = 4

    def __init__(self, first, layout):
        self.first, self.layout = first, tuple(layout)
        self.label = '%s-%s' % ('first-call' if first else 'later-call', ''.join(layout))

    def setup(self, vc):
        N, k, col = z3.Ints('N k col')
        if self.first:
            N = z3.IntVal(0)
            vc.fin_bounds.extend([k, col])
        else:
            vc.fin_bounds.extend([N, k, col])
        row = z3.Function('row', I, I, R)
        A1, A2 = z3.Function('A1', I, R), z3.Function('A2', I, R)
        widths = []
        for t, kind in enumerate(self.layout):
            if kind == 's':
                widths.append(z3.IntVal(1))
            else:
                w = z3.Int('w%d' % t)
                vc.fin_bounds.append(w)
                widths.append(w)
        offs = _offsets(widths)
        W = offs[-1]
        # the batch = rows N .. N+k-1 of the round, given as the tuple of summary outputs (scalar: (k,), vector: (k, w_t))
        data = []
        for t, kind in enumerate(self.layout):
            o = offs[t]
            if kind == 's':
                data.append(SArr(Cell(lambda i, o=o: row(N + i, o), (k,), 'real')))
            else:
                data.append(SArr(Cell(lambda i, c, o=o: row(N + i, o + c), (k, widths[t]), 'real')))
        s = NS(N=N, k=k, col=col, W=W, widths=widths, row=row, x=lambda r: row(r, col), A1=A1, A2=A2)
        if self.first:
            store = [0, 0, 0]
            s.mold, s.m2old = z3.RealVal(0), z3.RealVal(0)
        else:
            mean, m2 = SArr.fresh('mean', (W,)), SArr.fresh('m2', (W,))
            store = [SInt(N), mean, m2]
            s.mold, s.m2old = mean.at(col), m2.at(col)
        s.self = make_object('AdaptiveDistanceStub', attrs=dict(state={'store': store, 'w': [None], 'distance_functions': []}))
        s.state0 = dict(s.self.state)
        return s, (s.self,) + tuple(data), {}

    def requires(self, s):
        n1 = s.N + s.k
        out = [s.k >= (1 if self.first else 0), 0 <= s.col, s.col < s.W] + [w >= 1 for w in s.widths] + \
            [prefix_def(s.A1, n1, s.x), prefix_def(s.A2, n1, lambda r: sq(s.x(r))), s.A1(0) == 0, s.A2(0) == 0]     # the last two: ground conjuncts of the definitions, repeated for the ground slice
        if not self.first:
            Nr = real(s.N)
            out += [s.N >= 1, ('store_ok(N) at the column', z3.And(s.mold == s.A1(s.N) / Nr, s.m2old == s.A2(s.N) - sq(s.A1(s.N)) / Nr))]
        return out

    def hooks(self, s):
        N, k, x = s.N, s.k, s.x

        def h1(vc, rec):
            Q = vc.fresh_fn('Q', I, R)
            summand = lambda i: x(N + i) - s.mold
            vc.assume(prefix_def(Q, k, summand))                                        # definitional extension
            sum_col_is(vc, rec, k, s.W, s.col, summand, Q, 'sum of deviations from the old mean')
            vc.assume(use(stmt_shift_lin(N, k, x, s.mold, s.A1, Q)))                   # LemmaShiftLin
            vc.cut('sum_i (x_i - m) = dA1 - k m', Q(k) == s.A1(N + k) - s.A1(N + 0) - real(k) * s.mold)
            s.q1 = rec['res'].at(s.col)
            vc.cut('first batch sum of the code: q1 = dA1 - k m', s.q1 == s.A1(N + k) - s.A1(N + 0) - real(k) * s.mold)

        def h2(vc, rec):
            P = vc.fresh_fn('P', I, R)
            s.mnew = mnew = s.self.state['store'][1].at(s.col)                          # the mean as updated by the code before this sum
            summand = lambda i: (x(N + i) - s.mold) * (x(N + i) - mnew)
            vc.assume(prefix_def(P, k, summand))
            sum_col_is(vc, rec, k, s.W, s.col, summand, P, 'sum of (x - old mean)(x - new mean)')
            vc.assume(use(stmt_shift_mom(N, k, x, s.mold, mnew, s.A1, s.A2, P)))       # LemmaShiftMom
            vc.cut('sum_i (x_i - m)(x_i - m\') = dA2 - (m + m\') dA1 + k m m\'',
                   P(k) == (s.A2(N + k) - s.A2(N + 0)) - (s.mold + mnew) * (s.A1(N + k) - s.A1(N + 0)) + real(k) * s.mold * mnew)
            s.q2 = rec['res'].at(s.col)
            vc.cut('second batch sum of the code: q2 = dA2 - (m + m\') dA1 + k m m\'',
                   s.q2 == (s.A2(N + k) - s.A2(N + 0)) - (s.mold + mnew) * (s.A1(N + k) - s.A1(N + 0)) + real(k) * s.mold * mnew)
        return {('np.sum', 0): h1, ('np.sum', 1): h2}

    def lemmas_at_exit(self, s, result):
        vc = cur()
        st = s.self.state['store']
        if not (isinstance(st[1], SArr) and isinstance(st[2], SArr) and st[1].ndim == 1 and st[2].ndim == 1):
            return []
        if not (s.has('q1') and s.has('q2')):
            return []
        N, k = s.N, s.k
        n1 = N + k
        nr = real(n1)
        mu = s.A1(n1) / nr
        mnew, m2new = st[1].at(s.col), st[2].at(s.col)
        # what the code did with the two sums (unfolding the element-wise updates at the column)
        vc.cut('the code counts the rows: store[0] = N + k', T(st[0]) == n1)
        vc.cut('mean update of the code: m\' = m + q1/(N+k)', z3.And(s.mnew == s.mold + s.q1 / nr, mnew == s.mnew))
        vc.cut('M2 update of the code: M2\' = M2 + q2', m2new == s.m2old + s.q2)
        vc.cut('totals: A(N+k) = A(N) + dA', z3.And(s.A1(n1) == s.A1(N) + (s.A1(N + k) - s.A1(N + 0)), s.A2(n1) == s.A2(N) + (s.A2(N + k) - s.A2(N + 0))))
        # the algebra of one Welford step (LemmaWelford), instantiated with the terms of this run
        vc.assume(use(stmt_welford(real(N), real(k), nr, s.A1(N), s.A2(N), s.A1(N + k) - s.A1(N + 0), s.A2(N + k) - s.A2(N + 0), s.A1(n1), s.A2(n1),
                                   s.mold, s.mnew, s.q1, s.q2, s.m2old, m2new)))
        vc.cut('new mean = A1(N+k)/(N+k)', mnew == mu)
        vc.cut('new M2 = A2(N+k) - A1(N+k)^2/(N+k)', m2new == s.A2(n1) - s.A1(n1) * s.A1(n1) / nr)
        # population variance by its definition: V(n) = sum_{r<n} (x_r - mu)^2, mu the mean of ALL rows
        V = vc.fresh_fn('V', I, R)
        vc.assume(prefix_def(V, n1, lambda r: (s.x(r) - mu) * (s.x(r) - mu)))
        vc.assume(use(stmt_shift_mom(0, n1, s.x, mu, mu, s.A1, s.A2, V)))               # LemmaShiftMom0
        vc.cut('sum_r (x_r - mu)^2 = A2 - 2 mu A1 + n mu^2', V(n1) == (s.A2(n1) - s.A2(0)) - (mu + mu) * (s.A1(n1) - s.A1(0)) + nr * mu * mu)
        vc.assume(use(stmt_variance(nr, s.A1(n1), s.A2(n1), s.A1(0), s.A2(0), mu, V(n1), m2new)))     # LemmaVariance
        vc.cut('M2 is the sum of squared deviations of ALL rows from their mean', m2new == V(n1))
        s.V, s.mu = V, mu
        return []

    def ensures(self, s, result):
        sample_cover([s.k == 1, s.col == 0] + ([] if self.first else [s.N == 1]) + [w == 1 for w in s.widths] +
                     [s.row(r, j) == (r + 1) * (j + 2) for r in range(2) for j in range(3)])
        st8 = s.self.state
        st = st8['store']
        n1 = s.N + s.k
        nr = real(n1)
        if not s.has('V'):
            return [('store holds [count, mean vector, M2 vector]', z3.BoolVal(False))]
        sc = st8.get('scale')
        return [('store[0] = number of rows added in the round', T(st[0]) == n1),
                ('store[1] = mean of ALL rows added in the round (one entry per column)', z3.And(st[1].shape[0] == s.W, st[1].at(s.col) == s.A1(n1) / nr)),
                ('store[2] = sum of squared deviations of ALL rows from that mean', z3.And(st[2].shape[0] == s.W, st[2].at(s.col) == s.V(n1))),
                ('store_ok(N+k): the invariant in moment form', st[2].at(s.col) == s.A2(n1) - s.A1(n1) * s.A1(n1) / nr),
                ('scale = population standard deviation of ALL rows of the round: sqrt(sum (x - mean)^2 / n), whatever the batching',
                 z3.And(sc.shape[0] == s.W, sc.at(s.col) == npspec._sqrt(s.V(n1) / nr)) if isinstance(sc, SArr) and sc.ndim == 1 else z3.BoolVal(False)),
                ('weights and distance functions are untouched',
                 z3.BoolVal(st8['w'] is s.state0['w'] and st8['w'] == [None] and st8['distance_functions'] is s.state0['distance_functions'] and st8['distance_functions'] == []))]


# ---------------------------------------------------------------- update_distance / nested_distance
class UpdateDistance(Contract):
    target = AD + 'update_distance'
    prop = 'C12'
    fin = 3

    def env(self, vc):
        return {'partial': functools.partial}

    def __init__(self, k_old):
        self.k_old = k_old
        self.label = '%d-earlier-distances' % k_old

    def setup(self, vc):
        W, N = z3.Ints('W N')
        vc.fin_bounds.extend([W, N])
        s = NS(W=W)
        s.scale = SArr.fresh('scale', (W,))
        s.scale0 = s.scale.snapshot()
        s.eucl = _eucl()
        s.w = [None] + [SArr.fresh('w%d' % i, (W,)) for i in range(1, self.k_old)]
        s.dfs = [functools.partial(s.eucl, w=(None if i == 0 else SArr.fresh('ww%d' % i, (W,)))) for i in range(self.k_old)]
        s.w0, s.dfs0 = list(s.w), list(s.dfs)
        s.old_arrays = [a for a in s.w if isinstance(a, SArr)] + [f.keywords['w'] for f in s.dfs if isinstance(f.keywords['w'], SArr)]
        s.old_snap = [a.snapshot() for a in s.old_arrays]
        st = {'attr_dict': {'distance': s.eucl}, 'w': s.w, 'distance_functions': s.dfs, 'scale': s.scale,
              'store': [SInt(N), SArr.fresh('mean', (W,)), SArr.fresh('m2', (W,))]}
        s.self = make_object('AdaptiveDistanceStub', attrs=dict(state=st), methods=_ad_methods(vc, 'init_adaptation_round', 'init_state'))
        return s, (s.self,), {}

    def requires(self, s):
        return [s.W >= 1, ('every column has a non-zero scale (non-constant summaries)', forall_range(0, s.W, lambda j: s.scale0.at(j) != 0, 'j'))]

    def ensures(self, s, result):
        sample_cover([s.W == 1, s.scale0.at(0) == 2])
        st = s.self.state
        w, dfs = st['w'], st['distance_functions']
        k = self.k_old
        out = [('append-only: earlier weights and distance functions stay available unchanged',
                z3.BoolVal(w is s.w and dfs is s.dfs and len(w) == k + 1 and len(dfs) == k + 1 and all(a is b for a, b in zip(w, s.w0)) and all(a is b for a, b in zip(dfs, s.dfs0)))),
               ('round stores are reset', z3.BoolVal(_store_is_zero(st.get('store')))),
               ('the weight vectors of the earlier distances are not modified',
                z3.And([z3.BoolVal(True)] + [forall_range(0, s.W, lambda j, a=a, b=b: a.at(j) == b.at(j), 'j') for a, b in zip(s.old_arrays, s.old_snap)])),
               ('the scale itself is not modified', z3.And(z3.BoolVal(st['scale'] is s.scale), forall_range(0, s.W, lambda j: s.scale.at(j) == s.scale0.at(j), 'j')))]
        if not (len(w) == k + 1 and len(dfs) == k + 1):
            return out
        nw, nf = w[-1], dfs[-1]
        out.append(('new weight vector = 1/scale', z3.And(nw.shape[0] == s.W, forall_range(0, s.W, lambda j: nw.at(j) == 1 / s.scale0.at(j), 'j'))
                    if isinstance(nw, SArr) and nw.ndim == 1 else z3.BoolVal(False)))
        okf = is_partial(nf, CDIST, {'metric', 'w'}) and nf.keywords['metric'] == 'euclidean' and isinstance(nf.keywords['w'], SArr) and nf.keywords['w'].ndim == 1
        out.append(('new distance function = scipy cdist, metric euclidean, with a weight vector', z3.BoolVal(okf)))
        if okf:
            W2 = nf.keywords['w']
            out.append(('its weights are (1/scale)^2', z3.And(W2.shape[0] == s.W, forall_range(0, s.W, lambda j: W2.at(j) == sq(1 / s.scale0.at(j)), 'j'))))
            out.append(('its weights are non-negative (cdist accepts them)', forall_range(0, s.W, lambda j: W2.at(j) >= 0, 'j')))
        return out


class NestedDistance(Contract):
    """distance_functions = [euclidean, w=None] + (K-1) weighted euclidean partials as appended by update_distance; the last one has
    w = (1/scale)^2 (post of UpdateDistance).  `row0` is an ARBITRARY row index (free constant) for the closed-form clause."""
    target = AD + 'nested_distance'
    prop = 'C12'
    fin = 3

    def __init__(self, K):
        self.K = K
        self.label = '%d-distances' % K

    def setup(self, vc):
        Bn, m, i0 = z3.Ints('B m row0')
        vc.fin_bounds.extend([Bn, m, i0])
        s = NS(B=Bn, m=m, i0=i0)
        s.u, s.v = SArr.fresh('u', (Bn, m)), SArr.fresh('v', (1, m))
        s.eucl = _eucl()
        s.ws = [None] + [SArr.fresh('w2_%d' % i, (m,)) for i in range(1, self.K)]
        s.dfs = [functools.partial(s.eucl, w=w) for w in s.ws]
        s.dfs0 = list(s.dfs)
        s.sc = z3.Function('scale', I, R)
        s.self = make_object('AdaptiveDistanceStub', attrs=dict(state={'distance_functions': s.dfs}))
        return s, (s.self, s.u, s.v), {}

    def requires(self, s):
        out = [s.B >= 1, s.m >= 1, 0 <= s.i0, s.i0 < s.B]
        for w in s.ws[1:]:
            out.append(forall_range(0, s.m, lambda t: w.at(t) >= 0, 't'))
        if self.K >= 2:
            w = s.ws[-1]
            out.append(('newest weights = (1/scale)^2, scale != 0 (post of update_distance)',
                        forall_range(0, s.m, lambda t: z3.And(s.sc(t) != 0, w.at(t) == sq(1 / s.sc(t))), 't')))
        return out

    def _dl(self, s):
        return lambda t: s.u.at(s.i0, t) - s.v.at(0, t)

    def lemmas_at_exit(self, s, result):
        vc = cur()
        recs = vc.libcalls.get('cdist', [])
        if self.K < 2 or len(recs) != self.K or not recs[-1]['closed']:
            return []
        rec = recs[-1]
        SS, dl = rec['SS'], self._dl(s)
        SC = vc.fresh_fn('SC', I, R)
        vc.assume(prefix_def(SC, s.m, scaled_term(dl, s.sc)))                                               # definitional extension
        vc.assume(z3.Implies(z3.And(0 <= s.i0, s.i0 < s.B), rec['row_def'](s.i0)))                          # instance of the cdist closed form at row0
        vc.assume(use(stmt_weighted_scaled(s.m, dl, rec['wt'], s.sc, lambda t: SS(s.i0, t), SC)))           # LemmaWeightedScaled
        vc.cut('sum_t w_t (u_t - v_t)^2 = sum_t ((u_t - v_t)/scale_t)^2', SS(s.i0, s.m) == SC(s.m))
        s.SC = SC
        return []

    def ensures(self, s, result):
        sample_cover([s.B == 1, s.m == 1, s.i0 == 0, s.sc(0) == 2, s.u.at(0, 0) == 3, s.v.at(0, 0) == 1])
        vc = cur()
        recs = vc.libcalls.get('cdist', [])
        K = self.K
        if len(recs) != K or not (isinstance(result, SArr) and result.ndim == 2):
            return [('one cdist evaluation per distance function, 2-D result', z3.BoolVal(False))]
        out = [('result has one row per simulation and one column per distance function', z3.And(result.shape[0] == s.B, result.shape[1] == K)),
               ('the list of distance functions is not modified', z3.BoolVal(s.self.state['distance_functions'] is s.dfs and len(s.dfs) == K and all(a is b for a, b in zip(s.dfs, s.dfs0))))]
        for t in range(K):
            rec = recs[t]
            out.append(('column %d = distance_functions[%d](u, v): cdist on the caller\'s u and v with that function\'s weights' % (t, t),
                        z3.And(z3.BoolVal(rec['XA_obj'] is s.u and rec['XB_obj'] is s.v and rec['metric'] == 'euclidean' and set(rec['kw']) == {'w'} and rec['kw']['w'] is s.ws[t]),
                               forall_range(0, s.B, lambda i: result.at(i, t) == rec['res'].at(i, 0), 'i'))))
        if K >= 2:
            out.append(('newest column = || (u - v) / scale ||_2   (at the arbitrary row row0)',
                        result.at(s.i0, K - 1) == npspec._sqrt(s.SC(s.m)) if s.has('SC') else z3.BoolVal(False)))
        return out


# ---------------------------------------------------------------- call site: Rejection feeds the adaptation data
SAMPLERS = 'elfi/methods/inference/samplers.py::Rejection.'


class _ADClass:
    """what `AdaptiveDistance` is in the globals of samplers.py: only isinstance(node, AdaptiveDistance) is asked"""


def _ordered_subsets(names):
    import itertools
    out = []
    for r in range(len(names) + 1):
        out.extend(list(p) for p in itertools.permutations(names, r))
    return out


class RejectionInit(Contract):
    """adaptive branch of Rejection.__init__: the adaptation columns are the distance node's PARENTS in positional order, whatever the user
    lists in output_names.  Concrete: a distance over the parents S1, S2, S3 (and over S1, S2), parameters t1, t2; user output_names = None,
    [], every ordered subset of the parent names (all permutations, all partial lists), each also with an unrelated node name in between."""
    target = SAMPLERS + '__init__'
    prop = 'C12'
    fin = 2

    def __init__(self, nparents, adaptive=True):
        self.np_, self.adaptive = nparents, adaptive
        self.label = '%d-parents%s' % (nparents, '' if adaptive else '-plain-distance')

    def env(self, vc):
        return dict(super=lambda cls, obj: obj._vc_super(), Rejection=object(), AdaptiveDistance=_ADClass)

    def setup(self, vc):
        s = NS(events=[])
        s.parent_names = ['S%d' % (i + 1) for i in range(self.np_)]
        parents = [types.SimpleNamespace(name=n) for n in s.parent_names]
        s.node = make_object('DistanceNodeStub', attrs=dict(parents=parents, name='d'),
                             methods=dict(init_adaptation_round=lambda self_: s.events.append('init_adaptation_round')),
                             bases=(_ADClass,) if self.adaptive else ())
        s.model = make_object('ModelStub', attrs=dict(parameter_names=['t1', 't2']),
                              methods={'__getitem__': lambda self_, k: s.node if k == 'd' else (_ for _ in ()).throw(KeyError(k)),
                                       # GraphicalModel.get_parents (documented: list of POSITIONAL parent names), for bodies that ask the model instead of the node
                                       'get_parents': lambda self_, k: list(s.parent_names) if k == 'd' else (_ for _ in ()).throw(KeyError(k))})
        choices = [None] + _ordered_subsets(s.parent_names)
        choices += [c[:1] + ['x'] + c[1:] for c in choices[1:] if len(c) <= 2]
        s.user = vc.fork_values('output_names', choices)
        s.user0 = None if s.user is None else list(s.user)
        s.arg = None if s.user is None else list(s.user)
        s.kw = dict(batch_size=7, seed=1)
        s.super_calls = []

        def base_init(self_, *a, **kw):
            s.events.append('super.__init__')
            s.super_calls.append((a, dict(kw)))
        base = make_object('SamplerStub', methods={'__init__': base_init})

        def resolve(self_, model, target):
            s.events.append('_resolve_model')
            s.resolved = (model, target)
            return s.model, 'd'
        s.self = make_object('RejectionStub', methods=dict(_vc_super=lambda self_: base, _resolve_model=resolve))
        s.model_arg = object()
        return s, (s.self, s.model_arg), dict(discrepancy_name='dd', output_names=s.arg, **s.kw)

    def ensures(self, s, result):
        me = s.self
        if len(s.super_calls) != 1:
            return [('Sampler.__init__ is called exactly once', z3.BoolVal(False))]
        (a, kw) = s.super_calls[0]
        names = list(a[1]) if len(a) == 2 and isinstance(a[1], list) else None
        user = s.user0 or []
        head = ['d', 't1', 't2'] + user
        out = [('model and target are resolved first, from the caller\'s arguments', z3.BoolVal(s.events[:1] == ['_resolve_model'] and s.resolved == (s.model_arg, 'dd'))),
               ('the base class receives the resolved model, the output names and the remaining keyword arguments', z3.BoolVal(len(a) == 2 and a[0] is s.model and names is not None and kw == s.kw)),
               ('the discrepancy name is recorded', z3.BoolVal(getattr(me, 'discrepancy_name', None) == 'd')),
               ('adaptive flag = the target is an AdaptiveDistance', z3.BoolVal(getattr(me, 'adaptive', None) is self.adaptive)),
               ('output names start with the discrepancy, the parameters and the user\'s names in the user\'s order', z3.BoolVal(names is not None and names[:len(head)] == head))]
        if not self.adaptive:
            out.append(('nothing is added for a plain distance; the adaptation round is not touched', z3.BoolVal(names == head and 'init_adaptation_round' not in s.events)))
            return out
        sums = getattr(me, 'sums', None)
        out += [('the adaptation columns (self.sums) are the names of the distance node\'s parents IN POSITIONAL ORDER, whatever the order in output_names',
                 z3.BoolVal(isinstance(sums, list) and sums == s.parent_names)),
                ('every summary of the distance is an output exactly once (needed as adaptation data); nothing else is added',
                 z3.BoolVal(names is not None and all(names.count(n) == 1 for n in s.parent_names) and sorted(names[len(head):]) == sorted(n for n in s.parent_names if n not in user))),
                ('a new adaptation round is started exactly once, before the sampler is initialised', z3.BoolVal(s.events == ['_resolve_model', 'init_adaptation_round', 'super.__init__']))]
        return out


class MergeBatchAdaptive(Contract):
    """adaptive lines of Rejection._merge_batch: add_data is called exactly once, on the distance node of the sampler's model, with the batch outputs
    of self.sums IN THAT ORDER (positional arguments = columns of the adaptation data).  The rest of the REAL body runs on a minimal
    buffer (only the discrepancy column, no threshold, batch_size 1) and is not specified here: it is under contract in C01 (MergeBatch)."""
    target = SAMPLERS + '_merge_batch'
    prop = 'C12'
    fin = 3

    def __init__(self, adaptive=True):
        self.adaptive = adaptive
        self.label = 'adaptive' if adaptive else 'not-adaptive'

    def setup(self, vc):
        n = z3.Int('n_buffer')
        vc.fin_bounds.append(n)
        s = NS(n=n, calls=[], events=[])
        orders = [['S1', 'S2', 'S3'], ['S3', 'S1', 'S2'], ['S2', 'S1'], ['S1']]
        s.sums = vc.fork_values('sums', orders) if self.adaptive else None
        s.sums0 = None if s.sums is None else list(s.sums)
        s.node = make_object('AdaptiveDistanceStub', methods=dict(add_data=lambda self_, *data, **kw: s.calls.append((data, kw))))
        s.model = make_object('ModelStub', methods={'__getitem__': lambda self_, k: (s.events.append(k), s.node)[1]})
        s.batch = {'d': SArr.fresh('batch_d', (1,)), 'S1': object(), 'S2': object(), 'S3': object(), 't1': object()}
        s.batch0 = dict(s.batch)
        attrs = dict(state={'samples': {'d': SArr.fresh('buf_d', (n,))}}, adaptive=self.adaptive, model=s.model, discrepancy_name='d',
                     objective={'n_samples': SInt(n - 1)}, batch_size=1)
        if self.adaptive:
            attrs['sums'] = s.sums
        s.self = make_object('RejectionStub', attrs=attrs)
        return s, (s.self, s.batch), {}

    def requires(self, s):
        return [s.n >= 2]

    def ensures(self, s, result):
        if not self.adaptive:
            return [('no adaptation data is added for a plain distance', z3.BoolVal(s.calls == [] and s.events == []))]
        ok = len(s.calls) == 1 and s.calls[0][1] == {} and len(s.calls[0][0]) == len(s.sums0) and \
            all(a is s.batch0[k] for a, k in zip(s.calls[0][0], s.sums0))
        return [('add_data is called exactly once, on the sampler\'s distance node', z3.BoolVal(len(s.calls) == 1 and s.events == ['d'])),
                ('its positional arguments are batch[s] for s in self.sums, in that order', z3.BoolVal(ok)),
                ('self.sums and the batch are not modified', z3.BoolVal(s.self.sums is s.sums and s.sums == s.sums0 and all(s.batch.get(k) is v for k, v in s.batch0.items()) and set(s.batch) == set(s.batch0)))]


CONTRACTS = [DistanceAsDiscrepancy('s'), DistanceAsDiscrepancy('v'), DistanceAsDiscrepancy('sv'), DistanceAsDiscrepancy('vs', extra=('p', 'w')),
             DistanceAsDiscrepancy('vsv', extra=('V',)), DistanceAsDiscrepancy('ss', extra=('VI',)),
             DistanceAsDiscrepancy('ss', 'fn1'), DistanceAsDiscrepancy('sv', 'fn21'), DistanceAsDiscrepancy('sv', 'fn22'),
             DistanceInit('str', 2), DistanceInit('names', 1), DistanceInit('str', 0), DistanceInit('callable', 1),
             AdaptiveInit(2), AdaptiveInit(0), InitState(), InitRound(),
             AddData(True, 's'), AddData(False, 's'), AddData(True, 'sv'), AddData(False, 'sv'), AddData(False, 'vsv'),
             DistanceAsDiscrepancy('svvs'), DistanceAsDiscrepancy('vssv', extra=('p', 'w')), DistanceAsDiscrepancy('sssvs'), AddData(True, 'vsvs'), AddData(False, 'svvs'),
             UpdateDistance(1), UpdateDistance(2), UpdateDistance(3), UpdateDistance(4), NestedDistance(1), NestedDistance(2), NestedDistance(3), NestedDistance(4), NestedDistance(5),
             RejectionInit(3), RejectionInit(2), RejectionInit(2, adaptive=False), MergeBatchAdaptive(True), MergeBatchAdaptive(False),
             LemmaSumExt(), LemmaShiftLin(), LemmaShiftMom(), LemmaShiftMom0(), LemmaWeightedScaled(), LemmaWelford(), LemmaVariance()]

for _cls in {type(_c) for _c in CONTRACTS}:
    if not _cls.target.startswith('@') and not getattr(_cls.env, '_c12_wrapped', False):
        _cls.env = _resolving_env(_cls.env)

TRUSTED_BASE = ["Lean lemma L4a (lemmas/L4.lean, re-checked in the thorough tier): an invariant preserved by every operation holds after ANY finite sequence of operations; the reading that its hypothesis is the conjunction of this module's per-operation obligations is not mechanised",
                'pyvc engine: proxies, path forking, numpy spec table (column_stack / atleast_2d / concatenate / reshape layouts, sum(axis=0) = column-wise mathematical finite sum, elementwise broadcasting)',
                'scipy.spatial.distance.cdist(XA, XB, metric, **kw)[i, j] = metric_kw(XA[i], XB[j]): pure, row-wise; shape (nA, nB); ValueError on unequal widths; '
                'closed form sqrt(sum_t w_t (a_t - b_t)^2) for metric=euclidean with optional w >= 0 (sanity-tested each run against the vector functions of scipy)',
                'functools.partial: keyword binding, flattening of nested partials (sanity-tested)',
                'np.sqrt is the real square root (uninterpreted function; only congruence is used)',
                'Discrepancy.__init__/NodeReference.__init__ (outside this property) store their arguments; modelled as a recording stub',
                'module-level helpers / literal tables of the analysed module that an analysed body refers to are taken from the tree (real helper body via pyvc.engine.inline, ast.literal_eval of the table; string-keyed tables fork on a symbolic metric name); anything else unresolved = undecided']
ASSUMPTIONS = ['A-REAL: floats are reals (the Welford update exists because they are not; only its real-number meaning is proved)',
               'A-INT: integers are mathematical',
               'summary outputs are (B,) or (B, w) arrays with a common batch size B >= 1; observed summaries have the matching width (shape (1,), 0-d, (1, w) or (w,))',
               'add_data: the first batch of a round has k >= 1 rows (later batches may be empty); tuples of summaries of CONCRETE arity (1..5, listed layouts) with symbolic batch size and widths',
               'update_distance: every column of scale is non-zero (a constant summary column gives weight inf and NaN distances: the formula of the property is undefined there)',
               'Rejection.__init__/_merge_batch: concrete distance nodes with 2 and 3 parents; user output_names enumerated exhaustively (None, every ordered subset of the parent names, each also with an unrelated name); model, node and base-class __init__ are recording stubs; the non-adaptive part of _merge_batch runs on a minimal buffer and is specified in C01',
               'history quantifier: store_ok(N) is the inductive invariant of a round (established by init_adaptation_round with N = 0, preserved by every add_data); '
               'the induction over the calls of a round is Lean lemma L4a (lemmas/L4.lean), each step is an obligation',
               'an arbitrary column / row is a free constant of the VC (validity for it = validity for all columns / rows)']
NOT_PROVED = ['"numbers and widths of summaries": widths and batch sizes are symbolic (all values), but the NUMBER of summaries is concrete per contract - proved for tuples of 1 to 5 '
              'summaries in the scalar/vector patterns s, v, ss, sv, vs, vsv, svvs, vssv, vsvs, sssvs (python tuples have no symbolic arity in the engine); other patterns and larger arities are not decided',
              '"all numbers of update rounds": update_distance is proved for 1 to 4 earlier distance functions and nested_distance for 1 to 5 (the code appends to / iterates over a '
              'python list uniformly; a list of symbolic length is not modelled); more rounds are not decided',
              '"equals the chosen scipy metric": relative to the assumed cdist contract (row-wise pure function of XA[i], XB[j], metric and keyword arguments); the numerical formulas of the '
              'individual scipy metrics are not re-proved (euclidean closed form only, sanity-tested)']


# ---------------------------------------------------------------- sanity tests of the assumed library contracts
def sanity():
    import numpy as np
    import scipy.spatial.distance as ssd
    out = []
    rs = np.random.RandomState(7)
    XA, XB = rs.randn(4, 3), rs.randn(2, 3)
    w = rs.rand(3) + .1
    V = rs.rand(3) + .5
    A = rs.randn(3, 3)
    VI = A.dot(A.T) + np.eye(3)
    cases = [('euclidean', {}, ssd.euclidean), ('euclidean', {'w': w}, lambda a, b: ssd.euclidean(a, b, w)), ('cityblock', {}, ssd.cityblock),
             ('minkowski', {'p': 3}, lambda a, b: ssd.minkowski(a, b, 3)), ('minkowski', {'p': 1.5, 'w': w}, lambda a, b: ssd.minkowski(a, b, 1.5, w)),
             ('seuclidean', {'V': V}, lambda a, b: ssd.seuclidean(a, b, V)), ('mahalanobis', {'VI': VI}, lambda a, b: ssd.mahalanobis(a, b, VI)),
             ('chebyshev', {}, ssd.chebyshev)]
    ok = True
    for metric, kw, fn in cases:
        D = ssd.cdist(XA, XB, metric=metric, **kw)
        ok = ok and D.shape == (4, 2) and all(abs(D[i, j] - fn(XA[i], XB[j])) < 1e-12 for i in range(4) for j in range(2))
        # row-wise purity: the value for (i, j) does not depend on the other rows
        D1 = ssd.cdist(XA[1:2], XB[1:2], metric=metric, **kw)
        ok = ok and abs(D1[0, 0] - D[1, 1]) < 1e-12
    out.append(('cdist[i, j] = metric_kw(XA[i], XB[j]), row-wise and pure', bool(ok)))
    D = ssd.cdist(XA, XB[:1], metric='euclidean', w=w)
    out.append(('euclidean closed form with weights', bool(np.allclose(D[:, 0], np.sqrt((w * (XA - XB[:1]) ** 2).sum(axis=1)), rtol=0, atol=1e-12))))
    D = ssd.cdist(XA, XB[:1], metric='euclidean', w=None)
    out.append(('euclidean closed form, w=None', bool(np.allclose(D[:, 0], np.sqrt(((XA - XB[:1]) ** 2).sum(axis=1)), rtol=0, atol=1e-12))))
    try:
        ssd.cdist(XA, XB[:, :2])
        out.append(('cdist raises ValueError on unequal widths', False))
    except ValueError:
        out.append(('cdist raises ValueError on unequal widths', True))
    try:
        ssd.cdist(XA, XB, metric='euclidean', w=-w)
        out.append(('cdist rejects negative weights with ValueError', False))
    except ValueError:
        out.append(('cdist rejects negative weights with ValueError', True))
    f = functools.partial(functools.partial(dict, metric='euclidean'), w=None)
    out.append(('functools.partial flattens and binds keywords', f.func is dict and f.keywords == {'metric': 'euclidean', 'w': None} and f(a=1) == {'metric': 'euclidean', 'w': None, 'a': 1}))
    a1, a2 = np.array([1., 2.]), np.array([[3., 4.], [5., 6.]])
    out.append(('column_stack / atleast_2d + concatenate layouts', np.column_stack((a1, a2)).tolist() == [[1., 3., 4.], [2., 5., 6.]] and
                np.concatenate([np.atleast_2d(o) for o in (np.array([7.]), np.array([[8., 9.]]))], axis=1).tolist() == [[7., 8., 9.]] and
                np.concatenate([np.atleast_2d(o) for o in (7., np.array([8., 9.]))], axis=1).tolist() == [[7., 8., 9.]]))
    out.append(('sum(axis=0) is column-wise; (B,1).reshape(-1) keeps the row order', np.sum(a2, axis=0).tolist() == [8., 10.] and np.array([[1.], [2.]]).reshape(-1).tolist() == [1., 2.]))
    return out


def bounded(tier, seed):
    from bounded import c12 as b
    return b.run(tier, seed)


_FAMILY = [('distance_as_discrepancy', 'distance'), ('Distance.__init__', 'distance'), ('AdaptiveDistance', 'adaptive'), ('Rejection', 'sampler')]
_replay_cache = {}


def replay_refuted(cname, rf):
    from bounded import c12 as b
    fam = next((v for k, v in _FAMILY if cname.startswith(k)), None)
    if fam is None:
        return dict(found=False, note='lemma obligation: no native input')
    if fam not in _replay_cache:
        res = b.run('thorough', 0, stop_first=True, which=(fam,))
        fails = [f for r in res for f in r['failures']]
        _replay_cache[fam] = dict(found=True, input=fails[0]['input'], observed=fails[0]['what']) if fails else dict(found=False, searched=[r['bound'] for r in res])
    return _replay_cache[fam]


def replay_input(inp):
    from bounded import c12 as b
    return b.replay_input(inp)

USES_LEAN_LEMMAS = ['L4a invariant after any operation sequence']      # re-checked with lean (selftest/lean_check.sh) in the thorough tier
