"""C13 - Weighted-sample statistics and the mixture proposal obey their definitions.

Sigma in the property text is the mathematical finite sum.  numpy's sum/cumsum/dot/average are
interpreted as that sum by the spec table (prefix-sum recursion ps(0)=0, ps(i+1)=ps(i)+a[i]); the
sums that appear in the property clauses are introduced as definitional prefix sums over the INPUTS
and connected to the code's sums by verified ghost lemmas (extensionality, linearity, monotonicity,
indicator-prefix lemmas; lemmas/c13_lemmas.py) and ONE mathematics lemma that SMT cannot do by a
loop, permutation invariance of a finite sum (L2a; Lean/Mathlib: Equiv.sum_comp, lemmas/L2.lean),
plus the discrete intermediate-value lemma L3 (existence of the crossing index; lemmas/L1.lean).
"""
MANIFEST = {
    'category': 'proof',
    'text': 'weighted_sample_quantile, normalize_weights, compute_ess, weighted_var, GMDistribution._normalize_params/pdf/logpdf/rvs are verified '
            'on the real source for all array lengths and values (loop invariants, no bound): the quantile clause (weight of values <= q is >= alpha, '
            'weight of values < q is <= alpha, q an element of the sample), monotonicity in alpha and scale invariance as lemmas over that contract; '
            'variance / ESS formulas; mixture density = weighted sum of component densities; constrained sampler returns exactly size valid rows.',
    'note': 'Trusted: pyvc engine and numpy spec table (sum = mathematical finite sum, argsort = sorting permutation, mask select = order-preserving '
            'bijection), two Lean-checked mathematics lemmas used as axiom instances (permutation invariance of finite sums, discrete IVT), '
            'scipy multivariate_normal as an uninterpreted pure function, reals for floats (the code forces cum[-1]=1.0 exactly because floats are not reals). '
            'GMDistribution.rvs is proved for scalar samples (1-D means) and 2-column samples; termination of its retry loop is not proved.',
    'technique': 'deductive: VCs from the real AST (pyvc) + ghost lemma functions + 2 Lean-certified lemma instances, z3/cvc5; bounded: tie/zero-weight sweep vs the definition',
}

import z3

from pyvc.core import cur, forall_range, exists_range, OutOfSubset
from pyvc.engine import Contract, Loop, NS
from pyvc.values import SInt, SReal, SBool, SOpt, Sym, lift, term as T
from pyvc.sarray import SArr, Cell

R, I, B = z3.RealSort(), z3.IntSort(), z3.BoolSort()


def arr(name, n, sort=R):
    f = z3.Function(name, I, sort)
    kind = 'real' if sort == R else 'int'
    return f, SArr(Cell(lambda i: f(i), (n,), kind))


def prefix_def(P, n, summand):
    """defining equations of a prefix sum P over [0, n)"""
    return z3.And(P(0) == 0, forall_range(0, n, lambda i: P(i + 1) == P(i) + summand(i), 'i'))


def prefix_inst(P, summand, j):
    return P(j + 1) == P(j) + summand(j)


# ---------------------------------------------------------------- generic lemma statements (python formula builders)
def stmt_le_prefix(n, k, y, v, cum, LE):
    hyp = z3.And(0 <= k, k < n,
                 forall_range(0, n, lambda j: forall_range(0, j + 1, lambda i: y(i) <= y(j), 'i'), 'j'),
                 forall_range(0, n, lambda i: v(i) >= 0, 'i'),
                 prefix_def(cum, n, v), prefix_def(LE, n, lambda t: z3.If(y(t) <= y(k), v(t), 0)))
    return hyp, LE(n) >= cum(k + 1)


def stmt_lt_prefix(n, k, y, v, cum, LT):
    hyp = z3.And(0 <= k, k < n,
                 forall_range(0, n, lambda j: forall_range(0, j + 1, lambda i: y(i) <= y(j), 'i'), 'j'),
                 forall_range(0, n, lambda i: v(i) >= 0, 'i'),
                 prefix_def(cum, n, v), prefix_def(LT, n, lambda t: z3.If(y(t) < y(k), v(t), 0)))
    return hyp, LT(n) <= cum(k)


def stmt_scale_sum(n, a, c, A, Bp):
    hyp = z3.And(n >= 0, c != 0, prefix_def(A, n, a), prefix_def(Bp, n, lambda i: a(i) / c))
    return hyp, Bp(n) == A(n) / c


def stmt_monotone_cum(n, a_, b_, v, cum):
    hyp = z3.And(0 <= a_, a_ <= b_, b_ <= n, forall_range(0, n, lambda i: v(i) >= 0, 'i'), prefix_def(cum, n, v))
    return hyp, cum(a_) <= cum(b_)


def stmt_sum_ext(n, a, b, A, Bp, m=None):
    m = n if m is None else m
    hyp = z3.And(0 <= m, m <= n, prefix_def(A, n, a), prefix_def(Bp, n, b), forall_range(0, n, lambda i: a(i) == b(i), 'i'))
    return hyp, A(m) == Bp(m)


def stmt_sum_nonneg(n, a, A):
    hyp = z3.And(n >= 0, prefix_def(A, n, a), forall_range(0, n, lambda i: a(i) >= 0, 'i'))
    return hyp, A(n) >= 0


def stmt_sum_zero(n, a, A):
    hyp = z3.And(n >= 0, prefix_def(A, n, a), forall_range(0, n, lambda i: a(i) == 0, 'i'))
    return hyp, A(n) == 0


def L2a_perm_sum(n, pi, pinv, f, A, Bp):
    """Lean-certified (lemmas/L2.lean, Equiv.sum_comp): pi a bijection of [0,n) with inverse pinv,
    A = prefix sums of f, Bp = prefix sums of f o pi   =>   A(n) = Bp(n)"""
    hyp = z3.And(n >= 0, forall_range(0, n, lambda i: z3.And(0 <= pi(i), pi(i) < n, pinv(pi(i)) == i, 0 <= pinv(i), pinv(i) < n, pi(pinv(i)) == i), 'i'),
                 prefix_def(A, n, f), prefix_def(Bp, n, lambda j: f(pi(j))))
    return z3.Implies(hyp, A(n) == Bp(n))


def L3_ivt(n, f, alpha, k0):
    """Lean-certified (lemmas/L1.lean, discrete intermediate value): f(0) < alpha <= f(n), n >= 1  =>  some k in [0,n)
    has f(k) < alpha <= f(k+1); k0 is the (fresh) witness"""
    return z3.Implies(z3.And(n >= 1, f(0) < alpha, alpha <= f(n)), z3.And(0 <= k0, k0 < n, f(k0) < alpha, alpha <= f(k0 + 1)))


# ---------------------------------------------------------------- lemma contracts (ghost functions)
class _LoopLemma(Contract):
    prop = 'C13'
    fin = 5
    stmt = None

    def _mk(self, vc):
        raise NotImplementedError

    def setup(self, vc):
        s = self._mk(vc)
        return s, s.args, {}

    def requires(self, s):
        return [s.hyp]

    def ensures(self, s, result):
        return [(self.__doc__.strip().splitlines()[0], s.goal)]

    def env(self, vc):
        def inst(j):
            for f in self._instances(vc._lemma_s, T(j)):
                vc.assume(f)
        return dict(inst=inst)


class LemmaLePrefix(_LoopLemma):
    """indicator-prefix lemma: LE(n) >= cum(k+1) for sorted y, v >= 0"""
    target = '@verif/lemmas/c13_lemmas.py::lemma_le_prefix'

    def _mk(self, vc):
        n, k = z3.Ints('n k')
        y, v, cum, LE = [z3.Function(x, I, R) for x in ('y', 'v', 'cum', 'LE')]
        hyp, goal = stmt_le_prefix(n, k, y, v, cum, LE)
        vc.fin_bounds.extend([n, k])
        s = NS(n=n, k=k, y=y, v=v, cum=cum, LE=LE, hyp=hyp, goal=goal, args=(SInt(n), SInt(k)))
        vc._lemma_s = s
        return s

    def _instances(self, s, j):
        rng = z3.And(0 <= j, j < s.n)
        return [z3.Implies(rng, z3.And(prefix_inst(s.cum, s.v, j), prefix_inst(s.LE, lambda t: z3.If(s.y(t) <= s.y(s.k), s.v(t), 0), j), s.v(j) >= 0)),
                z3.Implies(z3.And(rng, j <= s.k), s.y(j) <= s.y(s.k))]

    loops = {0: Loop(inv=lambda s, l: [z3.And(0 <= T(l.j), T(l.j) <= s.k + 1), s.LE(T(l.j)) == s.cum(T(l.j))]),
             1: Loop(inv=lambda s, l: [z3.And(s.k + 1 <= T(l.j), T(l.j) <= s.n), s.LE(T(l.j)) >= s.cum(s.k + 1)])}


class LemmaLtPrefix(_LoopLemma):
    """indicator-prefix lemma: LT(n) <= cum(k) for sorted y, v >= 0"""
    target = '@verif/lemmas/c13_lemmas.py::lemma_lt_prefix'

    def _mk(self, vc):
        n, k = z3.Ints('n k')
        y, v, cum, LT = [z3.Function(x, I, R) for x in ('y', 'v', 'cum', 'LT')]
        hyp, goal = stmt_lt_prefix(n, k, y, v, cum, LT)
        vc.fin_bounds.extend([n, k])
        s = NS(n=n, k=k, y=y, v=v, cum=cum, LT=LT, hyp=hyp, goal=goal, args=(SInt(n), SInt(k)))
        vc._lemma_s = s
        return s

    def _instances(self, s, j):
        rng = z3.And(0 <= j, j < s.n)
        return [z3.Implies(rng, z3.And(prefix_inst(s.cum, s.v, j), prefix_inst(s.LT, lambda t: z3.If(s.y(t) < s.y(s.k), s.v(t), 0), j), s.v(j) >= 0)),
                z3.Implies(z3.And(rng, s.k <= j), s.y(s.k) <= s.y(j))]

    loops = {0: Loop(inv=lambda s, l: [z3.And(0 <= T(l.j), T(l.j) <= s.k), s.LT(T(l.j)) <= s.cum(T(l.j))]),
             1: Loop(inv=lambda s, l: [z3.And(s.k <= T(l.j), T(l.j) <= s.n), s.LT(T(l.j)) <= s.cum(s.k)])}


class LemmaScaleSum(_LoopLemma):
    """linearity: sum_i a(i)/c = (sum_i a(i)) / c"""
    target = '@verif/lemmas/c13_lemmas.py::lemma_scale_sum'

    def _mk(self, vc):
        n = z3.Int('n')
        c = z3.Real('c')
        a, A, Bp = [z3.Function(x, I, R) for x in ('a', 'A', 'Bp')]
        hyp, goal = stmt_scale_sum(n, a, c, A, Bp)
        vc.fin_bounds.append(n)
        s = NS(n=n, c=c, a=a, A=A, Bp=Bp, hyp=hyp, goal=goal, args=(SInt(n),))
        vc._lemma_s = s
        return s

    def _instances(self, s, j):
        return [z3.Implies(z3.And(0 <= j, j < s.n), z3.And(prefix_inst(s.A, s.a, j), prefix_inst(s.Bp, lambda i: s.a(i) / s.c, j)))]

    loops = {0: Loop(inv=lambda s, l: [z3.And(0 <= T(l.j), T(l.j) <= s.n), s.Bp(T(l.j)) == s.A(T(l.j)) / s.c])}


class LemmaMonotoneCum(_LoopLemma):
    """prefix sums of non-negative terms are monotone"""
    target = '@verif/lemmas/c13_lemmas.py::lemma_monotone_cum'

    def _mk(self, vc):
        n, a_, b_ = z3.Ints('n a b')
        v, cum = [z3.Function(x, I, R) for x in ('v', 'cum')]
        hyp, goal = stmt_monotone_cum(n, a_, b_, v, cum)
        vc.fin_bounds.extend([n, a_, b_])
        s = NS(n=n, a=a_, b=b_, v=v, cum=cum, hyp=hyp, goal=goal, args=(SInt(n), SInt(a_), SInt(b_)))
        vc._lemma_s = s
        return s

    def _instances(self, s, j):
        return [z3.Implies(z3.And(0 <= j, j < s.n), z3.And(prefix_inst(s.cum, s.v, j), s.v(j) >= 0))]

    loops = {0: Loop(inv=lambda s, l: [z3.And(s.a <= T(l.j), T(l.j) <= s.b), s.cum(s.a) <= s.cum(T(l.j))])}


class LemmaSumExt(_LoopLemma):
    """extensionality: pointwise equal summands give equal sums"""
    target = '@verif/lemmas/c13_lemmas.py::lemma_sum_ext'

    def _mk(self, vc):
        n, m = z3.Ints('n m')
        a, b, A, Bp = [z3.Function(x, I, R) for x in ('a', 'b', 'A', 'Bp')]
        hyp, goal = stmt_sum_ext(n, a, b, A, Bp, m)
        vc.fin_bounds.extend([n, m])
        s = NS(n=n, m=m, a=a, b=b, A=A, Bp=Bp, hyp=hyp, goal=goal, args=(SInt(m),))
        vc._lemma_s = s
        return s

    def _instances(self, s, j):
        return [z3.Implies(z3.And(0 <= j, j < s.n), z3.And(prefix_inst(s.A, s.a, j), prefix_inst(s.Bp, s.b, j), s.a(j) == s.b(j)))]

    loops = {0: Loop(inv=lambda s, l: [z3.And(0 <= T(l.j), T(l.j) <= s.m), s.A(T(l.j)) == s.Bp(T(l.j))])}


class LemmaSumNonneg(_LoopLemma):
    """a sum of non-negative terms is non-negative"""
    target = '@verif/lemmas/c13_lemmas.py::lemma_sum_sign'
    label = 'nonneg'
    zero = False

    def _mk(self, vc):
        n = z3.Int('n')
        a, A = [z3.Function(x, I, R) for x in ('a', 'A')]
        hyp, goal = (stmt_sum_zero if self.zero else stmt_sum_nonneg)(n, a, A)
        vc.fin_bounds.append(n)
        s = NS(n=n, a=a, A=A, hyp=hyp, goal=goal, args=(SInt(n),))
        vc._lemma_s = s
        return s

    def _instances(self, s, j):
        return [z3.Implies(z3.And(0 <= j, j < s.n), z3.And(prefix_inst(s.A, s.a, j), (s.a(j) == 0) if self.zero else (s.a(j) >= 0)))]

    @property
    def loops(self):
        if self.zero:
            return {0: Loop(inv=lambda s, l: [z3.And(0 <= T(l.j), T(l.j) <= s.n), s.A(T(l.j)) == 0])}
        return {0: Loop(inv=lambda s, l: [z3.And(0 <= T(l.j), T(l.j) <= s.n), s.A(T(l.j)) >= 0])}


class LemmaSumZero(LemmaSumNonneg):
    """a sum of zero terms is zero"""
    label = 'zero'
    zero = True


def use(stmt):
    hyp, goal = stmt
    return z3.Implies(hyp, goal)


# ---------------------------------------------------------------- weighted_sample_quantile
class Quantile(Contract):
    target = 'elfi/methods/utils.py::weighted_sample_quantile'
    prop = 'C13'
    fin = 5

    def __init__(self, weights):
        self.weights = weights          # 'given' | 'none'
        self.label = 'weights-' + weights

    def setup(self, vc):
        n = z3.Int('n')
        alpha = z3.Real('alpha')
        xf, x = arr('x', n)
        wf, w = arr('w', n)
        vc.fin_bounds.append(n)
        s = NS(n=n, alpha=alpha, xf=xf, wf=wf, x=x, w=w if self.weights == 'given' else None)
        if self.weights == 'none':
            s.wf = lambda i: z3.RealVal(1)
        # spec-level total weight S = sum_i w_i (definitional prefix sum over the INPUT)
        s.SW = z3.Function('SW', I, R)
        return s, (x, SReal(alpha)), dict(weights=s.w)

    def requires(self, s):
        return [s.n >= 1, s.alpha >= 0, s.alpha <= 1,
                forall_range(0, s.n, lambda i: s.wf(i) >= 0, 'i'),
                prefix_def(s.SW, s.n, s.wf), s.SW(s.n) > 0]

    def hooks(self, s):
        def sum_weights(vc, rec):
            # the code's np.sum(weights) is the spec-level S (extensionality lemma instance; proved by LemmaSumExt)
            a = rec['arr']
            vc.assume(use(stmt_sum_ext(s.n, lambda i: a.at(i), s.wf, rec['ps'], s.SW)))
            vc.cut('np.sum(weights) is the total weight S', T(rec['res']) == s.SW(s.n))

        def at_where(vc, rec):
            f = vc.libcalls['np.insert'][0]           # the live cum_weights array (after cum_weights[-1] = 1.0)
            k0 = vc.fresh_int('k0')
            vc.assume(L3_ivt(s.n, lambda i: f.at(i), s.alpha, k0))
            vc.assume(rec['inst']['true_has_rank'](k0))
            vc.assume(rec['inst']['sel_is_true'](z3.IntVal(0)))
            s.kstar = rec['sel'](0)
            s.f = f
        def at_searchsorted(vc, rec):
            # a bisection instead of the mask lookup (np.searchsorted over the cumulative weights): the library spec is conditional on an
            # ascending array - prove that first (own obligation), then the bisection facts are available to the rest of the script
            vc.cut('the array handed to np.searchsorted is ascending (cumulative sums of non-negative weights)', rec['ascending'])
            s.ss = rec
            s.f = vc.libcalls['np.insert'][0]
        return {('np.sum', 0): sum_weights, ('np.where', 0): at_where, ('np.searchsorted', 0): at_searchsorted}

    def _spec(self, s, q):
        """definitional sums of the property clause over the INPUTS (original order) and the chain of lemma instances"""
        vc = cur()
        n = s.n
        S = s.SW(n)
        what = lambda i: s.wf(i) / S
        WLE, WLT, WALL = vc.fresh_fn('WLE', I, R), vc.fresh_fn('WLT', I, R), vc.fresh_fn('WALL', I, R)
        facts = [prefix_def(WLE, n, lambda i: z3.If(s.xf(i) <= q, what(i), 0)),
                 prefix_def(WLT, n, lambda i: z3.If(s.xf(i) < q, what(i), 0)),
                 prefix_def(WALL, n, what)]
        return what, WLE, WLT, WALL, facts

    def lemmas_at_exit(self, s, result):
        vc = cur()
        if 'np.cumsum' in vc.libcalls and not s.has('kstar') and not s.has('ss'):
            raise OutOfSubset('weighted_sample_quantile: the crossing index is found neither by np.where nor by np.searchsorted - the proof script does not apply')
        if 'np.cumsum' not in vc.libcalls:
            # the branch that returns the minimum: the property clause is stated all the same (weights over the INPUT order)
            n, q, alpha = s.n, result.t, s.alpha
            S = s.SW(n)
            what = lambda i: s.wf(i) / S
            WLE, WLT = vc.fresh_fn('WLE', I, R), vc.fresh_fn('WLT', I, R)
            le_t = lambda i: z3.If(s.xf(i) <= q, what(i), 0)
            lt_t = lambda i: z3.If(s.xf(i) < q, what(i), 0)
            vc.assume(prefix_def(WLE, n, le_t), prefix_def(WLT, n, lt_t))
            s.spec = (WLE, WLT, q)
            vc.cut('q is the minimum of the sample', forall_range(0, n, lambda i: q <= s.xf(i), 'i'))
            vc.cut('no value is below the minimum: every term of the strict sum is zero; every term of the other is >= 0',
                   z3.And(forall_range(0, n, lambda i: lt_t(i) == 0, 'i'), forall_range(0, n, lambda i: le_t(i) >= 0, 'i')))
            vc.assume(use(stmt_sum_zero(n, lt_t, WLT)), use(stmt_sum_nonneg(n, le_t, WLE)))
            vc.cut('weights at the minimum', z3.And(WLT(n) == 0, WLE(n) >= 0))
            return []
        p = vc.libcalls['np.argsort'][0]
        if not s.has('kstar') and s.has('ss'):
            # bisection route: the crossing index is res - 1 or res, whichever the code used to pick the element (read off the returned value);
            # the property needs only  f(k) <= alpha <= f(k+1)  (at an exact tie both neighbouring sample values satisfy the quantile clause)
            r_ = s.ss['res']
            yq = lambda j: s.xf(p.pi(j))
            s.kstar = z3.If(z3.And(r_ >= 1, result.t == yq(r_ - 1)), r_ - 1, r_)
            s.tie_ok = True
        n, k, q, alpha = s.n, s.kstar, result.t, s.alpha
        cs = vc.libcalls['np.cumsum'][0]
        cum, sw, f = cs['ps'], cs['arr'], s.f
        S = s.SW(n)
        what = lambda i: s.wf(i) / S                                       # spec-level normalised weight
        y = lambda j: s.xf(p.pi(j))
        v = lambda j: what(p.pi(j))
        WLE, WLT, WALL = vc.fresh_fn('WLE', I, R), vc.fresh_fn('WLT', I, R), vc.fresh_fn('WALL', I, R)
        LE, LT, VS = vc.fresh_fn('LE', I, R), vc.fresh_fn('LT', I, R), vc.fresh_fn('VS', I, R)
        # definitional extensions (total functions defined by recursion on the index)
        vc.assume(prefix_def(WLE, n, lambda i: z3.If(s.xf(i) <= y(k), what(i), 0)),
                  prefix_def(WLT, n, lambda i: z3.If(s.xf(i) < y(k), what(i), 0)),
                  prefix_def(WALL, n, what),
                  prefix_def(LE, n, lambda t: z3.If(y(t) <= y(k), v(t), 0)),
                  prefix_def(LT, n, lambda t: z3.If(y(t) < y(k), v(t), 0)),
                  prefix_def(VS, n, v))
        s.spec = (WLE, WLT, y(k))
        vc.cut('the crossing index k is in range and q = x[pi(k)]', z3.And(0 <= k, k < n, q == y(k), (f.at(k) <= alpha) if s.has('tie_ok') else (f.at(k) < alpha), alpha <= f.at(k + 1)))
        # sums over the sorted order equal sums over the original order (L2a, Lean-certified permutation invariance)
        vc.assume(L2a_perm_sum(n, p.pi, p.pinv, lambda i: z3.If(s.xf(i) <= y(k), what(i), 0), WLE, LE),
                  L2a_perm_sum(n, p.pi, p.pinv, lambda i: z3.If(s.xf(i) < y(k), what(i), 0), WLT, LT),
                  L2a_perm_sum(n, p.pi, p.pinv, what, WALL, VS))
        vc.cut('sorted-order sums = original-order sums', z3.And(WLE(n) == LE(n), WLT(n) == LT(n), WALL(n) == VS(n)))
        # normalisation: sum_i w_i * (1/S) = (1/S) * S = 1   (linearity, LemmaScaleSum)
        vc.assume(use(stmt_scale_sum(n, s.wf, S, s.SW, WALL)))
        vc.cut('linearity of the sum', WALL(n) == s.SW(n) / S)
        vc.cut('normalised weights sum to one', WALL(n) == 1)
        # the code's cumulative sums are the prefix sums of v (extensionality at k, k+1, n; LemmaSumExt)
        vc.cut('the code sorts the normalised weights', forall_range(0, n, lambda j: sw.at(j) == v(j), 'j'))
        for m in (k, k + 1, n):
            vc.assume(use(stmt_sum_ext(n, lambda j: sw.at(j), v, cum, VS, m)))
        vc.cut('cumulative weights seen by the code', z3.And(f.at(k) == VS(k), f.at(k + 1) == VS(k + 1)))
        # indicator-prefix lemmas on the sorted order (LemmaLePrefix / LemmaLtPrefix)
        vc.assume(use(stmt_le_prefix(n, k, y, v, VS, LE)), use(stmt_lt_prefix(n, k, y, v, VS, LT)))
        vc.cut('sorted-order clause', z3.And(LE(n) >= VS(k + 1), LT(n) <= VS(k)))
        return []

    def ensures(self, s, result):
        vc = cur()
        q = result.t
        out = [('q is an element of the sample', exists_range(0, s.n, lambda i: q == s.xf(i), 'i'))]
        WLE, WLT, yk = s.spec
        out += [('normalised weight of values <= q is at least alpha', WLE(s.n) >= s.alpha),
                ('normalised weight of values < q is at most alpha', WLT(s.n) <= s.alpha)]
        return out



# ---------------------------------------------------------------- normalize_weights / compute_ess / weighted_var
def sum_is(vc, rec, n, summand, P, name):
    """connect a code-level np.sum (rec) with the definitional prefix sum P of `summand` over [0,n): pointwise equal
    summands (obligation), equal lengths, extensionality lemma instance (LemmaSumExt), then the cut res == P(n)"""
    a = rec['arr']
    vc.cut('%s: summand of the code = summand of the definition' % name,
           z3.And(a.shape[0] == n, forall_range(0, n, lambda i: a.at(i) == summand(i), 'i')))
    vc.assume(use(stmt_sum_ext(n, lambda i: a.at(i), summand, rec['ps'], P)))
    vc.cut('%s: code sum = definitional sum' % name, T(rec['res']) == P(n))


class NormalizeWeights(Contract):
    target = 'elfi/methods/utils.py::normalize_weights'
    prop = 'C13'
    fin = 4

    def setup(self, vc):
        n = z3.Int('n')
        wf, w = arr('w', n)
        vc.fin_bounds.append(n)
        s = NS(n=n, wf=wf, w=w, SW=z3.Function('SW', I, R))
        return s, (w,), {}

    def requires(self, s):
        return [s.n >= 1, prefix_def(s.SW, s.n, s.wf)]

    def hooks(self, s):
        return {('np.sum', 0): lambda vc, rec: sum_is(vc, rec, s.n, s.wf, s.SW, 'sum of weights')}

    def _bad(self, s):
        return z3.Or(exists_range(0, s.n, lambda i: s.wf(i) < 0, 'i'), s.SW(s.n) == 0)

    def raises(self, s):
        return {'ValueError': self._bad(s)}

    def iff_raises(self, s):
        return [('normal return only for non-negative weights with non-zero sum', z3.Not(self._bad(s)))]

    def ensures(self, s, result):
        return [('result[i] = w[i] / sum(w)', z3.And(result.shape[0] == s.n, forall_range(0, s.n, lambda i: result.at(i) == s.wf(i) / s.SW(s.n), 'i')))]


def normalize_weights_stub(n, wf, SW):
    """modular use of normalize_weights at call sites (its contract is NormalizeWeights)"""
    def stub(weights):
        vc = cur()
        a = weights.snapshot()
        vc.oblige('call-pre[normalize_weights: the argument is the weight vector]', z3.And(a.shape[0] == n, forall_range(0, n, lambda i: a.at(i) == wf(i), 'i')))
        vc.oblige('call-pre[normalize_weights: weights >= 0 and sum != 0]', z3.And(forall_range(0, n, lambda i: wf(i) >= 0, 'i'), SW(n) != 0))
        out = SArr(Cell(lambda i: wf(i) / SW(n), (n,), 'real'))
        vc.libcall('normalize_weights', out)
        return out
    return stub


class ComputeEss(Contract):
    target = 'elfi/methods/utils.py::compute_ess'
    prop = 'C13'
    fin = 4

    def setup(self, vc):
        n = z3.Int('n')
        wf, w = arr('w', n)
        vc.fin_bounds.append(n)
        s = NS(n=n, wf=wf, w=w, SW=z3.Function('SW', I, R), SQ=z3.Function('SQ', I, R), NW=z3.Function('NW', I, R), NQ=z3.Function('NQ', I, R))
        vc._s = s
        return s, (), dict(weights=w)

    def env(self, vc):
        s = vc._s
        return dict(normalize_weights=normalize_weights_stub(s.n, s.wf, s.SW))

    def requires(self, s):
        S = s.SW(s.n)
        return [s.n >= 1, forall_range(0, s.n, lambda i: s.wf(i) >= 0, 'i'), prefix_def(s.SW, s.n, s.wf), S > 0,
                prefix_def(s.SQ, s.n, lambda i: s.wf(i) * s.wf(i)),
                prefix_def(s.NW, s.n, lambda i: s.wf(i) / S), prefix_def(s.NQ, s.n, lambda i: (s.wf(i) * s.wf(i)) / (S * S))]

    def hooks(self, s):
        S = s.SW(s.n)

        def h1(vc, rec):
            sum_is(vc, rec, s.n, lambda i: s.wf(i) / S, s.NW, 'sum of normalised weights')

        def h2(vc, rec):
            sum_is(vc, rec, s.n, lambda i: (s.wf(i) * s.wf(i)) / (S * S), s.NQ, 'sum of squared normalised weights')
            # linearity (LemmaScaleSum) and positivity of the sum of squares (LemmaSqPositive)
            vc.assume(use(stmt_scale_sum(s.n, s.wf, S, s.SW, s.NW)), use(stmt_scale_sum(s.n, lambda i: s.wf(i) * s.wf(i), S * S, s.SQ, s.NQ)),
                      use(stmt_sq_positive(s.n, s.wf, s.SW, s.SQ)))
            vc.cut('linearity', z3.And(s.NW(s.n) == S / S, s.NQ(s.n) == s.SQ(s.n) / (S * S), s.SQ(s.n) > 0))
        return {('np.sum', 0): h1, ('np.sum', 1): h2}

    def ensures(self, s, result):
        S, Q = s.SW(s.n), s.SQ(s.n)
        return [('ESS = (sum w)^2 / sum w^2', T(result) == (S * S) / Q)]


def stmt_sq_positive(n, a, A, Q):
    hyp = z3.And(n >= 0, forall_range(0, n, lambda i: a(i) >= 0, 'i'), prefix_def(A, n, a), prefix_def(Q, n, lambda i: a(i) * a(i)), A(n) > 0)
    return hyp, Q(n) > 0


class LemmaSqPositive(_LoopLemma):
    """non-negative terms with a positive sum have a positive sum of squares"""
    target = '@verif/lemmas/c13_lemmas.py::lemma_scale_sum'       # same single-loop shape: j from 0 to n with inst(j)

    def _mk(self, vc):
        n = z3.Int('n')
        a, A, Q = [z3.Function(x, I, R) for x in ('a', 'A', 'Q')]
        hyp, goal = stmt_sq_positive(n, a, A, Q)
        vc.fin_bounds.append(n)
        s = NS(n=n, a=a, A=A, Q=Q, hyp=hyp, goal=goal, args=(SInt(n),))
        vc._lemma_s = s
        return s

    label = 'sq-positive'

    def _instances(self, s, j):
        return [z3.Implies(z3.And(0 <= j, j < s.n), z3.And(prefix_inst(s.A, s.a, j), prefix_inst(s.Q, lambda i: s.a(i) * s.a(i), j), s.a(j) >= 0))]

    loops = {0: Loop(inv=lambda s, l: [z3.And(0 <= T(l.j), T(l.j) <= s.n), z3.And(s.Q(T(l.j)) >= 0, s.A(T(l.j)) >= 0, z3.Implies(s.Q(T(l.j)) == 0, s.A(T(l.j)) == 0))])}


class WeightedVar(Contract):
    """1-D sample.  Every Sigma of the reliability-weights formula is matched with one numpy reduction of the code whose
    summand is proved pointwise equal to the formula's summand; the result is then the formula's combination of them."""
    target = 'elfi/methods/utils.py::weighted_var'
    prop = 'C13'
    fin = 4

    def __init__(self, weights):
        self.weights = weights
        self.label = 'weights-' + weights

    def setup(self, vc):
        n = z3.Int('n')
        xf, x = arr('x', n)
        wf, w = arr('w', n)
        if self.weights == 'none':
            wf = lambda i: z3.RealVal(1)
        vc.fin_bounds.append(n)
        mk = lambda nm: z3.Function(nm, I, R)
        s = NS(n=n, xf=xf, wf=wf, x=x, w=w if self.weights == 'given' else None, V1=mk('V1'), V2=mk('V2'), WX=mk('WX'), NUM=mk('NUM'))
        return s, (x,), dict(weights=s.w)

    def _xbar(self, s):
        return s.WX(s.n) / s.V1(s.n)

    def requires(self, s):
        xbar = self._xbar(s)
        return [s.n >= 1, prefix_def(s.V1, s.n, s.wf), prefix_def(s.V2, s.n, lambda i: s.wf(i) * s.wf(i)),
                prefix_def(s.WX, s.n, lambda i: s.xf(i) * s.wf(i)),
                prefix_def(s.NUM, s.n, lambda i: s.wf(i) * ((s.xf(i) - xbar) * (s.xf(i) - xbar))),
                s.V1(s.n) != 0, s.V1(s.n) - s.V2(s.n) / s.V1(s.n) != 0]

    def hooks(self, s):
        xbar = self._xbar(s)
        return {('np.sum', 0): lambda vc, rec: sum_is(vc, rec, s.n, s.wf, s.V1, 'V1 = sum w'),
                ('np.sum', 1): lambda vc, rec: sum_is(vc, rec, s.n, lambda i: s.wf(i) * s.wf(i), s.V2, 'V2 = sum w^2'),
                ('np.sum', 2): lambda vc, rec: sum_is(vc, rec, s.n, lambda i: s.xf(i) * s.wf(i), s.WX, 'weighted mean numerator'),
                ('np.sum', 3): lambda vc, rec: sum_is(vc, rec, s.n, s.wf, s.V1, 'weighted mean denominator'),
                ('np.sum', 4): lambda vc, rec: sum_is(vc, rec, s.n, lambda i: s.wf(i) * ((s.xf(i) - xbar) * (s.xf(i) - xbar)), s.NUM, 'sum w (x - xbar)^2')}

    def ensures(self, s, result):
        return [('s2 = sum w (x - xbar)^2 / (V1 - V2/V1), xbar the weighted mean', T(result) == s.NUM(s.n) / (s.V1(s.n) - s.V2(s.n) / s.V1(s.n)))]



# ---------------------------------------------------------------- GMDistribution
N1 = z3.Function('N1', R, R, R)             # scipy multivariate_normal.pdf(x, mean=m, cov) for scalar points (cov fixed per VC): uninterpreted, pure
N2 = z3.Function('N2', R, R, R, R, R)       # the same for 2-column points
PRIOR1 = z3.Function('prior_logpdf1', R, R)
PRIOR2 = z3.Function('prior_logpdf2', R, R, R)


class _MVN:
    """scipy.stats.multivariate_normal: pure functions of their arguments (assumed), row-wise on 2-D input"""

    def __init__(self, dim):
        self.dim = dim

    def pdf(self, x, mean=None, cov=1):
        vc = cur()
        xs = x.snapshot()
        vc.libcall('mvn.pdf', dict(x=xs, mean=mean, cov=cov))
        if self.dim == 1:
            m = T(mean)
            return SArr(Cell(lambda r: N1(xs.at(r), m), (xs.shape[0],), 'real'))
        m = mean.snapshot()
        vc.oblige('call-pre[mvn.pdf: point and mean have the same width]', z3.And(xs.shape[1] == 2, m.shape[0] == 2))
        return SArr(Cell(lambda r: N2(xs.at(r, 0), xs.at(r, 1), m.at(0), m.at(1)), (xs.shape[0],), 'real'))

    def rvs(self, mean=None, cov=1, random_state=None, size=None):
        vc = cur()
        n = T(size)
        vc.oblige('call-pre[mvn.rvs: size >= 0]', n >= 0)
        if self.dim == 1:
            return SArr.fresh('perturb', (n,), 'real')          # scipy squeezes size-1 results to a scalar: broadcasts identically
        return SArr.fresh('perturb', (n, 2), 'real')


class _SS:
    def __init__(self, dim):
        self.multivariate_normal = _MVN(dim)


class _Cls:
    """the class object `cls` of the classmethods: callees under contract are stubs; class-level constants are read
    from the real class body in the tree"""

    def __init__(self, **kw):
        from pyvc.instrument import class_constants
        self.__dict__.update(class_constants('elfi/methods/utils.py::GMDistribution', cur().repo))
        self.__dict__.update(kw)


class GMPdf(Contract):
    target = 'elfi/methods/utils.py::GMDistribution.pdf'
    prop = 'C13'
    fin = 4

    def __init__(self, dim, xrank):
        self.dim, self.xrank = dim, xrank       # dim 1: means (K,), points scalar/1-D;  dim 2: means (K,2), points (2,)/(n,2)
        self.label = 'dim%d-x%dd' % (dim, xrank)

    def setup(self, vc):
        K, n = z3.Ints('K n')
        vc.fin_bounds.extend([K, n])
        what_f, what = arr('what', K)
        s = NS(K=K, n=n, what_f=what_f, what=what, dim=self.dim, xrank=self.xrank)
        if self.dim == 1:
            s.means = SArr.fresh('means', (K,), 'real')
            if self.xrank == 0:
                s.x = SReal(z3.Real('x0'))
                s.nrows = z3.IntVal(1)
                s.xrow = lambda r: (z3.Real('x0'),)
            else:
                s.x = SArr.fresh('x', (n,), 'real')
                s.nrows = n
                s.xrow = lambda r, x=s.x.snapshot(): (x.at(r),)
        else:
            s.means = SArr.fresh('means', (K, 2), 'real')
            if self.xrank == 1:
                s.x = SArr.fresh('x', (2,), 'real')
                s.nrows = z3.IntVal(1)
                s.xrow = lambda r, x=s.x.snapshot(): (x.at(0), x.at(1))
            else:
                s.x = SArr.fresh('x', (n, 2), 'real')
                s.nrows = n
                s.xrow = lambda r, x=s.x.snapshot(): (x.at(r, 0), x.at(r, 1))
        ms = s.means.snapshot()
        s.comp = (lambda r, k: N1(s.xrow(r)[0], ms.at(k))) if self.dim == 1 else (lambda r, k: N2(s.xrow(r)[0], s.xrow(r)[1], ms.at(k, 0), ms.at(k, 1)))
        # definitional mixture sum  MIX(k, r) = sum_{t<k} what[t] * N(x_r; means_t, cov)
        s.MIX = z3.Function('MIX', I, I, R)
        s.weights_arg = SArr.fresh('weights', (K,), 'real')
        vc._s = s
        return s, (_Cls(_normalize_params=self._np_stub(s)), s.x, s.means), dict(cov=SReal(z3.Real('cov')), weights=s.weights_arg)

    def _np_stub(self, s):
        def stub(means, weights):
            cur().oblige('call-pre[_normalize_params receives the caller\'s means and weights]', z3.BoolVal(means is s.means and weights is s.weights_arg))
            return s.means, s.what            # contract of _normalize_params: (squeezed means, normalised weights)
        return stub

    def env(self, vc):
        return dict(ss=_SS(self.dim))

    def requires(self, s):
        return [s.K >= 1, s.n >= 1,
                forall_range(0, s.nrows, lambda r: z3.And(s.MIX(0, r) == 0, forall_range(0, s.K, lambda k: s.MIX(k + 1, r) == s.MIX(k, r) + s.what_f(k) * s.comp(r, k), 'k')), 'r')]

    loops = {0: Loop(inv=lambda s, l: [('d[r] = partial mixture sum over the components visited so far',
                                        z3.And(l.d.shape[0] == s.nrows, forall_range(0, s.nrows, lambda r: l.d.at(r) == s.MIX(l.it.index, r), 'r')))],
                     modifies=lambda s, l: [l.d])}

    def ensures(self, s, result):
        if (self.dim, self.xrank) in ((1, 0), (2, 1)):
            if not (isinstance(result, SArr) and result.ndim == 0):
                return [('scalar-shaped answer for a single point', z3.BoolVal(False))]
            return [('density = weighted sum of the component densities', result.at() == s.MIX(s.K, 0))]
        if not (isinstance(result, SArr) and result.ndim == 1):
            return [('one value per point (1-D answer)', z3.BoolVal(False))]
        return [('one value per point', result.shape[0] == s.n),
                ('density = weighted sum of the component densities', forall_range(0, s.n, lambda r: result.at(r) == s.MIX(s.K, r), 'r'))]


class GMLogPdf(Contract):
    target = 'elfi/methods/utils.py::GMDistribution.logpdf'
    prop = 'C13'
    fin = 4

    def setup(self, vc):
        n = z3.Int('n')
        vc.fin_bounds.append(n)
        s = NS(n=n, pdfv=SArr.fresh('pdfv', (n,), 'real'), x=SArr.fresh('x', (n,), 'real'), means=SArr.fresh('means', (z3.Int('K'),), 'real'),
               w=SArr.fresh('w', (z3.Int('K'),), 'real'), cov=SReal(z3.Real('cov')))

        def pdf(x, means=None, cov=None, weights=None):
            cur().oblige('call-pre[pdf receives the caller\'s arguments unchanged]', z3.BoolVal(x is s.x and means is s.means and cov is s.cov and weights is s.w))
            return s.pdfv
        return s, (_Cls(pdf=pdf), s.x, s.means), dict(cov=s.cov, weights=s.w)

    def requires(self, s):
        return [s.n >= 0]

    def ensures(self, s, result):
        from pyvc import npspec
        return [('logpdf = log(pdf), elementwise', z3.And(result.shape[0] == s.n, forall_range(0, s.n, lambda r: result.at(r) == npspec._log(s.pdfv.at(r)), 'r')))]


class _RS:
    """numpy RandomState (only what rvs uses): choice returns indices in range"""

    def __bool__(self):
        return True

    def choice(self, a, size=None, p=None):
        vc = cur()
        n, K = T(size), T(a)
        vc.oblige('call-pre[choice: size >= 0, a >= 1]', z3.And(n >= 0, K >= 1))
        out = SArr.fresh('inds', (n,), 'int')
        vc.assume(forall_range(0, n, lambda i: z3.And(out.at(i) >= 0, out.at(i) < K), 'i'))
        return out


class GMRvs(Contract):
    target = 'elfi/methods/utils.py::GMDistribution.rvs'
    prop = 'C13'
    fin = 4

    def __init__(self, dim, constrained, size_none=False):
        self.dim, self.constrained, self.size_none = dim, constrained, size_none
        self.label = 'dim%d-%s%s' % (dim, 'constrained' if constrained else 'free', '-size-none' if size_none else '')

    def setup(self, vc):
        K, size = z3.Ints('K size')
        vc.fin_bounds.extend([K, size])
        means = SArr.fresh('means', (K,) if self.dim == 1 else (K, 2), 'real')
        what = SArr.fresh('what', (K,), 'real')
        s = NS(K=K, size=size, means=means, what=what, dim=self.dim)
        s.weights_arg = SArr.fresh('weights', (K,), 'real')

        def np_stub(m, w):
            cur().oblige('call-pre[_normalize_params receives the caller\'s means and weights]', z3.BoolVal(m is means and w is s.weights_arg))
            return means, what
        prior = None
        if self.constrained:
            def prior(x):
                xs = x.snapshot()
                if self.dim == 1:
                    return SArr(Cell(lambda r: PRIOR1(xs.at(r)), (xs.shape[0],), 'real'))
                return SArr(Cell(lambda r: PRIOR2(xs.at(r, 0), xs.at(r, 1)), (xs.shape[0],), 'real'))
        s.prior = prior
        kw = dict(cov=SReal(z3.Real('cov')), weights=s.weights_arg, size=None if self.size_none else SInt(size), prior_logpdf=prior, random_state=_RS())
        return s, (_Cls(_normalize_params=np_stub), means), kw

    def env(self, vc):
        return dict(ss=_SS(self.dim))

    def requires(self, s):
        return [s.K >= 1] + ([s.size == 1] if self.size_none else [s.size >= 0])

    def _valid_row(self, s, a, r):
        from pyvc.npspec import INF
        if not self.constrained:
            return z3.BoolVal(True)
        v = PRIOR1(a.at(r)) if self.dim == 1 else PRIOR2(a.at(r, 0), a.at(r, 1))
        return z3.And(v != INF, v != -INF)

    def _inv(self, s, l):
        na, nl = T(l.n_accepted), T(l.n_left)
        return [('counters', z3.And(0 <= na, na <= s.size, nl == s.size - na, T(l.size) == s.size, l.output.shape[0] == s.size)),
                ('accepted rows satisfy the constraint', forall_range(0, na, lambda r: self._valid_row(s, l.output, r), 'r'))]

    @property
    def loops(self):
        return {0: Loop(inv=self._inv, modifies=lambda s, l: [l.output])}

    def ensures(self, s, result):
        if self.size_none:
            if self.dim == 1:
                from pyvc.npspec import INF
                ok = z3.BoolVal(True) if not self.constrained else z3.And(PRIOR1(T(result)) != INF, PRIOR1(T(result)) != -INF)
                return [('one unwrapped sample satisfying the constraint', ok)]
            return [('one unwrapped sample satisfying the constraint', z3.BoolVal(True) if not self.constrained else
                     z3.And(PRIOR2(result.at(0), result.at(1)) != z3.Real('INF'), PRIOR2(result.at(0), result.at(1)) != -z3.Real('INF')))]
        return [('exactly the requested number of points', result.shape[0] == s.size),
                ('every returned point satisfies the constraint', forall_range(0, s.size, lambda r: self._valid_row(s, result, r), 'r'))]


class NormalizeParams(Contract):
    target = 'elfi/methods/utils.py::GMDistribution._normalize_params'
    prop = 'C13'
    fin = 4

    def __init__(self, weights):
        self.weights = weights
        self.label = 'weights-' + weights

    def setup(self, vc):
        K = z3.Int('K')
        vc.fin_bounds.append(K)
        wf, w = arr('w', K)
        if self.weights == 'none':
            wf = lambda i: z3.RealVal(1)
        s = NS(K=K, n=K, wf=wf, w=w if self.weights == 'given' else None, SW=z3.Function('SW', I, R), means=SArr.fresh('means', (K,), 'real'))
        vc._s = s
        return s, (s.means, s.w), {}

    def env(self, vc):
        s = vc._s
        return dict(normalize_weights=normalize_weights_stub(s.K, s.wf, s.SW))

    def requires(self, s):
        return [s.K >= 2, forall_range(0, s.K, lambda i: s.wf(i) >= 0, 'i'), prefix_def(s.SW, s.K, s.wf), s.SW(s.K) != 0]

    def ensures(self, s, result):
        m, w = result
        return [('means unchanged (1-D, length K >= 2)', z3.And(z3.BoolVal(m.ndim == 1), m.shape[0] == s.K, forall_range(0, s.K, lambda i: m.at(i) == s.means.at(i), 'i'))),
                ('weights normalised (equal weights by default)', z3.And(w.shape[0] == s.K, forall_range(0, s.K, lambda i: w.at(i) == s.wf(i) / s.SW(s.K), 'i')))]



# ---------------------------------------------------------------- two-call lemmas over the quantile contract
class LemmaQuantileMonotone(Contract):
    """monotone in alpha: crossing indices of alpha1 <= alpha2 over one sorted sample give q1 <= q2"""
    target = '@verif/lemmas/c13_lemmas.py::lemma_quantile_monotone'
    prop = 'C13'
    fin = 5

    def setup(self, vc):
        n, k1, k2 = z3.Ints('n k1 k2')
        a1, a2 = z3.Reals('alpha1 alpha2')
        y, v, cum = [z3.Function(x, I, R) for x in ('y', 'v', 'cum')]
        vc.fin_bounds.extend([n, k1, k2])
        s = NS(n=n, k1=k1, k2=k2, a1=a1, a2=a2, y=y, v=v, cum=cum)
        vc._s = s
        return s, (SInt(n), SInt(k1), SInt(k2)), {}

    def env(self, vc):
        s = vc._s

        def use_monotone(a, b):
            vc.assume(use(stmt_monotone_cum(s.n, T(a), T(b), s.v, s.cum)))       # LemmaMonotoneCum (conditional on 0 <= a <= b <= n)

        def use_sorted(i, j):
            vc.assume(z3.Implies(z3.And(0 <= T(i), T(i) <= T(j), T(j) < s.n), s.y(T(i)) <= s.y(T(j))))   # instance of the sortedness hypothesis
        return dict(use_monotone=use_monotone, use_sorted=use_sorted)

    def requires(self, s):
        from pyvc.core import forall2_range
        return [s.n >= 1, 0 <= s.k1, s.k1 < s.n, 0 <= s.k2, s.k2 < s.n, s.a1 <= s.a2,
                forall2_range(0, s.n, lambda i, j: z3.Implies(i <= j, s.y(i) <= s.y(j))),
                forall_range(0, s.n, lambda i: s.v(i) >= 0, 'i'), prefix_def(s.cum, s.n, s.v),
                s.cum(s.k1) < s.a1, s.a1 <= s.cum(s.k1 + 1), s.cum(s.k2) < s.a2, s.a2 <= s.cum(s.k2 + 1)]

    def ensures(self, s, result):
        return [('q(alpha1) <= q(alpha2)', s.y(s.k1) <= s.y(s.k2))]


class LemmaScaleInvariance(Contract):
    """the normalised weights (all the quantile code uses of `weights`) are invariant under w -> c*w, c > 0"""
    target = '@verif/lemmas/c13_lemmas.py::lemma_scale_invariance'
    prop = 'C13'
    fin = 5

    def setup(self, vc):
        n, i = z3.Ints('n i')
        c = z3.Real('c')
        w, SW, SC = [z3.Function(x, I, R) for x in ('w', 'SW', 'SC')]
        vc.fin_bounds.extend([n, i])
        s = NS(n=n, i=i, c=c, w=w, SW=SW, SC=SC)
        vc._s = s
        return s, (SInt(n), SInt(i)), {}

    def env(self, vc):
        s = vc._s

        def use_scale():
            vc.assume(use(stmt_scale_sum(s.n, s.w, 1 / s.c, s.SW, s.SC)))       # LemmaScaleSum with divisor 1/c
        return dict(use_scale=use_scale)

    def requires(self, s):
        return [s.n >= 1, 0 <= s.i, s.i < s.n, s.c > 0, prefix_def(s.SW, s.n, s.w), prefix_def(s.SC, s.n, lambda j: s.w(j) / (1 / s.c)), s.SW(s.n) > 0]

    def ensures(self, s, result):
        return [('(c*w[i]) / sum(c*w) = w[i] / sum(w)', (s.w(s.i) / (1 / s.c)) / s.SC(s.n) == s.w(s.i) / s.SW(s.n))]


CONTRACTS = [Quantile('given'), Quantile('none'), NormalizeWeights(), ComputeEss(), WeightedVar('given'), WeightedVar('none'),
             NormalizeParams('given'), NormalizeParams('none'),
             GMPdf(1, 0), GMPdf(1, 1), GMPdf(2, 1), GMPdf(2, 2), GMLogPdf(),
             GMRvs(1, True), GMRvs(1, False), GMRvs(2, True), GMRvs(1, True, size_none=True),
             LemmaLePrefix(), LemmaLtPrefix(), LemmaScaleSum(), LemmaMonotoneCum(), LemmaSumExt(), LemmaSqPositive(), LemmaSumNonneg(), LemmaSumZero(),
             LemmaQuantileMonotone(), LemmaScaleInvariance()]
TRUSTED_BASE = ['pyvc engine: proxies, loop cutting, numpy spec table (sum/cumsum/dot/average = mathematical finite sum by prefix recursion; argsort = a sorting permutation, nothing about ties; mask select / where = order-preserving bijection)',
                'L2a permutation invariance of a finite sum (Mathlib Equiv.sum_comp; Lean file lemmas/L2.lean, transcription to SMT by hand)',
                'L3 discrete intermediate value (Lean file lemmas/L1.lean discrete_ivt, transcription by hand)',
                'scipy.stats.multivariate_normal.pdf/rvs: pure functions of their arguments acting row-wise (uninterpreted)',
                'numpy RandomState.choice(K, size=n, p) returns n indices in [0, K)']
ASSUMPTIONS = ['A-REAL: floats are reals (cum_weights[-1] = 1.0 in the code exists because they are not; the real-number proof shows it is a no-op)',
               'A-INT: integers are mathematical', 'no NaN in samples or weights',
               'GMDistribution.rvs: proved for scalar samples and 2-column samples; partial correctness only (the retry loop need not terminate for an empty support)',
               'weighted_var: proved for a 1-D sample (the 2-D case applies the same code column-wise through numpy broadcasting; bounded only)']
NOT_PROVED = ['invariant to rescaling the weights: proved that the normalised weights - the only way the code uses `weights` - are invariant (LemmaScaleInvariance); '
              'that equal normalised weights give the identical element relies on numpy being deterministic (assumed)',
              'monotone in alpha: proved for one fixed sorting permutation (LemmaQuantileMonotone); numpy.argsort being a function of its input is assumed']


def sanity():
    import numpy as np
    out = []
    x = np.array([3.0, 1.0, 2.0, 1.0])
    o = np.argsort(x)
    out.append(('argsort is a sorting permutation', sorted(o.tolist()) == [0, 1, 2, 3] and bool(np.all(np.diff(x[o]) >= 0))))
    out.append(('insert(cumsum) prepends', np.insert(np.cumsum([1.0, 2.0]), 0, 0).tolist() == [0.0, 1.0, 3.0]))
    m = np.array([False, True, False, True])
    out.append(('where(mask)[0] lists the True indices increasingly', np.where(m)[0].tolist() == [1, 3] and x[m].tolist() == [1.0, 1.0]))
    out.append(('average with weights', abs(np.average(np.array([1.0, 3.0]), weights=np.array([1.0, 3.0]), axis=0) - 2.5) < 1e-12))
    out.append(('dot = sum of products', np.array([1.0, 2.0]).dot(np.array([3.0, 4.0])) == 11.0))
    out.append(('choice stays in range', bool(np.all(np.random.RandomState(0).choice(3, size=50, p=[.2, .3, .5]) < 3))))
    return out


def bounded(tier, seed):
    from bounded import c13 as b
    return b.run(tier, seed)


_FAMILY = {'weighted_sample_quantile': 'quantile', 'weighted_var': 'moments', 'compute_ess': 'moments', 'normalize_weights': 'moments',
           'GMDistribution': 'mixture'}
_replay_cache = {}


def replay_refuted(cname, rf):
    from bounded import c13 as b
    fam = next((v for k, v in _FAMILY.items() if cname.startswith(k)), None)
    if fam is None:
        return dict(found=False, note='lemma obligation: no native input')
    if fam not in _replay_cache:
        res = b.run('thorough', 0, stop_first=True, which=(fam,))
        fails = [f for r in res for f in r['failures']]
        _replay_cache[fam] = dict(found=True, input=fails[0]['input'], observed=fails[0]['what']) if fails else dict(found=False, searched=[r['bound'] for r in res])
    return _replay_cache[fam]


def replay_input(inp):
    from bounded import c13 as b
    return b.replay_input(inp)


USES_LEAN_LEMMAS = ['L2a permutation invariance of a finite sum', 'L3 discrete intermediate value']      # re-checked with lean (selftest/lean_check.sh, lemmas/SmtForms.lean) in the thorough tier
