"""C14 - Editing, copying and saving a model preserves its structure and meaning.

Functions under contract (real bodies, read from the tree at run time and executed over the symbolic networkx /
dict-heap proxies of pyvc.nxspec): GraphicalModel.add_node / add_edge / get_parents / remove_node / update_node / copy,
ElfiModel.remove_node / update_node / parameter_names (getter, setter) / copy, NodeReference.become.
One-line helpers they call (has_node, get_state, nodes, observed / name properties) are INLINED: their real bodies are
located and run the same way.  Calls of a method that has its own contract go through that contract (assumed post,
havoc of the graph and heap); `self.m(...)` is resolved against the ANALYSED class with the method table read from
the tree (virtual dispatch), `super(ElfiModel, self).m` and `GraphicalModel.m(self, ...)` against the base class.

View of a model (spec side, independent of the code):
  nodes  node(n)                     edges  edge(u, v) with param(u, v)
  state  stateref(n) = the dict held under 'attr_dict' in the node's data dict; its contents
  observed  the dict held under 'observed' in the graph dict, keyed by node names
model_ok := edges join nodes, positional params of each child pairwise distinct (NOT contiguous), observed keys are nodes,
            [no isolated private node], [acyclic: witnessed by a ghost rank function].
"""
MANIFEST = {
    'category': 'proof',
    'text': 'The real bodies of GraphicalModel.add_node/add_edge/get_parents/remove_node/update_node/copy, ElfiModel.remove_node/'
            'update_node/parameter_names (getter and setter)/copy and NodeReference.become are executed over a symbolic networkx DiGraph '
            '(uninterpreted node sort, edge/param relations, per-node data-dict references on an explicit dict heap) and every '
            'clause of the property that speaks about structure (children kept, state/parents/observed data handed over, private '
            'constants and observed data removed with their node, frame, parameter names sorted and exact, distinct positional params, '
            'acyclicity by an explicit rank witness, copy = equal view on disjoint mutable locations) is an SMT obligation for all graphs; '
            'loops over node/edge sets are cut at visited-set invariants (iteration-order independent), the recursion of remove_node '
            'uses its own contract with virtual dispatch resolved from the tree. Equality of seeded generate() between a model and '
            'its copy / reloaded pickle and whole edit histories are covered by the labelled bounded stand-in (enumerated edit '
            'sequences on the real classes), which is also the replay vehicle.',
    'note': 'Trusted: pyvc engine, pyvc.nxspec (networkx DiGraph / dict / set / list model, sanity-tested on the installed networkx every run), '
            'python str order is a strict total order, A-LOG. Termination of remove_node is not proved. generate()/pickle equality is bounded only.',
    'technique': 'deductive: SMT VCs from the real AST over a symbolic graph + dict heap (pyvc, z3/cvc5), set-iteration invariants, modular '
                 'recursion; bounded stand-in: edit sequences <= 5 (quick) / 6 (thorough) steps with copy and save/load',
}

import ast
import operator

import z3

from pyvc import instrument, nxspec, pyspec
from pyvc.core import cur, OutOfSubset, program_exception
from pyvc.engine import Contract, Loop, NS, Runtime
from pyvc.nxspec import SDiGraph, SDict, SVal, SNodeName, SNodeSet, SList, SParam, Heap, theory
from pyvc.values import SInt, SBool, Sym

GMF = 'elfi/model/graphical_model.py'
EMF = 'elfi/model/elfi_model.py'
CLASS_FILE = {'GraphicalModel': GMF, 'ElfiModel': EMF, 'NodeReference': EMF, 'InstructionsMapper': EMF}


# ====================================================================== class table read from the tree
def class_node(cls):
    src, tree = instrument._parse(CLASS_FILE[cls])
    for n in tree.body:
        if isinstance(n, ast.ClassDef) and n.name == cls:
            return n
    raise OutOfSubset('class %s not found' % cls)


def mro(cls):
    out = [cls]
    while True:
        bases = [b.id for b in class_node(out[-1]).bases if isinstance(b, ast.Name)]
        if not bases:
            return out
        if len(bases) != 1 or bases[0] not in CLASS_FILE:
            raise OutOfSubset('class %s has bases %s' % (out[-1], bases))
        out.append(bases[0])


def defs_of(cls, name):
    """definitions of `name` in the class body, in source order -> list of (ordinal, is_property_getter, is_setter)"""
    out = []
    for n in class_node(cls).body:
        if isinstance(n, ast.FunctionDef) and n.name == name:
            decs = [ast.unparse(d) for d in n.decorator_list]
            out.append((len(out), 'property' in decs, any(d.endswith('.setter') for d in decs)))
    return out


def resolve(cls, name, skip_until=None):
    """defining class of attribute `name` for an object of class `cls` (search starts AFTER `skip_until` for super())"""
    chain = mro(cls)
    if skip_until is not None:
        chain = chain[chain.index(skip_until) + 1:]
    for c in chain:
        if defs_of(c, name):
            return c
    return None


# ====================================================================== execution context shared by the proxies of one path
class Ctx:
    def __init__(self, vc, nodes=4, refs=16):
        self.vc = vc
        self.th = theory(vc, nodes=nodes, refs=refs)
        self.H = Heap(self.th)
        self.th.default_heap = self.H
        self.stubs = {}         # (defining class, method name) -> spec(model, *args, **kw)
        self.calls = {}         # method name -> [(args, result)] of the stub calls made on this path
        self.ranks = []         # ghost rank functions (Node -> Int) the callee contracts are instantiated with
        self._real = {}
        self.rt = Runtime(vc, None, None)

    def env(self):
        return {'nx': nxspec.module(), 'networkx': nxspec.module(), 'itemgetter': operator.itemgetter,
                'super': lambda cls, obj: obj._vc_super_of(cls), 'GraphicalModel': ClassProxy(self, 'GraphicalModel'),
                'ElfiModel': ClassProxy(self, 'ElfiModel'), 'random_name': lambda *a, **k: _Opaque('random_name'), 'dict': vc_dict,
                'NodeReference': _Opaque('NodeReference')}

    def real(self, cls, name, ordinal=None):
        """the instrumented REAL function cls.name (inlined callee)"""
        key = (cls, name, ordinal)
        if key not in self._real:
            target = '%s::%s.%s%s' % (CLASS_FILE[cls], cls, name, '' if ordinal is None else '#%d' % ordinal)
            loc = instrument.locate(target)
            code, stats, text = instrument.instrument(loc, ())
            g = pyspec.make_globals()
            g.update(self.env())
            g['__vc__'] = self.rt
            exec(code, g)
            self._real[key] = g[loc.node.name]
        return self._real[key]

    def record(self, name, args, result):
        self.calls.setdefault(name, []).append((args, result))
        return result


def vc_dict(x=None, **kw):
    """dict(d): a NEW dict with the same (key, value reference) pairs"""
    if kw:
        raise OutOfSubset('dict(**kw)')
    if x is None:
        return {}
    if isinstance(x, SVal):
        x = x._d('dict()')
    if isinstance(x, SDict):
        return x.copy()
    if isinstance(x, Sym):
        raise OutOfSubset('dict(%s)' % type(x).__name__)
    return dict(x)


vc_dict._vc_models = dict


class _Opaque:
    def __init__(self, what):
        self.what = what

    def __format__(self, spec):
        return '<%s>' % self.what

    def __repr__(self):
        return '<%s>' % self.what


def _lookup(ctx, obj, cls, name, skip_until=None):
    """attribute `name` of a model object of class `cls`: a stub (callee under contract) or the inlined real code"""
    d = resolve(cls, name, skip_until)
    if d is None:
        raise OutOfSubset('%s has no attribute %s in the tree' % (cls, name))
    ds = defs_of(d, name)
    if ds[0][1]:                                        # property: run the getter
        if (d, name) in ctx.stubs:
            return ctx.stubs[(d, name)](obj)
        return ctx.real(d, name, 0)(obj)
    if (d, name) in ctx.stubs:
        spec = ctx.stubs[(d, name)]
        return lambda *a, **k: spec(obj, *a, **k)
    fn = ctx.real(d, name)
    return lambda *a, **k: fn(obj, *a, **k)


class ModelProxy:
    """`self` of a GraphicalModel / ElfiModel method: one real attribute (source_net), everything else resolved from the tree"""

    def __init__(self, ctx, cls, G=None):
        object.__setattr__(self, '_ctx', ctx)
        object.__setattr__(self, '_cls', cls)
        if G is not None:
            object.__setattr__(self, 'source_net', G)

    def __getattr__(self, name):
        if name.startswith('_vc_') or name.startswith('__'):
            raise AttributeError(name)
        return _lookup(self._ctx, self, self._cls, name)

    def __setattr__(self, name, value):
        if name == 'source_net':
            return object.__setattr__(self, name, value)
        d = resolve(self._cls, name)
        if d is None:
            return object.__setattr__(self, name, value)
        ds = defs_of(d, name)
        setters = [o for o, _, is_set in ds if is_set]
        if not setters:
            raise program_exception(AttributeError("property '%s' has no setter" % name))
        if (d, name + '.setter') in self._ctx.stubs:
            return self._ctx.stubs[(d, name + '.setter')](self, value)
        return self._ctx.real(d, name, setters[0])(self, value)

    @property
    def __class__(self):
        return ClassProxy(self._ctx, self._cls)

    def _vc_super_of(self, clsproxy):
        sp = object.__new__(_Super)
        sp.__dict__.update(obj=self, after=clsproxy.cls)
        return sp

    def _vc_super(self):
        raise OutOfSubset('zero-argument super() on a model proxy')

    def _vc_is(self, other):
        return self is other

    def __getitem__(self, name):
        return _lookup(self._ctx, self, self._cls, '__getitem__')(name)


class _Super:
    """super(Cls, obj): attribute lookup starts after Cls in the MRO read from the tree.  Built with _mk_super (its own
    __init__ is the ANALYSED code's `super().__init__(...)` call)."""

    def __init__(self, *a, **k):
        o = self.obj
        return _lookup(o._ctx, o, o._cls, '__init__', skip_until=self.after)(*a, **k)

    def __getattr__(self, name):
        o = self.obj
        return _lookup(o._ctx, o, o._cls, name, skip_until=self.after)


class ClassProxy:
    """the class object: `Cls.m(self, ...)` is a NON-virtual call; `Cls()` constructs (contract of __init__ with defaults)"""

    def __init__(self, ctx, cls):
        self.ctx, self.cls = ctx, cls

    def __getattr__(self, name):
        if name.startswith('_vc_') or name.startswith('__'):
            raise AttributeError(name)
        ctx, cls = self.ctx, self.cls

        def unbound(obj, *a, **k):
            d = resolve(cls, name)
            if d is None:
                raise OutOfSubset('%s.%s' % (cls, name))
            if (d, name) in ctx.stubs:
                return ctx.stubs[(d, name)](obj, *a, **k)
            return ctx.real(d, name)(obj, *a, **k)
        return unbound

    def __call__(self, *a, **k):
        """Cls(): the REAL __init__ chain is run on a blank proxy (inlined)"""
        m = ModelProxy(self.ctx, self.cls)
        d = resolve(self.cls, '__init__')
        self.ctx.real(d, '__init__')(m, *a, **k)
        return m


# ====================================================================== spec functions over frozen states (independent of the code)
def LIT(th, s):
    return th.klit(s)


def obsref(th, g, h):
    """Ref of the observed-data dict of the model whose graph state is g, in heap state h"""
    return th.Val.ref_of(h.val(g.gref, th.klit('observed')))


def has_obs(th, g, h, n):
    return h.has(obsref(th, g, h), th.knode(n))


def obs_val(th, g, h, n):
    return h.val(obsref(th, g, h), th.knode(n))


def stateref(th, g, h, n):
    return th.Val.ref_of(h.val(g.nattr(n), th.klit('attr_dict')))


def graph_wf(th, g, h):
    """representation invariant of the networkx graph and its footprint (see SDiGraph.wf)"""
    return z3.And(th.forall_nodes(lambda u, v: z3.Implies(g.edge(u, v), z3.And(g.node(u), g.node(v))), 2),
                  th.forall_nodes(lambda u, v: z3.Implies(z3.And(g.node(u), g.node(v), u != v), g.nattr(u) != g.nattr(v)), 2),
                  th.forall_nodes(lambda u: z3.Implies(g.node(u), z3.And(h.alloc(g.nattr(u)), g.nattr(u) != g.gref))),
                  h.alloc(g.gref))


def edges_have_param(th, g):
    """every edge carries a 'param' (GraphicalModel.add_edge is the only writer of edges and always passes one)"""
    return th.forall_nodes(lambda u, v: z3.Implies(g.edge(u, v), z3.Not(th.Param.is_pabsent(g.param(u, v)))), 2)


def elfi_rep(th, g, h, elfi=True):
    """how an ElfiModel sits on the heap: graph['observed'] is a dict; every node's data dict holds its state dict under
    'attr_dict'; the state dicts of distinct nodes are distinct, and all these dicts are pairwise different objects"""
    V, A = th.Val, th.klit('attr_dict')
    o = obsref(th, g, h)
    sr = lambda n: stateref(th, g, h, n)
    facts = [th.forall_nodes(lambda n: z3.Implies(g.node(n), z3.And(h.has(g.nattr(n), A), V.is_vref(h.val(g.nattr(n), A)), h.alloc(sr(n)),
                                                                   sr(n) != g.gref))),
             th.forall_nodes(lambda a, b: z3.Implies(z3.And(g.node(a), g.node(b)), z3.And(sr(a) != g.nattr(b), z3.Implies(a != b, sr(a) != sr(b)))), 2)]
    if elfi:
        O = th.klit('observed')
        facts += [h.has(g.gref, O), V.is_vref(h.val(g.gref, O)), h.alloc(o), o != g.gref,
                  th.forall_nodes(lambda n: z3.Implies(g.node(n), z3.And(o != g.nattr(n), o != sr(n))))]
    return z3.And(facts)


def params_distinct(th, g):
    """model_ok: the positional params of each child are pairwise distinct"""
    return th.forall_nodes(lambda p, q, c: z3.Implies(z3.And(g.pos(p, c), g.pos(q, c), p != q), g.param(p, c) != g.param(q, c)), 3)


def observed_on_nodes(th, g, h):
    return th.forall_nodes(lambda n: z3.Implies(has_obs(th, g, h, n), g.node(n)))


def nbr(g, x, y):
    return z3.Or(g.edge(x, y), g.edge(y, x))


def no_isolated_private(th, g):
    return th.forall_nodes(lambda x: z3.Implies(z3.And(g.node(x), th.private(x)), th.exists_nodes(lambda y: nbr(g, x, y))))


def private_are_sources(th, g):
    """private nodes are constants: they have no parents and feed their children through positional params"""
    return th.forall_nodes(lambda x, y: z3.And(z3.Implies(g.edge(y, x), z3.Not(th.private(x))),
                                               z3.Implies(z3.And(th.private(x), g.edge(x, y)), th.Param.is_ppos(g.param(x, y)))), 2)


def acyclic_by(th, g, rank):
    """rank strictly increases along every edge (=> no cycle)"""
    return th.forall_nodes(lambda u, v: z3.Implies(g.edge(u, v), rank(u) < rank(v)), 2)


def heap_same_except(th, h0, h1, changed):
    """every dict slot (r, k) is untouched unless changed(r, k); allocation unchanged"""
    return z3.And(th.forall_ref_key(lambda r, k: z3.Implies(z3.Not(changed(r, k)), z3.And(h1.has(r, k) == h0.has(r, k), h1.val(r, k) == h0.val(r, k)))),
                  th.forall_refs(lambda r: h1.alloc(r) == h0.alloc(r)))


# ====================================================================== contracts
class C14Contract(Contract):
    prop = 'C14'
    fin = 4
    nodes, refs = 4, 16            # finitised universe sizes
    cls = 'ElfiModel'              # class of `self`
    elfi = True

    def env(self, vc):
        return self._ctx.env()

    def base_setup(self, vc, graph=True):
        ctx = self._ctx = Ctx(vc, self.nodes, self.refs)
        th = ctx.th
        vc.axioms = th.name_order_axioms() if getattr(self, 'needs_order', False) else []
        G = SDiGraph(ctx.H, 'G', 'sym')
        m = ModelProxy(ctx, self.cls, G)
        s = NS(ctx=ctx, th=th, H=ctx.H, G=G, m=m)
        s.g0, s.h0 = G.snap(), ctx.H.snap()
        return s

    def name(self, s, nm):
        return SNodeName(z3.Const(nm, s.th.Node))

    def base_requires(self, s):
        r = [('networkx representation invariant', graph_wf(s.th, s.g0, s.h0))]
        if self.elfi:
            r.append(('ElfiModel representation', elfi_rep(s.th, s.g0, s.h0, self.cls == 'ElfiModel')))
        return r

    def witness(self, vc, model, ob):
        return dict(note='counter-model is a graph over the finitised node universe; replay by the bounded edit-sequence harness')


# ---------------------------------------------------------------------- add_node
class AddNode(C14Contract):
    target = GMF + '::GraphicalModel.add_node'

    def setup(self, vc):
        s = self.base_setup(vc)
        s.name = self.name(s, 'name')
        s.state = SDict(s.H, z3.Const('state', s.th.Ref))
        return s, (s.m, s.name, s.state), {}

    def requires(self, s):
        return [graph_wf(s.th, s.g0, s.h0), s.h0.alloc(s.state.ref)]

    def raises(self, s):
        return {'ValueError': s.g0.node(s.name.t)}

    def iff_raises(self, s):
        return [('raises iff the node is present', z3.Not(s.g0.node(s.name.t)))]

    def ensures(self, s, result):
        th, g0, h0, g1, h1, n = s.th, s.g0, s.h0, s.G.snap(), s.H.snap(), s.name.t
        A = th.klit('attr_dict')
        return [('nodes = old nodes + name', th.forall_nodes(lambda x: g1.node(x) == z3.Or(x == n, g0.node(x)))),
                ('edges and params unchanged', th.forall_nodes(lambda u, v: z3.And(g1.edge(u, v) == g0.edge(u, v), g1.param(u, v) == g0.param(u, v)), 2)),
                ('the new node holds exactly the given state dict', z3.And(h1.has(g1.nattr(n), A), h1.val(g1.nattr(n), A) == th.Val.vref(s.state.ref))),
                ('other nodes keep their data dicts', th.forall_nodes(lambda x: z3.Implies(g0.node(x), g1.nattr(x) == g0.nattr(x)))),
                ('no existing dict is written', th.forall_ref_key(lambda r, k: z3.Implies(h0.alloc(r), z3.And(h1.has(r, k) == h0.has(r, k), h1.val(r, k) == h0.val(r, k))))),
                ('networkx invariant kept', graph_wf(th, g1, h1))]


# ---------------------------------------------------------------------- get_parents
def gp_post(th, g, child, R, idx):
    """spec of get_parents: R lists exactly the positional parents of child, each once, by ascending param.
    idx(p) is the (ghost) position of parent p."""
    from pyvc.core import forall_range
    P = th.Param
    at = lambda i: R.elt(i).t
    return [('every element is a positional parent', forall_range(0, R.n, lambda i: g.pos(at(i), child), 'i')),
            ('every positional parent is listed', th.forall_nodes(lambda p: z3.Implies(g.pos(p, child), z3.And(idx(p) >= 0, idx(p) < R.n, at(idx(p)) == p)))),
            ('listed once', forall_range(0, R.n, lambda i: idx(at(i)) == i, 'i')),
            ('ascending positional param', forall_range(0, R.n, lambda i: forall_range(0, R.n, lambda j: z3.Implies(
                i <= j, P.pos_of(g.param(at(i), child)) <= P.pos_of(g.param(at(j), child))), 'j'), 'i'))]


class GetParents(C14Contract):
    target = GMF + '::GraphicalModel.get_parents'
    comprehensions = True
    fin = 4

    def setup(self, vc):
        s = self.base_setup(vc)
        s.child = self.name(s, 'child_name')
        return s, (s.m, s.child), {}

    def requires(self, s):
        return [graph_wf(s.th, s.g0, s.h0), edges_have_param(s.th, s.g0)]

    def _fresh_args(self, why):
        th = theory()
        vc = th.vc
        n = vc.fresh_int('args.n', nonneg=True, size=True)
        key = vc.fresh_fn('args.key', z3.IntSort(), th.Param)
        own = vc.fresh_fn('args.owner', z3.IntSort(), th.Node)
        idx = vc.fresh_fn('args.idx', th.Node, z3.IntSort())
        return SList(n, lambda i: (SParam(key(nxspec._zi(i))), SNodeName(own(nxspec._zi(i)))), ghost=idx)

    def _acc(self):
        """name of the accumulator list: the local that is bound to an empty list literal before the loop (read from the source,
        so that renaming it does not matter)"""
        loc = instrument.locate(self.target)
        for st in loc.node.body:
            if isinstance(st, ast.Assign) and isinstance(st.value, ast.List) and not st.value.elts and len(st.targets) == 1 \
                    and isinstance(st.targets[0], ast.Name):
                return st.targets[0].id
        raise OutOfSubset('get_parents: no `name = []` accumulator before the loop')

    def _inv(self, s, l):
        from pyvc.core import forall_range
        th, g, c = s.th, s.g0, s.child.t
        L = getattr(l, self._acc())
        if isinstance(L, list):             # before the first iteration the local still holds the python list the code created
            if L:
                raise OutOfSubset('get_parents: accumulator list is not empty at loop entry')
            L = SList(z3.IntVal(0), self._fresh_args('init').elt)
        idx = L.ghost if L.ghost is not None else (lambda p: z3.IntVal(0))
        vis = l.it.visited
        key = lambda i: L.elt(i)[0].t
        own = lambda i: L.elt(i)[1].t
        return [('length', L.n >= 0),
                ('list entries are visited positional parents with their params',
                 forall_range(0, L.n, lambda i: z3.And(vis(own(i)), g.pos(own(i), c), key(i) == g.param(own(i), c), idx(own(i)) == i), 'i')),
                ('every visited positional parent is in the list',
                 th.forall_nodes(lambda p: z3.Implies(z3.And(vis(p), g.pos(p, c)), z3.And(idx(p) >= 0, idx(p) < L.n, own(idx(p)) == p))))]

    def _ghost_step(self, s, l0, l1):
        L = getattr(l1, self._acc())
        if isinstance(L, SList) and L.ghost is not None:
            old, cur_, n1 = L.ghost, l0.it.cur, L.n
            L.ghost = lambda p: z3.If(p == cur_, n1 - 1, old(p))

    @property
    def loops(self):
        acc = self._acc()
        L = Loop(inv=self._inv, fresh={acc: self._fresh_args}, ghost_step=self._ghost_step)
        L.rebind = (acc,)
        return {0: L}

    def raises(self, s):
        return {'NetworkXError': z3.Not(s.g0.node(s.child.t))}

    def iff_raises(self, s):
        return [('normal return only for an existing node', s.g0.node(s.child.t))]

    def ensures(self, s, result):
        if not isinstance(result, SList):
            raise OutOfSubset('get_parents returned %s' % type(result).__name__)
        head = s.rt.loopstate[0]['head']
        idx0 = getattr(head, self._acc()).ghost
        srt = s.ctx.vc.libcalls.get('sorted')
        if not srt:
            pos = idx0                      # no sort in the code: the list order is the iteration order (the clause will fail)
        else:
            pinv = srt[-1]['pinv']
            pos = lambda p: pinv(idx0(p))
        names = SList(result.n, lambda i: result.elt(i) if isinstance(result.elt(i), SNodeName) else _not_a_name(result.elt(i)))
        return gp_post(s.th, s.g0, s.child.t, names, pos)


def _not_a_name(v):
    raise OutOfSubset('get_parents returned a list of %s' % type(v).__name__)


def stub_get_parents(m, child):
    """callee under contract GetParents"""
    ctx = m._ctx
    th, vc, G = ctx.th, ctx.vc, m.source_net
    c = child.t
    if not vc.branch(G.node(c)):
        raise program_exception(nxspec.NetworkXError('The node is not in the digraph'))
    n = vc.fresh_int('parents.n', nonneg=True, size=True)
    at = vc.fresh_fn('parents.at', z3.IntSort(), th.Node)
    idx = vc.fresh_fn('parents.idx', th.Node, z3.IntSort())
    R = SList(n, lambda i: SNodeName(at(nxspec._zi(i))), ghost=idx)
    g = G.snap()
    for _, f in gp_post(th, g, c, R, idx):
        vc.assume(f)
    R.child, R.g = c, g
    return ctx.record('get_parents', (child,), R)


# ---------------------------------------------------------------------- add_edge
class AddEdge(C14Contract):
    target = GMF + '::GraphicalModel.add_edge'

    def __init__(self, mode):
        self.mode = self.label = mode        # default | given | badtype
        if mode == 'badtype':                # raise-only case: the single exit is `raise ValueError`, allowed unconditionally
            self.cover, self.allow_no_obligations = False, True

    def setup(self, vc):
        s = self.base_setup(vc)
        s.ctx.stubs[('GraphicalModel', 'get_parents')] = stub_get_parents
        s.parent, s.child = self.name(s, 'parent_name'), self.name(s, 'child_name')
        if self.mode == 'default':
            s.p = None
        elif self.mode == 'given':
            s.p = SParam(z3.Const('param_name', s.th.Param))
        else:
            s.p = _BadParam()
        return s, (s.m, s.parent, s.child) + (() if s.p is None else (s.p,)), {}

    def requires(self, s):
        r = [graph_wf(s.th, s.g0, s.h0)]
        if self.mode == 'given':
            r.append(z3.Not(s.th.Param.is_pabsent(s.p.t)))
        return r

    def raises(self, s):
        g = s.g0
        bad = z3.Or(z3.Not(g.node(s.parent.t)), z3.Not(g.node(s.child.t)))
        return {'ValueError': z3.BoolVal(True) if self.mode == 'badtype' else bad,
                'NetworkXError': z3.And(z3.BoolVal(self.mode == 'default'), z3.Not(g.node(s.child.t)))}

    def iff_raises(self, s):
        g = s.g0
        return [('normal return only if both nodes exist and the param is an int or a str',
                 z3.And(g.node(s.parent.t), g.node(s.child.t), z3.BoolVal(self.mode != 'badtype')))]

    def ensures(self, s, result):
        th, g0, g1, u, v = s.th, s.g0, s.G.snap(), s.parent.t, s.child.t
        if self.mode == 'given':
            newp = s.p.t
            extra = []
        else:
            calls = s.ctx.calls.get('get_parents', [])
            if len(calls) != 1:
                raise OutOfSubset('add_edge: expected one get_parents call, saw %d' % len(calls))
            R = calls[0][1]
            newp = th.Param.ppos(R.n)
            extra = [('default param = number of positional parents of the child (0 for a fresh child)',
                      z3.And(z3.eq(R.child, v), z3.Implies(th.forall_nodes(lambda p: z3.Not(g0.pos(p, v))), g1.param(u, v) == th.Param.ppos(0))))]
        return [('the edge is present with the param', z3.And(g1.edge(u, v), g1.param(u, v) == newp)),
                ('nodes unchanged', th.forall_nodes(lambda x: g1.node(x) == g0.node(x))),
                ('other edges unchanged', th.forall_nodes(lambda a, b: z3.Implies(z3.Not(z3.And(a == u, b == v)),
                                                                                  z3.And(g1.edge(a, b) == g0.edge(a, b), g1.param(a, b) == g0.param(a, b))), 2)),
                ('no dict is written', z3.BoolVal(s.H.has is s.h0.has and s.H.val is s.h0.val)),
                ("every edge still carries a 'param'", z3.Implies(edges_have_param(th, g0), edges_have_param(th, g1)))] + extra


class _BadParam:
    """a param_name that is neither int nor str"""

    def _vc_isinstance(self, cls):
        return False

    def __format__(self, spec):
        return '<object>'


# ---------------------------------------------------------------------- remove_node (recursive, virtual)
def rn_facts(th, g0, h0, g1, h1, name, obs_mode, ranks, guard=None):
    """Spec of remove_node(name) between the states (g0, h0) -> (g1, h1); also the shape of its loop invariant (with `guard`).
    obs_mode: 'none'   heap untouched (self is a plain GraphicalModel)
              'others' the observed entries of the removed nodes OTHER than `name` are gone (base-class body run on an ElfiModel:
                       the recursive call is virtual)
              'all'    the observed entries of all removed nodes are gone (ElfiModel.remove_node)"""
    removed = lambda x: z3.And(g0.node(x), z3.Not(g1.node(x)))
    guard = guard or (lambda q, r: z3.BoolVal(True))
    out = [('the node is gone', z3.Not(g1.node(name))),
           ('no node is added', th.forall_nodes(lambda x: z3.Implies(g1.node(x), g0.node(x)))),
           ('exactly the edges between remaining nodes remain', th.forall_nodes(lambda u, v: g1.edge(u, v) == z3.And(g0.edge(u, v), g1.node(u), g1.node(v)), 2)),
           ('remaining edges keep their params', th.forall_nodes(lambda u, v: z3.Implies(g1.edge(u, v), g1.param(u, v) == g0.param(u, v)), 2)),
           ('remaining nodes keep their data dicts', th.forall_nodes(lambda x: z3.Implies(g1.node(x), g1.nattr(x) == g0.nattr(x)))),
           ('frame: any other removed node is a private positional parent of a removed node, and all its neighbours are removed too',
            th.forall_nodes(lambda x: z3.Implies(z3.And(removed(x), x != name),
                                                 z3.And(th.private(x), th.exists_nodes(lambda r: z3.And(removed(r), g0.pos(x, r))),
                                                        th.forall_nodes(lambda y: z3.Implies(nbr(g0, x, y), z3.Not(g1.node(y)))))))),
           ('removed nodes take their private constants with them: no private positional parent of a removed node is left isolated',
            th.forall_nodes(lambda q, r: z3.Implies(z3.And(g1.node(q), th.private(q), removed(r), g0.pos(q, r), guard(q, r)),
                                                    th.exists_nodes(lambda y: nbr(g1, q, y))), 2))]
    for rk in ranks:
        out.append(('ghost: other removed nodes lie strictly below the node in any rank that orders the graph',
                    z3.Implies(acyclic_by(th, g0, rk), th.forall_nodes(lambda x: z3.Implies(z3.And(removed(x), x != name), rk(x) < rk(name))))))
    if obs_mode == 'none':
        out.append(('no dict is written', heap_same_except(th, h0, h1, lambda r, k: z3.BoolVal(False))))
    else:
        o = obsref(th, g0, h0)
        K = th.Key
        drop = (lambda x: removed(x)) if obs_mode == 'all' else (lambda x: z3.And(removed(x), x != name))
        out.append(('only observed entries of removed nodes are written',
                    heap_same_except(th, h0, h1, lambda r, k: z3.And(r == o, K.is_knode(k), drop(K.knode_of(k))))))
        out.append(('removed nodes take their observed data with them', th.forall_nodes(lambda x: z3.Implies(drop(x), z3.Not(h1.has(o, th.knode(x)))))))
    return out


def obs_rep(th, g, h):
    """graph['observed'] holds a dict other than the graph dict itself"""
    O = th.klit('observed')
    o = obsref(th, g, h)
    return z3.And(h.has(g.gref, O), th.Val.is_vref(h.val(g.gref, O)), h.alloc(o), o != g.gref)


def rn_pre(th, g, h, elfi):
    f = [('networkx representation invariant', graph_wf(th, g, h)), ("every edge carries a 'param'", edges_have_param(th, g))]
    if elfi:
        f.append(('graph[observed] is a dict', obs_rep(th, g, h)))
    return f


def rn_kept(th, g0, h0, g1, h1, elfi, obs_mode):
    """what remove_node preserves besides its own precondition"""
    return [(lbl + ' (kept)', f) for lbl, f in rn_pre(th, g1, h1, elfi)] + \
        [('model representation kept', z3.Implies(elfi_rep(th, g0, h0, elfi), elfi_rep(th, g1, h1, elfi))),
         ('model_ok kept: positional params pairwise distinct', z3.Implies(params_distinct(th, g0), params_distinct(th, g1)))] + \
        ([('model_ok kept: observed data only for nodes', z3.Implies(observed_on_nodes(th, g0, h0), observed_on_nodes(th, g1, h1)))] if obs_mode == 'all' else [])


def make_stub_remove_node(obs_mode):
    def stub(m, name):
        ctx = m._ctx
        th, vc, G, H = ctx.th, ctx.vc, m.source_net, ctx.H
        n = name.t
        g0, h0 = G.snap(), H.snap()
        for lbl, f in rn_pre(th, g0, h0, obs_mode != 'none'):
            vc.oblige('call-pre[remove_node: %s]' % lbl, f)
        if not vc.branch(G.node(n)):
            raise program_exception(nxspec.NetworkXError('The node is not in the digraph'))
        G._vc_havoc('remove_node')
        if obs_mode != 'none':
            H._vc_havoc('remove_node')
        g1, h1 = G.snap(), H.snap()
        for lbl, f in rn_facts(th, g0, h0, g1, h1, n, obs_mode, ctx.ranks) + rn_kept(th, g0, h0, g1, h1, obs_mode != 'none', obs_mode):
            vc.assume(f)
        return ctx.record('remove_node', (name,), (g0, h0, g1, h1))
    return stub


class RemoveNode(C14Contract):
    """GraphicalModel.remove_node with self: GraphicalModel | ElfiModel, and ElfiModel.remove_node"""

    def __init__(self, where, cls):
        self.where, self.cls = where, cls
        self.target = (GMF + '::GraphicalModel.remove_node') if where == 'GraphicalModel' else (EMF + '::ElfiModel.remove_node')
        self.label = 'self:' + cls
        self.elfi = cls == 'ElfiModel'
        self.obs_mode = 'none' if cls == 'GraphicalModel' else ('all' if where == 'ElfiModel' else 'others')

    def setup(self, vc):
        s = self.base_setup(vc)
        ctx = s.ctx
        rank = z3.Function('rank', s.th.Node, z3.IntSort())
        ctx.ranks = [lambda x: rank(x)]
        ctx.stubs[('GraphicalModel', 'get_parents')] = stub_get_parents
        # the call `self.remove_node(p)` inside GraphicalModel.remove_node is VIRTUAL: for an ElfiModel it reaches ElfiModel.remove_node
        # (looked up in the tree); super(ElfiModel, self).remove_node reaches the base body run on an ElfiModel
        ctx.stubs[('GraphicalModel', 'remove_node')] = make_stub_remove_node('none' if self.cls == 'GraphicalModel' else 'others')
        ctx.stubs[('ElfiModel', 'remove_node')] = make_stub_remove_node('all')
        s.name = self.name(s, 'name')
        return s, (s.m, s.name), {}

    def requires(self, s):
        return rn_pre(s.th, s.g0, s.h0, self.elfi)

    def raises(self, s):
        return {'NetworkXError': z3.Not(s.g0.node(s.name.t))}

    def iff_raises(self, s):
        return [('normal return only for an existing node', s.g0.node(s.name.t))]

    def _inv(self, s, l):
        calls = s.ctx.calls.get('get_parents', [])
        if len(calls) != 1:
            raise OutOfSubset('remove_node: expected one get_parents call before the loop, saw %d' % len(calls))
        R = calls[0][1]
        i, idx, name = l.it.index, R.ghost, s.name.t
        return rn_facts(s.th, s.g0, s.h0, s.G.snap(), s.H.snap(), name, self.obs_mode, s.ctx.ranks,
                        guard=lambda q, r: z3.Implies(r == name, idx(q) < i))

    @property
    def loops(self):
        if self.where != 'GraphicalModel':
            return {}
        return {0: Loop(inv=self._inv, modifies=lambda s, l: [s.G] + ([s.H] if self.elfi else []))}

    def ensures(self, s, result):
        g1, h1 = s.G.snap(), s.H.snap()
        return rn_facts(s.th, s.g0, s.h0, g1, h1, s.name.t, self.obs_mode, s.ctx.ranks) + rn_kept(s.th, s.g0, s.h0, g1, h1, self.elfi, self.obs_mode) + \
            [(l, z3.Implies(elfi_rep(s.th, s.g0, s.h0, self.elfi), f)) for l, f in [owned_within(s.th, s.g0, s.h0, g1, h1, self.elfi)]]


# ---------------------------------------------------------------------- update_node
def un_pre(th, g, h, node, upd, elfi, rank, N, D):
    """requires of update_node (from the call sites: NodeReference.become on a replacement that does not depend on the node)"""
    f = rn_pre(th, g, h, elfi) + [
        ('model representation (state dicts under attr_dict, pairwise distinct objects)', elfi_rep(th, g, h, elfi)),
        ('both nodes exist and differ', z3.And(g.node(node), g.node(upd), node != upd)),
        ('model_ok: positional params of each child pairwise distinct', params_distinct(th, g)),
        ('model_ok: acyclic, witnessed by a rank with values in [0, N) (the graph is finite)',
         z3.And(acyclic_by(th, g, rank), th.forall_nodes(lambda x: z3.And(rank(x) >= 0, rank(x) < N)))),
        ('the updating node is not a descendant of the node (D: a successor-closed set holding the node but not the updating node)',
         z3.And(D(node), z3.Not(D(upd)), th.forall_nodes(lambda u, v: z3.Implies(z3.And(D(u), g.edge(u, v)), D(v)), 2))),
        ('the updating node is not a private constant feeding other nodes', z3.Implies(th.private(upd), th.forall_nodes(lambda v: z3.Not(g.edge(upd, v)))))]
    if elfi:
        f.append(('model_ok: observed data only for nodes', observed_on_nodes(th, g, h)))
    return f


def un_facts(th, g0, h0, g1, h1, node, upd, mode, rank, N, D):
    """Spec of update_node(node, upd).  mode 'none': plain GraphicalModel; 'base': base-class body run on an ElfiModel;
    'elfi': ElfiModel.update_node (observed data handed over)."""
    A = th.klit('attr_dict')
    removed = lambda x: z3.And(g0.node(x), z3.Not(g1.node(x)))
    rank1 = lambda x: rank(x) + z3.If(D(x), N, 0)
    out = [('the updating node is gone, the node is there', z3.And(z3.Not(g1.node(upd)), g1.node(node))),
           ('no node is added', th.forall_nodes(lambda x: z3.Implies(g1.node(x), g0.node(x)))),
           ('the replaced node keeps its children with their params',
            th.forall_nodes(lambda v: z3.And(g1.edge(node, v) == g0.edge(node, v), z3.Implies(g0.edge(node, v), g1.param(node, v) == g0.param(node, v))))),
           ("it takes over the replacement's parents with their params",
            th.forall_nodes(lambda u: z3.And(g1.edge(u, node) == g0.edge(u, upd), z3.Implies(g0.edge(u, upd), g1.param(u, node) == g0.param(u, upd))))),
           ("it takes over the replacement's state (operation)", z3.And(h1.has(g1.nattr(node), A), h1.val(g1.nattr(node), A) == h0.val(g0.nattr(upd), A))),
           ('frame: edges, params and data dicts between other remaining nodes are unchanged',
            z3.And(th.forall_nodes(lambda a, b: z3.Implies(z3.And(a != node, b != node),
                                                           z3.And(g1.edge(a, b) == z3.And(g0.edge(a, b), g1.node(a), g1.node(b)),
                                                                  z3.Implies(g1.edge(a, b), g1.param(a, b) == g0.param(a, b)))), 2),
                   th.forall_nodes(lambda x: z3.Implies(z3.And(g1.node(x), x != node), g1.nattr(x) == g0.nattr(x))))),
           ('frame: any other removed node is a private node whose neighbours are all removed, except possibly the node itself',
            th.forall_nodes(lambda x: z3.Implies(z3.And(removed(x), x != upd), z3.And(th.private(x), th.forall_nodes(
                lambda y: z3.Implies(nbr(g0, x, y), z3.Or(y == node, z3.Not(g1.node(y))))))))),
           ('model_ok kept: positional params pairwise distinct', params_distinct(th, g1)),
           ('model_ok kept: acyclic (rank witness: old rank, raised by N on the descendants of the node)',
            z3.And(acyclic_by(th, g1, rank1), th.forall_nodes(lambda x: z3.And(rank1(x) >= 0, rank1(x) < 2 * N)))),
           ('model_ok kept: no private node is left isolated (when private nodes are constants: no parents, and the node is not private)',
            z3.Implies(z3.And(private_are_sources(th, g0), no_isolated_private(th, g0), z3.Not(th.private(node))),
                       z3.And(no_isolated_private(th, g1), private_are_sources(th, g1))))]
    if mode == 'none':
        out.append(('only the new data dict of the node is written',
                    z3.And(th.forall_ref_key(lambda r, k: z3.Implies(h0.alloc(r), z3.And(h1.has(r, k) == h0.has(r, k), h1.val(r, k) == h0.val(r, k)))),
                           z3.Not(h0.alloc(g1.nattr(node))))))
    else:
        o = obsref(th, g0, h0)
        K = th.Key
        out.append(('only the observed dict and the new data dict of the node are written',
                    z3.And(th.forall_ref_key(lambda r, k: z3.Implies(z3.And(h0.alloc(r), r != o), z3.And(h1.has(r, k) == h0.has(r, k), h1.val(r, k) == h0.val(r, k)))),
                           z3.Not(h0.alloc(g1.nattr(node))), th.forall_refs(lambda r: z3.Implies(h0.alloc(r), h1.alloc(r))))))
        out.append(('observed: only node-name keys are touched', th.forall_keys(lambda k: z3.Implies(z3.Not(K.is_knode(k)), z3.And(
            h1.has(o, k) == h0.has(o, k), h1.val(o, k) == h0.val(o, k))))))
        keep = lambda x: z3.And(h1.has(o, th.knode(x)) == z3.And(h0.has(o, th.knode(x)), g1.node(x)),
                                z3.Implies(h1.has(o, th.knode(x)), h1.val(o, th.knode(x)) == h0.val(o, th.knode(x))))
        if mode == 'base':
            out.append(('observed data of removed nodes (and of the replaced node) is gone, the rest is kept',
                        z3.And(z3.Not(h1.has(o, th.knode(node))), th.forall_nodes(lambda x: z3.Implies(x != node, keep(x))))))
        else:
            out.append(("the node takes over the replacement's observed data; observed data of removed nodes is gone, the rest is kept",
                        z3.And(h1.has(o, th.knode(node)) == h0.has(o, th.knode(upd)),
                               z3.Implies(h0.has(o, th.knode(upd)), h1.val(o, th.knode(node)) == h0.val(o, th.knode(upd))),
                               th.forall_nodes(lambda x: z3.Implies(x != node, keep(x))))))
        out.append(('model_ok kept: observed data only for nodes', observed_on_nodes(th, g1, h1)))
    return out


def un_kept(th, g1, h1, elfi):
    return [(lbl + ' (kept)', f) for lbl, f in rn_pre(th, g1, h1, elfi)] + [('model representation kept', elfi_rep(th, g1, h1, elfi))]


def make_stub_update_node(mode):
    def stub(m, node, upd):
        ctx = m._ctx
        th, vc, G, H = ctx.th, ctx.vc, m.source_net, ctx.H
        g0, h0 = G.snap(), H.snap()
        gh = ctx.ghost
        for lbl, f in un_pre(th, g0, h0, node.t, upd.t, mode != 'none', gh.rank, gh.N, gh.D):
            vc.oblige('call-pre[update_node: %s]' % lbl, f)
        G._vc_havoc('update_node')
        H._vc_havoc('update_node')
        g1, h1 = G.snap(), H.snap()
        for lbl, f in un_facts(th, g0, h0, g1, h1, node.t, upd.t, mode, gh.rank, gh.N, gh.D) + \
                un_kept(th, g1, h1, mode != 'none'):
            vc.assume(f)
        return ctx.record('update_node', (node, upd), (g0, h0, g1, h1))
    return stub


class UpdateNode(C14Contract):
    """GraphicalModel.update_node with self: GraphicalModel | ElfiModel, and ElfiModel.update_node"""
    fin = 4

    def __init__(self, where, cls):
        self.where, self.cls = where, cls
        self.target = (GMF + '::GraphicalModel.update_node') if where == 'GraphicalModel' else (EMF + '::ElfiModel.update_node')
        self.label = 'self:' + cls
        self.elfi = cls == 'ElfiModel'
        self.mode = 'none' if cls == 'GraphicalModel' else ('elfi' if where == 'ElfiModel' else 'base')

    def setup(self, vc):
        s = self.base_setup(vc)
        ctx, th = s.ctx, s.th
        rank = z3.Function('rank', th.Node, z3.IntSort())
        Dp = z3.Function('D', th.Node, z3.BoolSort())
        N = z3.Int('N')
        ctx.ghost = NS(rank=lambda x: rank(x), N=N, D=lambda x: Dp(x))
        ctx.ranks = [ctx.ghost.rank, lambda x: rank(x) + z3.If(Dp(x), N, 0)]
        ctx.stubs[('GraphicalModel', 'get_parents')] = stub_get_parents
        ctx.stubs[('GraphicalModel', 'remove_node')] = make_stub_remove_node('none' if self.cls == 'GraphicalModel' else 'others')
        ctx.stubs[('ElfiModel', 'remove_node')] = make_stub_remove_node('all')
        if self.where == 'ElfiModel':
            ctx.stubs[('GraphicalModel', 'update_node')] = make_stub_update_node('base')
        s.node, s.upd = self.name(s, 'node'), self.name(s, 'updating_node')
        return s, (s.m, s.node, s.upd), {}

    def requires(self, s):
        gh = s.ctx.ghost
        return un_pre(s.th, s.g0, s.h0, s.node.t, s.upd.t, self.elfi, gh.rank, gh.N, gh.D)

    def _inv(self, s, l):
        th, ge, gh_, node, upd = s.th, l.entry.g, s.G.snap(), s.node.t, s.upd.t
        vis = l.it.visited
        moved = lambda a, b: z3.And(b == node, vis(a))
        return [('nodes as at loop entry', th.forall_nodes(lambda x: z3.And(gh_.node(x) == ge.node(x), gh_.nattr(x) == ge.nattr(x)))),
                ('edges = entry edges + (u -> node) for the visited parents u of the updating node',
                 th.forall_nodes(lambda a, b: gh_.edge(a, b) == z3.Or(ge.edge(a, b), moved(a, b)), 2)),
                ('params: the moved edges carry the params of (u -> updating node)',
                 th.forall_nodes(lambda a, b: gh_.param(a, b) == z3.If(moved(a, b), ge.param(a, upd), ge.param(a, b)), 2))]

    @property
    def loops(self):
        if self.where != 'GraphicalModel':
            return {}
        return {0: Loop(inv=self._inv, modifies=lambda s, l: [s.G], snapshot=lambda s, l: dict(g=s.G.snap()))}

    def ensures(self, s, result):
        gh = s.ctx.ghost
        g1, h1 = s.G.snap(), s.H.snap()
        return un_facts(s.th, s.g0, s.h0, g1, h1, s.node.t, s.upd.t, self.mode, gh.rank, gh.N, gh.D) + un_kept(s.th, g1, h1, self.elfi) + \
            [owned_within(s.th, s.g0, s.h0, g1, h1, self.elfi)]


# ---------------------------------------------------------------------- parameter_names
def is_param(th, g, h, x):
    """node x is marked as a parameter: its state dict has the key '_parameter'"""
    return h.has(stateref(th, g, h, x), th.klit('_parameter'))


class ParameterNamesGet(C14Contract):
    target = EMF + '::ElfiModel.parameter_names#0'
    label = 'getter'
    comprehensions = True
    needs_order = True

    def setup(self, vc):
        s = self.base_setup(vc)
        return s, (s.m,), {}

    def requires(self, s):
        return rn_pre(s.th, s.g0, s.h0, True) + [elfi_rep(s.th, s.g0, s.h0)]

    def ensures(self, s, result):
        from pyvc.core import forall_range
        th, g, h = s.th, s.g0, s.h0
        if not isinstance(result, nxspec.SNameList):
            raise OutOfSubset('parameter_names returned %s' % type(result).__name__)
        at = lambda i: result.elt(i).t
        srt = s.ctx.vc.libcalls.get('sorted')
        pos = (lambda x: srt[-1]['pinv'](result.idx(x))) if srt else result.idx
        return [('lists only parameter nodes', forall_range(0, result.n, lambda i: z3.And(g.node(at(i)), is_param(th, g, h, at(i))), 'i')),
                ('lists every parameter node', th.forall_nodes(lambda x: z3.Implies(z3.And(g.node(x), is_param(th, g, h, x)),
                                                                                    z3.And(pos(x) >= 0, pos(x) < result.n, at(pos(x)) == x)))),
                ('in sorted order (strictly ascending names)',
                 forall_range(0, result.n, lambda i: forall_range(0, result.n, lambda j: z3.Implies(i < j, th.lt(at(i), at(j))), 'j'), 'i')),
                ('nothing is written', z3.BoolVal(s.H.has is h.has and s.H.val is h.val and s.G.node is g.node and s.G.edge is g.edge))]


class _NameBag:
    """the argument of the setter: any iterable of names; only set(...) of it is used"""

    def __init__(self, mem):
        self.mem = mem

    def _vc_set(self):
        return SNodeSet(self.mem)

    def __iter__(self):
        raise OutOfSubset('iteration over the symbolic parameter_names argument')


class ParameterNamesSet(C14Contract):
    target = EMF + '::ElfiModel.parameter_names#1'
    label = 'setter'

    def setup(self, vc):
        s = self.base_setup(vc)
        th = s.th
        inP = z3.Function('given', th.Node, z3.BoolSort())
        s.inP = lambda x: inP(x)
        owner = z3.Function('state_owner', th.Ref, th.Node)     # ghost inverse of stateref on the nodes (exists: elfi_rep makes it injective)
        s.owner = lambda r: owner(r)
        return s, (s.m, _NameBag(s.inP)), {}

    def requires(self, s):
        th, g, h = s.th, s.g0, s.h0
        return rn_pre(th, g, h, True) + [elfi_rep(th, g, h), th.forall_nodes(lambda x: z3.Implies(g.node(x), s.owner(stateref(th, g, h, x)) == x))]

    def _is_state(self, s, r, of=None):
        th, g, h = s.th, s.g0, s.h0
        x = s.owner(r)
        return z3.And(g.node(x), stateref(th, g, h, x) == r, of(x) if of else z3.BoolVal(True))

    def _marks(self, s, h1, on):
        """for the nodes x with on(x): '_parameter' is present in the state dict iff x was given (value True); every other slot is untouched"""
        th, g, h0 = s.th, s.g0, s.h0
        PK = th.klit('_parameter')
        sr = lambda x: stateref(th, g, h0, x)
        return [('exactly the given names are marked', th.forall_nodes(lambda x: z3.Implies(z3.And(g.node(x), on(x)), z3.And(
            h1.has(sr(x), PK) == s.inP(x), z3.Implies(s.inP(x), h1.val(sr(x), PK) == th.Val.vbool(z3.BoolVal(True))))))),
                ("only the '_parameter' slot of the state dicts of the model's own nodes is written",
                 heap_same_except(th, h0, h1, lambda r, k: z3.And(k == PK, self._is_state(s, r, on))))]

    def _inv(self, s, l):
        th = s.th
        vis = l.it.visited
        pn = self._the_set(l)
        return [('the set still holds the given names that were not visited', th.forall_nodes(lambda x: pn.mem(x) == z3.And(s.inP(x), z3.Not(vis(x)))))] + \
            self._marks(s, s.H.snap(), vis)

    @property
    def loops(self):
        return {0: Loop(inv=self._inv, modifies=lambda s, l: [self._the_set(l), s.H])}

    @staticmethod
    def _the_set(l):
        """the set built from the argument: found by its type among the locals (renaming it does not matter)"""
        sets = [v for v in vars(l).values() if isinstance(v, SNodeSet)]
        if len(sets) != 1:
            raise OutOfSubset('parameter_names setter: expected one set of names among the locals, found %d' % len(sets))
        return sets[0]

    def raises(self, s):
        return {'ValueError': s.th.exists_nodes(lambda x: z3.And(s.inP(x), z3.Not(s.g0.node(x))))}

    def iff_raises(self, s):
        return [('raises iff a given name is unknown', s.th.forall_nodes(lambda x: z3.Implies(s.inP(x), s.g0.node(x))))]

    def ensures(self, s, result):
        g = s.g0
        h1 = s.H.snap()
        return self._marks(s, h1, lambda x: z3.BoolVal(True)) + \
            [('the graph is untouched', z3.BoolVal(s.G.node is g.node and s.G.edge is g.edge and s.G.param is g.param and s.G.nattr is g.nattr)),
             ('model representation kept', elfi_rep(s.th, g, h1)), owned_within(s.th, g, s.h0, g, h1, True)]


# ---------------------------------------------------------------------- copy
def owned(th, g, h, elfi):
    """the dict objects a model's mutators write: graph dict, observed dict, node data dicts, node state dicts -> predicate over Ref"""
    def pred(r):
        c = [r == g.gref, th.exists_nodes(lambda x: z3.And(g.node(x), z3.Or(r == g.nattr(x), r == stateref(th, g, h, x))))]
        if elfi:
            c.append(r == obsref(th, g, h))
        return z3.Or(c)
    return pred


def owned_within(th, g0, h0, g1, h1, elfi):
    """frame clause every mutator contract carries for the independence argument (lemma_independence_step):
    the dicts the model owns afterwards are dicts it owned before or dicts allocated by the call"""
    before, after = owned(th, g0, h0, elfi), owned(th, g1, h1, elfi)
    return ("owned(model') is within owned(model) + newly allocated dicts", th.forall_refs(lambda r: z3.Implies(after(r), z3.Or(before(r), z3.Not(h0.alloc(r))))))


def copy_facts(th, g0, h0, gk, h1, elfi, g0_now_same):
    """Spec of k = m.copy(): (g0, h0) the original before, gk the copy's graph, h1 the heap after."""
    A = th.klit('attr_dict')
    sr0 = lambda x: stateref(th, g0, h0, x)
    srk = lambda x: stateref(th, gk, h1, x)
    mine = owned(th, g0, h0, elfi)
    out = [('same nodes, edges and params', z3.And(th.forall_nodes(lambda x: gk.node(x) == g0.node(x)),
                                                  th.forall_nodes(lambda u, v: z3.And(gk.edge(u, v) == g0.edge(u, v), gk.param(u, v) == g0.param(u, v)), 2))),
           ('every node state has the same contents (same operation, flags, ...)',
            th.forall_nodes(lambda x: z3.Implies(g0.node(x), z3.And(h1.has(gk.nattr(x), A), th.Val.is_vref(h1.val(gk.nattr(x), A)),
                                                                    th.forall_keys(lambda k: z3.And(h1.has(srk(x), k) == h0.has(sr0(x), k),
                                                                                                    h1.val(srk(x), k) == h0.val(sr0(x), k))))))),
           ('the original is untouched', z3.And(z3.BoolVal(g0_now_same), th.forall_ref_key(lambda r, k: z3.Implies(h0.alloc(r), z3.And(
               h1.has(r, k) == h0.has(r, k), h1.val(r, k) == h0.val(r, k)))), th.forall_refs(lambda r: z3.Implies(h0.alloc(r), h1.alloc(r))))),
           ("independence: the copy's graph dict and node data dicts are new objects",
            z3.And(z3.Not(h0.alloc(gk.gref)), th.forall_nodes(lambda x: z3.Implies(gk.node(x), z3.Not(h0.alloc(gk.nattr(x))))))),
           ("independence: no node state dict of the copy is a dict of the original",
            th.forall_nodes(lambda x: z3.Implies(gk.node(x), z3.Not(mine(srk(x)))))),
           ('the copy is a well-formed model', z3.And(graph_wf(th, gk, h1), edges_have_param(th, gk) == edges_have_param(th, g0), elfi_rep(th, gk, h1, elfi)))]
    if elfi:
        o0, ok = obsref(th, g0, h0), obsref(th, gk, h1)
        out += [('same observed data', z3.And(obs_rep(th, gk, h1), th.forall_keys(lambda k: z3.And(h1.has(ok, k) == h0.has(o0, k), h1.val(ok, k) == h0.val(o0, k))))),
                ("independence: the copy's observed dict is not a dict of the original",
                 z3.Not(mine(ok)))]
    return out


def stub_copy_base(m):
    """GraphicalModel.copy run on an ElfiModel (callee under contract Copy('GraphicalModel', 'ElfiModel'))"""
    ctx = m._ctx
    th, vc, G, H = ctx.th, ctx.vc, m.source_net, ctx.H
    g0, h0 = G.snap(), H.snap()
    for lbl, f in copy_pre(th, g0, h0, True):
        vc.oblige('call-pre[copy: %s]' % lbl, f)
    K = SDiGraph(H, 'K', 'sym')
    H._vc_havoc('copy')
    h1 = H.snap()
    for lbl, f in copy_facts(th, g0, h0, K.snap(), h1, True, True):
        vc.assume(f)
    k = ModelProxy(ctx, m._cls, K)
    return ctx.record('copy', (), k)


def copy_pre(th, g, h, elfi):
    f = rn_pre(th, g, h, elfi) + [('model representation', elfi_rep(th, g, h, elfi)), ('heap closed', _closed(th, h))]
    if elfi:
        f.append(('the model has a name', h.has(g.gref, th.klit('name'))))
    else:
        O = th.klit('observed')
        f.append(("a graph-level 'observed' entry, if any, is a dict", z3.Implies(h.has(g.gref, O), th.Val.is_vref(h.val(g.gref, O)))))
    return f


def _closed(th, h):
    return th.forall_ref_key(lambda r, k: z3.Implies(z3.And(h.alloc(r), h.has(r, k), th.Val.is_vref(h.val(r, k))), h.alloc(th.Val.ref_of(h.val(r, k)))))


class Copy(C14Contract):
    """GraphicalModel.copy with self: GraphicalModel | ElfiModel, and ElfiModel.copy"""
    nodes, refs = 3, 20

    def __init__(self, where, cls):
        self.where, self.cls = where, cls
        self.target = (GMF + '::GraphicalModel.copy') if where == 'GraphicalModel' else (EMF + '::ElfiModel.copy')
        self.label = 'self:' + cls
        self.elfi = cls == 'ElfiModel'

    def setup(self, vc):
        s = self.base_setup(vc)
        if self.where == 'ElfiModel':
            s.ctx.stubs[('GraphicalModel', 'copy')] = stub_copy_base
        return s, (s.m,), {}

    def requires(self, s):
        return copy_pre(s.th, s.g0, s.h0, self.elfi)

    # a repaired copy() walks over the copy's nodes and replaces each state dict by a shallow copy of it
    def _n_loops(self):
        loc = instrument.locate(self.target)
        return len(instrument.loops_in_source_order(loc.node))

    def _inv(self, s, l):
        th, g0, h0 = s.th, s.g0, s.h0
        lib = s.ctx.vc.libcalls.get('nx.DiGraph')
        if not lib:
            raise OutOfSubset('copy: loop before the graph is copied')
        K, hc = lib[-1]['copy'], lib[-1]['heap']            # the copy's graph, the heap right after nx.DiGraph(G)
        gk, hh = K.snap(), s.H.snap()
        A = th.klit('attr_dict')
        vis = l.it.visited
        srh = lambda x: stateref(th, gk, hh, x)
        sr0 = lambda x: stateref(th, g0, h0, x)
        newdata = lambda r: th.exists_nodes(lambda x: z3.And(g0.node(x), r == gk.nattr(x)))
        return [('the copy graph itself is not modified', z3.BoolVal(K.node is lib[-1]['copy_node'] if 'copy_node' in lib[-1] else True)),
                ('visited nodes hold a NEW state dict with the contents of the original state; different nodes, different dicts',
                 z3.And(th.forall_nodes(lambda x: z3.Implies(vis(x), z3.And(hh.has(gk.nattr(x), A), th.Val.is_vref(hh.val(gk.nattr(x), A)), z3.Not(hc.alloc(srh(x))), hh.alloc(srh(x)),
                                                                             th.forall_keys(lambda k: z3.And(hh.has(srh(x), k) == h0.has(sr0(x), k), hh.val(srh(x), k) == h0.val(sr0(x), k)))))),
                        th.forall_nodes(lambda x, y: z3.Implies(z3.And(vis(x), vis(y), x != y), srh(x) != srh(y)), 2))),
                ('unvisited nodes still hold what nx.DiGraph(G) gave them', th.forall_nodes(lambda x: z3.Implies(z3.And(g0.node(x), z3.Not(vis(x))), z3.And(
                    hh.has(gk.nattr(x), A) == hc.has(gk.nattr(x), A), hh.val(gk.nattr(x), A) == hc.val(gk.nattr(x), A))))),
                ("of the dicts that existed after nx.DiGraph(G), only the 'attr_dict' slots of the copy's node data dicts are written",
                 th.forall_ref_key(lambda r, k: z3.Implies(z3.And(hc.alloc(r), z3.Not(z3.And(k == A, newdata(r)))), z3.And(hh.has(r, k) == hc.has(r, k), hh.val(r, k) == hc.val(r, k))))),
                ('allocation only grows', th.forall_refs(lambda r: z3.Implies(hc.alloc(r), hh.alloc(r))))]

    @property
    def loops(self):
        if self.where == 'GraphicalModel' and self._n_loops() >= 1:
            return {0: Loop(inv=self._inv, modifies=lambda s, l: [s.H])}
        return {}

    def ensures(self, s, result):
        if not isinstance(result, ModelProxy):
            raise OutOfSubset('copy returned %s' % type(result).__name__)
        g0 = s.g0
        same = s.G.node is g0.node and s.G.edge is g0.edge and s.G.param is g0.param and s.G.nattr is g0.nattr and s.G.gref is g0.gref
        return copy_facts(s.th, g0, s.h0, result.source_net.snap(), s.H.snap(), self.elfi, same) + \
            [('the copy has the class of the original', z3.BoolVal(result._cls == self.cls))]


# ---------------------------------------------------------------------- NodeReference.become
class RefProxy:
    """a NodeReference: `name`, `model` are plain attributes; everything else (the `state` property) is the real code"""

    def __init__(self, ctx, name, model):
        self.__dict__.update(_ctx=ctx, _cls='NodeReference', name=name, model=model, _class_set=None)

    def __getattr__(self, attr):
        if attr.startswith('_vc_') or attr.startswith('__'):
            raise AttributeError(attr)
        return _lookup(self._ctx, self, 'NodeReference', attr)

    def __setattr__(self, attr, value):
        if attr == '__class__':
            self.__dict__['_class_set'] = value
            return
        self.__dict__[attr] = value

    def _vc_isinstance(self, cls):
        if isinstance(cls, _Opaque) and cls.what == 'NodeReference':
            return True
        if isinstance(cls, SVal):           # the class object stored in a state dict: nothing is known about it
            return SBool(cur().fresh('isinstance', z3.BoolSort()))
        raise OutOfSubset('isinstance(<node reference>, %r)' % (cls,))


class Become(C14Contract):
    target = EMF + '::NodeReference.become'

    def __init__(self, same):
        self.same = same
        self.label = 'same-model' if same else 'other-model'
        if not same:
            self.cover, self.allow_no_obligations = False, True

    def setup(self, vc):
        s = self.base_setup(vc)
        ctx, th = s.ctx, s.th
        rank = z3.Function('rank', th.Node, z3.IntSort())
        Dp = z3.Function('D', th.Node, z3.BoolSort())
        ctx.ghost = NS(rank=lambda x: rank(x), N=z3.Int('N'), D=lambda x: Dp(x))
        ctx.stubs[('ElfiModel', 'update_node')] = make_stub_update_node('elfi')
        s.node, s.upd = self.name(s, 'self.name'), self.name(s, 'other_node.name')
        s.me = RefProxy(ctx, s.node, s.m)
        s.other = RefProxy(ctx, s.upd, s.m if self.same else ModelProxy(ctx, 'ElfiModel', SDiGraph(ctx.H, 'G2', 'sym')))
        return s, (s.me, s.other), {}

    def requires(self, s):
        gh = s.ctx.ghost
        return un_pre(s.th, s.g0, s.h0, s.node.t, s.upd.t, True, gh.rank, gh.N, gh.D)

    def raises(self, s):
        return {'ValueError': z3.BoolVal(not self.same)}

    def iff_raises(self, s):
        return [('normal return only if both references belong to one model', z3.BoolVal(self.same))]

    def ensures(self, s, result):
        gh = s.ctx.ghost
        g1, h1 = s.G.snap(), s.H.snap()
        calls = s.ctx.calls.get('update_node', [])
        return un_facts(s.th, s.g0, s.h0, g1, h1, s.node.t, s.upd.t, 'elfi', gh.rank, gh.N, gh.D) + un_kept(s.th, g1, h1, True) + \
            [('the other reference now points to the replaced node in the same model',
              z3.And(z3.BoolVal(s.other.model is s.m and s.me.model is s.m), s.other.name.t == s.node.t, s.me.name.t == s.node.t)),
             ('the model is edited exactly once', z3.BoolVal(len(calls) == 1))]


# ---------------------------------------------------------------------- composition of the independence argument
class LemmaIndependenceStep(Contract):
    target = '@verif/lemmas/c14_lemmas.py::lemma_independence_step'
    prop = 'C14'
    fin = 3

    def setup(self, vc):
        ctx = Ctx(vc, 3, 8)
        th = ctx.th
        B = z3.BoolSort()
        f = lambda n, *so: z3.Function(n, *so)
        s = NS(th=th, ownK=f('ownedK', th.Ref, B), ownK1=f("ownedK'", th.Ref, B), ownM=f('ownedM', th.Ref, B), alloc=f('alloc0', th.Ref, B),
               has0=f('has0', th.Ref, th.Key, B), has1=f('has1', th.Ref, th.Key, B), val0=f('val0', th.Ref, th.Key, th.Val), val1=f('val1', th.Ref, th.Key, th.Val))
        return s, (), {}

    def requires(self, s):
        th = s.th
        same = lambda r, k: z3.And(s.has1(r, k) == s.has0(r, k), s.val1(r, k) == s.val0(r, k))
        return [('sep(K, M) (post of copy)', th.forall_refs(lambda r: z3.Implies(s.ownK(r), z3.Not(s.ownM(r))))),
                ("the original's dicts exist", th.forall_refs(lambda r: z3.Implies(s.ownM(r), s.alloc(r)))),
                ('frame of the mutator applied to K', th.forall_ref_key(lambda r, k: z3.Implies(z3.Not(same(r, k)), z3.Or(s.ownK(r), z3.Not(s.alloc(r)))))),
                ("owned(K') is within owned(K) + new dicts", th.forall_refs(lambda r: z3.Implies(s.ownK1(r), z3.Or(s.ownK(r), z3.Not(s.alloc(r))))))]

    def ensures(self, s, result):
        th = s.th
        return [("no slot of a dict of the original's view is written",
                 th.forall_ref_key(lambda r, k: z3.Implies(s.ownM(r), z3.And(s.has1(r, k) == s.has0(r, k), s.val1(r, k) == s.val0(r, k))))),
                ("sep(K', M) again", th.forall_refs(lambda r: z3.Implies(s.ownK1(r), z3.Not(s.ownM(r)))))]


CONTRACTS = [AddNode(), GetParents(), AddEdge('default'), AddEdge('given'), AddEdge('badtype'),
             RemoveNode('GraphicalModel', 'GraphicalModel'), RemoveNode('GraphicalModel', 'ElfiModel'), RemoveNode('ElfiModel', 'ElfiModel'),
             UpdateNode('GraphicalModel', 'GraphicalModel'), UpdateNode('GraphicalModel', 'ElfiModel'), UpdateNode('ElfiModel', 'ElfiModel'),
             ParameterNamesGet(), ParameterNamesSet(),
             Copy('GraphicalModel', 'GraphicalModel'), Copy('GraphicalModel', 'ElfiModel'), Copy('ElfiModel', 'ElfiModel'),
             Become(True), Become(False), LemmaIndependenceStep()]


def _ALL():
    return CONTRACTS


TRUSTED_BASE = ["Lean lemma L4a (lemmas/L4.lean, re-checked in the thorough tier): an invariant preserved by every operation holds after ANY finite sequence of operations; the reading that its hypothesis is the conjunction of this module's per-operation obligations is not mechanised; L4c: systems driven by the same operations from related states stay related (a copy with an equal view behaves like the original)",
                'pyvc engine: proxies, path forking, loop cutting, instrumenter rewrites D1-D2, T1-T6',
                'pyvc.nxspec: model of networkx.DiGraph (add_node/add_edge/add_edges_from/remove_node/predecessors/edges/in_edges/degree/nodes/graph, '
                'DiGraph(G) = shallow copy), of python dict (heap of dict objects with identity), set and list (sorted = ordered permutation); '
                'the facts about the installed networkx 3.6.1 are sanity-tested every run',
                'python str comparison is a strict total order; name[0] == "_" is an uninterpreted predicate of the name',
                'virtual dispatch / super() resolution: method table (class bodies, bases, property decorators) read from the tree at run time']
ASSUMPTIONS = ['A-LOG: logging calls have no effect',
               'graphs are finite (the acyclicity witness is a rank with values in [0, N))',
               'dict keys: node-name keys and literal-string keys never meet in one dict (observed is keyed by names, state / data / graph dicts by literals)',
               'update_node / become: the replacement is not a descendant of the replaced node and is not a private constant that feeds other nodes '
               '(otherwise the result is cyclic resp. the call raises KeyError half-way); derived from the call sites of become()',
               "every edge carries a 'param' (GraphicalModel.add_edge is the only writer of edges in elfi and always passes one)",
               'termination of the recursive remove_node is not proved (partial correctness; every call removes a node of a finite graph)']
NOT_PROVED = ['A copy, and a model saved and loaded again, generates the same seeded outputs as the original  [proved: the copy has an equal view '
              '(nodes, edges, params, state contents, observed contents); generate() equality and the pickle round trip are bounded only]',
              'After any SEQUENCE of edits ... [proved per operation as preservation of model_ok; the step to arbitrary sequences is Lean lemma L4a (lemmas/L4.lean) applied to those per-operation obligations - that application is a reading, not mechanised; sequences are also exercised by the bounded stand-in]',
              'add_edge after a removal can reuse a positional index that is still taken (param = number of positional parents): outside the statement '
              '(adding nodes builds fresh children, for which the clause param = 0, 1, ... is proved)']


def sanity():
    return nxspec.sanity() + _sanity_tree()


def _sanity_tree():
    """the class table the dispatch resolution relies on"""
    try:
        ok = mro('ElfiModel') == ['ElfiModel', 'GraphicalModel'] and resolve('ElfiModel', 'get_parents') == 'GraphicalModel'
    except Exception:
        ok = False
    return [('class table: ElfiModel(GraphicalModel), get_parents inherited', ok)]


def bounded(tier, seed):
    from bounded import c14 as b
    return [b.run(tier, seed)]


_replay_cache = {}
_RELEVANT = {'get_parents': ['c14:get_parents', 'c14:add'], 'parameter_names': ['c14:parameter_names'],
             'remove_node': ['c14:remove', 'c14:model_ok', 'c14:become'], 'update_node': ['c14:become', 'c14:model_ok'],
             'add_node': ['c14:add', 'c14:exception'], 'add_edge': ['c14:add', 'c14:model_ok', 'c14:get_parents'],
             'copy': ['c14:copy-independence', 'c14:copy-view', 'c14:copy-generate'], 'become': ['c14:become']}


def replay_refuted(cname, rf):
    """look for a failing native input of the executable property for a refuted obligation (the counter-model itself is a
    symbolic graph; the bounded edit-sequence harness on the real classes is the replay vehicle)"""
    from bounded import c14 as b
    if '.copy' in cname and 'independence' in rf.get('kind', ''):
        j = 1 if 'observed' in rf.get('kind', '') else 0
        if ('indep', j) not in _replay_cache:
            _replay_cache[('indep', j)] = b.independence_probe(j)
        r = _replay_cache[('indep', j)]
        if r:
            return dict(found=True, input=r[0], observed=r[1])
    if 'all' not in _replay_cache:
        _replay_cache['all'] = b.run('thorough', 0, first_failure_only=False, check_independence=False)
    fs = _replay_cache['all']['failures']
    want = [sig for key, sigs in _RELEVANT.items() if key in cname for sig in sigs]
    for f in sorted(fs, key=lambda f: (f['signature'] not in want)):
        return dict(found=True, input=f['input'], observed=f['what'], signature=f['signature'])
    return dict(found=False, searched=_replay_cache['all']['bound'], cases=_replay_cache['all']['cases'])


def replay_input(inp):
    from bounded import c14 as b
    return b.replay_input(inp)

USES_LEAN_LEMMAS = ['L4a invariant after any operation sequence', 'L4c simulation after any operation sequence']      # re-checked with lean (selftest/lean_check.sh) in the thorough tier
