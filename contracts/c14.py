"""C14 - Editing, copying and saving a model preserves its structure and meaning.

Functions under contract (real bodies, read from the tree at run time and executed over the symbolic networkx /
dict-heap proxies of pyvc.nxspec): GraphicalModel.add_node / add_edge / get_parents / remove_node / update_node / copy,
ElfiModel.remove_node / update_node / parameter_names (getter, setter) / copy, NodeReference.become.
One-line helpers they call (has_node, get_state, nodes, observed / name properties) are INLINED: their real bodies are
located and run the same way.  Calls of a method that has its own contract go through that contract (assumed post,
havoc of the graph and heap); `self.m(...)` is resolved against the ANALYSED class with the method table read from
the tree (virtual dispatch), `super(ElfiModel, self).m` and `GraphicalModel.m(self, ...)` against the base class.

View of a model (spec side, independent of the code):
  nodes  node(n)                     edges  edge(u, v) with param(u, v)
  state  stateref(n) = the dict held under 'attr_dict' in the node's data dict; its contents
  observed  the dict held under 'observed' in the graph dict, keyed by node names
model_ok := edges join nodes, positional params of each child pairwise distinct (NOT contiguous), observed keys are nodes,
            [no isolated private node], [acyclic: witnessed by a ghost rank function].
"""
MANIFEST = {
    'category': 'proof',
    'text': 'The real bodies of GraphicalModel.add_node/add_edge/get_parents/remove_node/update_node/copy, ElfiModel.remove_node/'
            'update_node/parameter_names (getter and setter)/copy and NodeReference.become are executed over a symbolic networkx DiGraph '
            '(uninterpreted node sort, edge/param relations, per-node data-dict references on an explicit dict heap) and every '
            'clause of the property that speaks about structure (children kept, state/parents/observed data handed over, private '
            'constants and observed data removed with their node, frame, parameter names sorted and exact, distinct positional params, '
            'acyclicity by an explicit rank witness, copy = equal view on disjoint mutable locations) is an SMT obligation for all graphs; '
            'loops over node/edge sets are cut at visited-set invariants (iteration-order independent), the recursion of remove_node '
            'uses its own contract with virtual dispatch resolved from the tree. Equality of seeded generate() between a model and '
            'its copy / reloaded pickle and whole edit histories are covered by the labelled bounded stand-in (enumerated edit '
            'sequences on the real classes), which is also the replay vehicle.',
    'note': 'Trusted: pyvc engine, pyvc.nxspec (networkx DiGraph / dict / set / list model, sanity-tested on the installed networkx every run), '
            'python str order is a strict total order, A-LOG. Termination of remove_node is not proved. generate()/pickle equality is bounded only.',
    'technique': 'deductive: SMT VCs from the real AST over a symbolic graph + dict heap (pyvc, z3/cvc5), set-iteration invariants, modular '
                 'recursion; bounded stand-in: edit sequences <= 5 (quick) / 6 (thorough) steps with copy and save/load',
}

import ast
import operator

import z3

from pyvc import instrument, nxspec, pyspec
from pyvc.core import cur, OutOfSubset, program_exception
from pyvc.engine import Contract, Loop, NS, Runtime
from pyvc.nxspec import SDiGraph, SDict, SVal, SNodeName, SNodeSet, SList, SParam, Heap, theory
from pyvc.values import SInt, SBool, Sym

GMF = 'elfi/model/graphical_model.py'
EMF = 'elfi/model/elfi_model.py'
CLASS_FILE = {'GraphicalModel': GMF, 'ElfiModel': EMF, 'NodeReference': EMF}


# ====================================================================== class table read from the tree
def class_node(cls):
    src, tree = instrument._parse(CLASS_FILE[cls])
    for n in tree.body:
        if isinstance(n, ast.ClassDef) and n.name == cls:
            return n
    raise OutOfSubset('class %s not found' % cls)


def mro(cls):
    out = [cls]
    while True:
        bases = [b.id for b in class_node(out[-1]).bases if isinstance(b, ast.Name)]
        if not bases:
            return out
        if len(bases) != 1 or bases[0] not in CLASS_FILE:
            raise OutOfSubset('class %s has bases %s' % (out[-1], bases))
        out.append(bases[0])


def defs_of(cls, name):
    """definitions of `name` in the class body, in source order -> list of (ordinal, is_property_getter, is_setter)"""
    out = []
    for n in class_node(cls).body:
        if isinstance(n, ast.FunctionDef) and n.name == name:
            decs = [ast.unparse(d) for d in n.decorator_list]
            out.append((len(out), 'property' in decs, any(d.endswith('.setter') for d in decs)))
    return out


def resolve(cls, name, skip_until=None):
    """defining class of attribute `name` for an object of class `cls` (search starts AFTER `skip_until` for super())"""
    chain = mro(cls)
    if skip_until is not None:
        chain = chain[chain.index(skip_until) + 1:]
    for c in chain:
        if defs_of(c, name):
            return c
    return None


# ====================================================================== execution context shared by the proxies of one path
class Ctx:
    def __init__(self, vc, nodes=4, refs=16):
        self.vc = vc
        self.th = theory(vc, nodes=nodes, refs=refs)
        self.H = Heap(self.th)
        self.th.default_heap = self.H
        self.stubs = {}         # (defining class, method name) -> spec(model, *args, **kw)
        self.calls = {}         # method name -> [(args, result)] of the stub calls made on this path
        self.ranks = []         # ghost rank functions (Node -> Int) the callee contracts are instantiated with
        self._real = {}
        self.rt = Runtime(vc, None, None)

    def env(self):
        return {'nx': nxspec.module(), 'networkx': nxspec.module(), 'itemgetter': operator.itemgetter,
                'super': lambda cls, obj: obj._vc_super_of(cls), 'GraphicalModel': ClassProxy(self, 'GraphicalModel'),
                'ElfiModel': ClassProxy(self, 'ElfiModel'), 'random_name': lambda *a, **k: _Opaque('random_name'),
                'NodeReference': _Opaque('NodeReference')}

    def real(self, cls, name, ordinal=None):
        """the instrumented REAL function cls.name (inlined callee)"""
        key = (cls, name, ordinal)
        if key not in self._real:
            target = '%s::%s.%s%s' % (CLASS_FILE[cls], cls, name, '' if ordinal is None else '#%d' % ordinal)
            loc = instrument.locate(target)
            code, stats, text = instrument.instrument(loc, ())
            g = pyspec.make_globals()
            g.update(self.env())
            g['__vc__'] = self.rt
            exec(code, g)
            self._real[key] = g[loc.node.name]
        return self._real[key]

    def record(self, name, args, result):
        self.calls.setdefault(name, []).append((args, result))
        return result


class _Opaque:
    def __init__(self, what):
        self.what = what

    def __format__(self, spec):
        return '<%s>' % self.what

    def __repr__(self):
        return '<%s>' % self.what


def _lookup(ctx, obj, cls, name, skip_until=None):
    """attribute `name` of a model object of class `cls`: a stub (callee under contract) or the inlined real code"""
    d = resolve(cls, name, skip_until)
    if d is None:
        raise OutOfSubset('%s has no attribute %s in the tree' % (cls, name))
    ds = defs_of(d, name)
    if ds[0][1]:                                        # property: run the getter
        if (d, name) in ctx.stubs:
            return ctx.stubs[(d, name)](obj)
        return ctx.real(d, name, 0)(obj)
    if (d, name) in ctx.stubs:
        spec = ctx.stubs[(d, name)]
        return lambda *a, **k: spec(obj, *a, **k)
    fn = ctx.real(d, name)
    return lambda *a, **k: fn(obj, *a, **k)


class ModelProxy:
    """`self` of a GraphicalModel / ElfiModel method: one real attribute (source_net), everything else resolved from the tree"""

    def __init__(self, ctx, cls, G=None):
        object.__setattr__(self, '_ctx', ctx)
        object.__setattr__(self, '_cls', cls)
        if G is not None:
            object.__setattr__(self, 'source_net', G)

    def __getattr__(self, name):
        if name.startswith('_vc_') or name.startswith('__'):
            raise AttributeError(name)
        return _lookup(self._ctx, self, self._cls, name)

    def __setattr__(self, name, value):
        if name == 'source_net':
            return object.__setattr__(self, name, value)
        d = resolve(self._cls, name)
        if d is None:
            return object.__setattr__(self, name, value)
        ds = defs_of(d, name)
        setters = [o for o, _, is_set in ds if is_set]
        if not setters:
            raise program_exception(AttributeError("property '%s' has no setter" % name))
        if (d, name + '.setter') in self._ctx.stubs:
            return self._ctx.stubs[(d, name + '.setter')](self, value)
        return self._ctx.real(d, name, setters[0])(self, value)

    @property
    def __class__(self):
        return ClassProxy(self._ctx, self._cls)

    def _vc_super_of(self, clsproxy):
        return _Super(self, clsproxy.cls)

    def _vc_super(self):
        raise OutOfSubset('zero-argument super() on a model proxy')

    def _vc_is(self, other):
        return self is other

    def __getitem__(self, name):
        return _lookup(self._ctx, self, self._cls, '__getitem__')(name)


class _Super:
    def __init__(self, obj, after):
        self.obj, self.after = obj, after

    def __getattr__(self, name):
        o = self.obj
        return _lookup(o._ctx, o, o._cls, name, skip_until=self.after)


class ClassProxy:
    """the class object: `Cls.m(self, ...)` is a NON-virtual call; `Cls()` constructs (contract of __init__ with defaults)"""

    def __init__(self, ctx, cls):
        self.ctx, self.cls = ctx, cls

    def __getattr__(self, name):
        if name.startswith('_vc_') or name.startswith('__'):
            raise AttributeError(name)
        ctx, cls = self.ctx, self.cls

        def unbound(obj, *a, **k):
            d = resolve(cls, name)
            if d is None:
                raise OutOfSubset('%s.%s' % (cls, name))
            if (d, name) in ctx.stubs:
                return ctx.stubs[(d, name)](obj, *a, **k)
            return ctx.real(d, name)(obj, *a, **k)
        return unbound

    def __call__(self, *a, **k):
        """Cls(): the REAL __init__ chain is run on a blank proxy (inlined)"""
        m = ModelProxy(self.ctx, self.cls)
        d = resolve(self.cls, '__init__')
        self.ctx.real(d, '__init__')(m, *a, **k)
        return m


# ====================================================================== spec functions over frozen states (independent of the code)
def LIT(th, s):
    return th.klit(s)


def obsref(th, g, h):
    """Ref of the observed-data dict of the model whose graph state is g, in heap state h"""
    return th.Val.ref_of(h.val(g.gref, th.klit('observed')))


def has_obs(th, g, h, n):
    return h.has(obsref(th, g, h), th.knode(n))


def obs_val(th, g, h, n):
    return h.val(obsref(th, g, h), th.knode(n))


def stateref(th, g, h, n):
    return th.Val.ref_of(h.val(g.nattr(n), th.klit('attr_dict')))


def graph_wf(th, g, h):
    """representation invariant of the networkx graph and its footprint (see SDiGraph.wf)"""
    return z3.And(th.forall_nodes(lambda u, v: z3.Implies(g.edge(u, v), z3.And(g.node(u), g.node(v))), 2),
                  th.forall_nodes(lambda u, v: z3.Implies(z3.And(g.node(u), g.node(v), u != v), g.nattr(u) != g.nattr(v)), 2),
                  th.forall_nodes(lambda u: z3.Implies(g.node(u), z3.And(h.alloc(g.nattr(u)), g.nattr(u) != g.gref))),
                  h.alloc(g.gref))


def edges_have_param(th, g):
    """every edge carries a 'param' (GraphicalModel.add_edge is the only writer of edges and always passes one)"""
    return th.forall_nodes(lambda u, v: z3.Implies(g.edge(u, v), z3.Not(th.Param.is_pabsent(g.param(u, v)))), 2)


def elfi_rep(th, g, h, elfi=True):
    """how an ElfiModel sits on the heap: graph['observed'] is a dict; every node's data dict holds its state dict under
    'attr_dict'; the state dicts of distinct nodes are distinct, and all these dicts are pairwise different objects"""
    V, A = th.Val, th.klit('attr_dict')
    o = obsref(th, g, h)
    sr = lambda n: stateref(th, g, h, n)
    facts = [th.forall_nodes(lambda n: z3.Implies(g.node(n), z3.And(h.has(g.nattr(n), A), V.is_vref(h.val(g.nattr(n), A)), h.alloc(sr(n)),
                                                                   sr(n) != g.gref))),
             th.forall_nodes(lambda a, b: z3.Implies(z3.And(g.node(a), g.node(b)), z3.And(sr(a) != g.nattr(b), z3.Implies(a != b, sr(a) != sr(b)))), 2)]
    if elfi:
        O = th.klit('observed')
        facts += [h.has(g.gref, O), V.is_vref(h.val(g.gref, O)), h.alloc(o), o != g.gref,
                  th.forall_nodes(lambda n: z3.Implies(g.node(n), z3.And(o != g.nattr(n), o != sr(n))))]
    return z3.And(facts)


def params_distinct(th, g):
    """model_ok: the positional params of each child are pairwise distinct"""
    return th.forall_nodes(lambda p, q, c: z3.Implies(z3.And(g.pos(p, c), g.pos(q, c), p != q), g.param(p, c) != g.param(q, c)), 3)


def observed_on_nodes(th, g, h):
    return th.forall_nodes(lambda n: z3.Implies(has_obs(th, g, h, n), g.node(n)))


def nbr(g, x, y):
    return z3.Or(g.edge(x, y), g.edge(y, x))


def no_isolated_private(th, g):
    return th.forall_nodes(lambda x: z3.Implies(z3.And(g.node(x), th.private(x)), th.exists_nodes(lambda y: nbr(g, x, y))))


def private_are_sources(th, g):
    return th.forall_nodes(lambda x, y: z3.Implies(g.edge(y, x), z3.Not(th.private(x))), 2)


def acyclic_by(th, g, rank):
    """rank strictly increases along every edge (=> no cycle)"""
    return th.forall_nodes(lambda u, v: z3.Implies(g.edge(u, v), rank(u) < rank(v)), 2)


def heap_same_except(th, h0, h1, changed):
    """every dict slot (r, k) is untouched unless changed(r, k); allocation unchanged"""
    return z3.And(th.forall_ref_key(lambda r, k: z3.Implies(z3.Not(changed(r, k)), z3.And(h1.has(r, k) == h0.has(r, k), h1.val(r, k) == h0.val(r, k)))),
                  th.forall_refs(lambda r: h1.alloc(r) == h0.alloc(r)))


# ====================================================================== contracts
class C14Contract(Contract):
    prop = 'C14'
    fin = 4
    nodes, refs = 4, 16            # finitised universe sizes
    cls = 'ElfiModel'              # class of `self`
    elfi = True

    def env(self, vc):
        return self._ctx.env()

    def base_setup(self, vc, graph=True):
        ctx = self._ctx = Ctx(vc, self.nodes, self.refs)
        th = ctx.th
        vc.axioms = th.name_order_axioms() if getattr(self, 'needs_order', False) else []
        G = SDiGraph(ctx.H, 'G', 'sym')
        m = ModelProxy(ctx, self.cls, G)
        s = NS(ctx=ctx, th=th, H=ctx.H, G=G, m=m)
        s.g0, s.h0 = G.snap(), ctx.H.snap()
        return s

    def name(self, s, nm):
        return SNodeName(z3.Const(nm, s.th.Node))

    def base_requires(self, s):
        r = [('networkx representation invariant', graph_wf(s.th, s.g0, s.h0))]
        if self.elfi:
            r.append(('ElfiModel representation', elfi_rep(s.th, s.g0, s.h0, self.cls == 'ElfiModel')))
        return r

    def witness(self, vc, model, ob):
        return dict(note='counter-model is a graph over the finitised node universe; replay by the bounded edit-sequence harness')


# ---------------------------------------------------------------------- add_node
class AddNode(C14Contract):
    target = GMF + '::GraphicalModel.add_node'

    def setup(self, vc):
        s = self.base_setup(vc)
        s.name = self.name(s, 'name')
        s.state = SDict(s.H, z3.Const('state', s.th.Ref))
        return s, (s.m, s.name, s.state), {}

    def requires(self, s):
        return [graph_wf(s.th, s.g0, s.h0), s.h0.alloc(s.state.ref)]

    def raises(self, s):
        return {'ValueError': s.g0.node(s.name.t)}

    def iff_raises(self, s):
        return [('raises iff the node is present', z3.Not(s.g0.node(s.name.t)))]

    def ensures(self, s, result):
        th, g0, h0, g1, h1, n = s.th, s.g0, s.h0, s.G.snap(), s.H.snap(), s.name.t
        A = th.klit('attr_dict')
        return [('nodes = old nodes + name', th.forall_nodes(lambda x: g1.node(x) == z3.Or(x == n, g0.node(x)))),
                ('edges and params unchanged', th.forall_nodes(lambda u, v: z3.And(g1.edge(u, v) == g0.edge(u, v), g1.param(u, v) == g0.param(u, v)), 2)),
                ('the new node holds exactly the given state dict', z3.And(h1.has(g1.nattr(n), A), h1.val(g1.nattr(n), A) == th.Val.vref(s.state.ref))),
                ('other nodes keep their data dicts', th.forall_nodes(lambda x: z3.Implies(g0.node(x), g1.nattr(x) == g0.nattr(x)))),
                ('no existing dict is written', th.forall_ref_key(lambda r, k: z3.Implies(h0.alloc(r), z3.And(h1.has(r, k) == h0.has(r, k), h1.val(r, k) == h0.val(r, k))))),
                ('networkx invariant kept', graph_wf(th, g1, h1))]


# ---------------------------------------------------------------------- get_parents
def gp_post(th, g, child, R, idx):
    """spec of get_parents: R lists exactly the positional parents of child, each once, by ascending param.
    idx(p) is the (ghost) position of parent p."""
    from pyvc.core import forall_range
    P = th.Param
    at = lambda i: R.elt(i).t
    return [('every element is a positional parent', forall_range(0, R.n, lambda i: g.pos(at(i), child), 'i')),
            ('every positional parent is listed', th.forall_nodes(lambda p: z3.Implies(g.pos(p, child), z3.And(idx(p) >= 0, idx(p) < R.n, at(idx(p)) == p)))),
            ('listed once', forall_range(0, R.n, lambda i: idx(at(i)) == i, 'i')),
            ('ascending positional param', forall_range(0, R.n, lambda i: forall_range(0, R.n, lambda j: z3.Implies(
                i <= j, P.pos_of(g.param(at(i), child)) <= P.pos_of(g.param(at(j), child))), 'j'), 'i'))]


class GetParents(C14Contract):
    target = GMF + '::GraphicalModel.get_parents'
    comprehensions = True
    fin = 4

    def setup(self, vc):
        s = self.base_setup(vc)
        s.child = self.name(s, 'child_name')
        return s, (s.m, s.child), {}

    def requires(self, s):
        return [graph_wf(s.th, s.g0, s.h0), edges_have_param(s.th, s.g0)]

    def _fresh_args(self, why):
        th = theory()
        vc = th.vc
        n = vc.fresh_int('args.n', nonneg=True, size=True)
        key = vc.fresh_fn('args.key', z3.IntSort(), th.Param)
        own = vc.fresh_fn('args.owner', z3.IntSort(), th.Node)
        idx = vc.fresh_fn('args.idx', th.Node, z3.IntSort())
        return SList(n, lambda i: (SParam(key(nxspec._zi(i))), SNodeName(own(nxspec._zi(i)))), ghost=idx)

    def _inv(self, s, l):
        from pyvc.core import forall_range
        th, g, c = s.th, s.g0, s.child.t
        L = l.args
        if isinstance(L, list):             # before the first iteration the local still holds the python list the code created
            if L:
                raise OutOfSubset('get_parents: accumulator list is not empty at loop entry')
            L = SList(z3.IntVal(0), self._fresh_args('init').elt)
        idx = L.ghost if L.ghost is not None else (lambda p: z3.IntVal(0))
        vis = l.it.visited
        key = lambda i: L.elt(i)[0].t
        own = lambda i: L.elt(i)[1].t
        return [('length', L.n >= 0),
                ('list entries are visited positional parents with their params',
                 forall_range(0, L.n, lambda i: z3.And(vis(own(i)), g.pos(own(i), c), key(i) == g.param(own(i), c), idx(own(i)) == i), 'i')),
                ('every visited positional parent is in the list',
                 th.forall_nodes(lambda p: z3.Implies(z3.And(vis(p), g.pos(p, c)), z3.And(idx(p) >= 0, idx(p) < L.n, own(idx(p)) == p))))]

    def _ghost_step(self, s, l0, l1):
        L = l1.args
        if isinstance(L, SList) and L.ghost is not None:
            old, cur_, n1 = L.ghost, l0.it.cur, L.n
            L.ghost = lambda p: z3.If(p == cur_, n1 - 1, old(p))

    @property
    def loops(self):
        L = Loop(inv=self._inv, fresh={'args': self._fresh_args}, ghost_step=self._ghost_step)
        L.rebind = ('args',)
        return {0: L}

    def raises(self, s):
        return {'NetworkXError': z3.Not(s.g0.node(s.child.t))}

    def iff_raises(self, s):
        return [('normal return only for an existing node', s.g0.node(s.child.t))]

    def ensures(self, s, result):
        if not isinstance(result, SList):
            raise OutOfSubset('get_parents returned %s' % type(result).__name__)
        head = s.rt.loopstate[0]['head']
        idx0 = head.args.ghost
        srt = s.ctx.vc.libcalls.get('sorted')
        if not srt:
            pos = idx0                      # no sort in the code: the list order is the iteration order (the clause will fail)
        else:
            pinv = srt[-1]['pinv']
            pos = lambda p: pinv(idx0(p))
        names = SList(result.n, lambda i: result.elt(i) if isinstance(result.elt(i), SNodeName) else _not_a_name(result.elt(i)))
        return gp_post(s.th, s.g0, s.child.t, names, pos)


def _not_a_name(v):
    raise OutOfSubset('get_parents returned a list of %s' % type(v).__name__)


def stub_get_parents(m, child):
    """callee under contract GetParents"""
    ctx = m._ctx
    th, vc, G = ctx.th, ctx.vc, m.source_net
    c = child.t
    if not vc.branch(G.node(c)):
        raise program_exception(nxspec.NetworkXError('The node is not in the digraph'))
    n = vc.fresh_int('parents.n', nonneg=True, size=True)
    at = vc.fresh_fn('parents.at', z3.IntSort(), th.Node)
    idx = vc.fresh_fn('parents.idx', th.Node, z3.IntSort())
    R = SList(n, lambda i: SNodeName(at(nxspec._zi(i))), ghost=idx)
    g = G.snap()
    for _, f in gp_post(th, g, c, R, idx):
        vc.assume(f)
    R.child, R.g = c, g
    return ctx.record('get_parents', (child,), R)


# ---------------------------------------------------------------------- add_edge
class AddEdge(C14Contract):
    target = GMF + '::GraphicalModel.add_edge'

    def __init__(self, mode):
        self.mode = self.label = mode        # default | given | badtype
        if mode == 'badtype':                # raise-only case: the single exit is `raise ValueError`, allowed unconditionally
            self.cover, self.allow_no_obligations = False, True

    def setup(self, vc):
        s = self.base_setup(vc)
        s.ctx.stubs[('GraphicalModel', 'get_parents')] = stub_get_parents
        s.parent, s.child = self.name(s, 'parent_name'), self.name(s, 'child_name')
        if self.mode == 'default':
            s.p = None
        elif self.mode == 'given':
            s.p = SParam(z3.Const('param_name', s.th.Param))
        else:
            s.p = _BadParam()
        return s, (s.m, s.parent, s.child) + (() if s.p is None else (s.p,)), {}

    def requires(self, s):
        r = [graph_wf(s.th, s.g0, s.h0)]
        if self.mode == 'given':
            r.append(z3.Not(s.th.Param.is_pabsent(s.p.t)))
        return r

    def raises(self, s):
        g = s.g0
        bad = z3.Or(z3.Not(g.node(s.parent.t)), z3.Not(g.node(s.child.t)))
        return {'ValueError': z3.BoolVal(True) if self.mode == 'badtype' else bad,
                'NetworkXError': z3.And(z3.BoolVal(self.mode == 'default'), z3.Not(g.node(s.child.t)))}

    def iff_raises(self, s):
        g = s.g0
        return [('normal return only if both nodes exist and the param is an int or a str',
                 z3.And(g.node(s.parent.t), g.node(s.child.t), z3.BoolVal(self.mode != 'badtype')))]

    def ensures(self, s, result):
        th, g0, g1, u, v = s.th, s.g0, s.G.snap(), s.parent.t, s.child.t
        if self.mode == 'given':
            newp = s.p.t
            extra = []
        else:
            calls = s.ctx.calls.get('get_parents', [])
            if len(calls) != 1:
                raise OutOfSubset('add_edge: expected one get_parents call, saw %d' % len(calls))
            R = calls[0][1]
            newp = th.Param.ppos(R.n)
            extra = [('default param = number of positional parents of the child (0 for a fresh child)',
                      z3.And(z3.eq(R.child, v), z3.Implies(th.forall_nodes(lambda p: z3.Not(g0.pos(p, v))), g1.param(u, v) == th.Param.ppos(0))))]
        return [('the edge is present with the param', z3.And(g1.edge(u, v), g1.param(u, v) == newp)),
                ('nodes unchanged', th.forall_nodes(lambda x: g1.node(x) == g0.node(x))),
                ('other edges unchanged', th.forall_nodes(lambda a, b: z3.Implies(z3.Not(z3.And(a == u, b == v)),
                                                                                  z3.And(g1.edge(a, b) == g0.edge(a, b), g1.param(a, b) == g0.param(a, b))), 2)),
                ('no dict is written', z3.BoolVal(s.H.has is s.h0.has and s.H.val is s.h0.val)),
                ("every edge still carries a 'param'", z3.Implies(edges_have_param(th, g0), edges_have_param(th, g1)))] + extra


class _BadParam:
    """a param_name that is neither int nor str"""

    def _vc_isinstance(self, cls):
        return False

    def __format__(self, spec):
        return '<object>'


def _ALL():
    return [AddNode(), GetParents(), AddEdge('default'), AddEdge('given'), AddEdge('badtype')]
