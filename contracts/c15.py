"""C15 - Batch sub-seeds are distinct and depend only on (seed, index).

Functions under contract: elfi/utils.py::get_sub_seed (3 case contracts: no cache / empty-or-filled
cache / index out of range), ghost lemmas G1, G2 (lemmas/c15_lemmas.py), two-call lemmas
(distinctness, uniqueness of the position).  Spec functions (independent of the code):
  draw(p)  p-th value of the uint32 stream RandomState(seed).randint(high, ...)   [seed, high fixed per VC]
  D(p)     number of distinct values among draw[0:p]:  D(0)=0, D(p+1)=D(p)+[draw(p) not in draw[0:p]]
Top-level postcondition (from the property text): result = draw(pos-1) with D(pos)=i+1, D(pos-1)=i, i.e. the
(i+1)-th distinct value of the stream - an expression that mentions neither the cache nor earlier requests.
"""
MANIFEST = {
    'category': 'proof',
    'text': 'get_sub_seed is verified against the spec "the (index+1)-th distinct value of the uint32 stream of the master seed" for all seeds, '
            'indices, ranges and cache states (loop invariant, no bound); distinctness, uniqueness of the stream position and the monotonicity '
            'lemmas are verified ghost lemmas; every obligation is generated from the current source and discharged by z3/cvc5. '
            'An exhaustive small-scope run of the same executable contract on the real function is the labelled bounded stand-in and replay vehicle.',
    'note': 'Trusted: pyvc engine and its numpy/builtins spec tables; numpy randint uint32 chunk invariance and range (sanity-tested every run); '
            'integers mathematical; termination of the drawing loop not proved; call sites: prepare_seed is under contract here (a cache handed to get_sub_seed must be dedicated to the master seed), '
            'the other call sites are listed by a syntactic census (no cache passed, or ownership / index sign proved by C02, C07, C18); a new call site of unknown kind is undecided.',
    'technique': 'deductive: loop-invariant VCs from the real AST (pyvc) + ghost lemma functions, z3/cvc5; bounded stand-in: exhaustive high<=5',
}

import z3

from pyvc.core import cur, forall_range, OutOfSubset
from pyvc.engine import Contract, Loop, NS
from pyvc.values import SInt, SBool, SOpt, Sym, lift, term as T
from pyvc.sarray import SArr, Cell

I = z3.IntSort()
draw = z3.Function('draw', I, I)
D = z3.Function('D', I, I)


def isnew(p):
    return forall_range(0, p, lambda q: draw(q) != draw(p), 'q')


def allnew(lo, hi):
    return forall_range(lo, hi, isnew, 'k')


def D_unfold(q):
    return D(q + 1) == D(q) + z3.If(isnew(q), 1, 0)


HIGH = z3.Int('high')


def axioms(vc):
    rng = forall_range(0, 10 ** 9 if vc.fin is None else 2 * vc.fin + 2, lambda q: z3.And(draw(q) >= 0, draw(q) < HIGH), 'q', vc=vc) \
        if vc.fin is not None else z3.ForAll([z3.Int('q_')], z3.Implies(z3.Int('q_') >= 0, z3.And(draw(z3.Int('q_')) >= 0, draw(z3.Int('q_')) < HIGH)))
    if vc.fin is None:
        p_ = z3.Int('p_')
        return [rng, D(0) == 0, z3.ForAll([p_], z3.Implies(p_ >= 0, D_unfold(p_)), patterns=[D(p_ + 1)])]
    return [z3.And([z3.And(draw(z3.IntVal(j)) >= 0, draw(z3.IntVal(j)) < HIGH) for j in range(0, 2 * vc.fin + 2)]), D(0) == 0] + \
        [D_unfold(z3.IntVal(j)) for j in range(0, 2 * vc.fin + 2)]


def G1(p, c):
    return z3.Implies(z3.And(p >= 0, c >= 0), z3.And(D(p + c) <= D(p) + c, D(p + c) >= D(p)))


def G2(p, c):
    return z3.Implies(z3.And(p >= 0, c >= 0, D(p + c) == D(p) + c), allnew(p, p + c))


# ---------------------------------------------------------------- proxies of the library objects
class RandomStateSpec(Sym):
    """numpy.random.RandomState on the stream of `seed`, with its ghost position.  Assumed contract
    (sanity-tested): randint(high, size=n, dtype='uint32') returns the next n values of a stream that
    does not depend on how it is chunked, each in [0, high)."""
    _vc_models = None

    def __init__(self, pos):
        self.pos = pos
        self.t = None

    def randint(self, high, size=None, dtype=None):
        vc = cur()
        if dtype != 'uint32':
            raise OutOfSubset('randint dtype %r' % (dtype,))
        n = lift(size).t
        vc.oblige('call-pre[randint size >= 0]', n >= 0)
        vc.oblige('call-pre[stream is the randint(high) stream of the contract]', lift(high).t == HIGH)
        ch = Chunk(self.pos, n)
        self.pos = self.pos + n
        return ch

    def _vc_havoc(self, name):
        self.pos = cur().fresh_int('pos', size=True)


class Chunk(SArr):
    """ndarray holding draw[start : start+n]"""
    __slots__ = ('start',)

    def __init__(self, start, n):
        SArr.__init__(self, Cell(lambda i: draw(start + i), (n,), 'int'))
        self.start = start


class PrefixSet(Sym):
    """python set constrained (representation invariant) to be values(draw[0:p]); len = D(p);
    update(chunk) requires the chunk to continue the prefix."""

    def __init__(self, p):
        self.p = p
        self.t = None

    def update(self, ch):
        if not isinstance(ch, Chunk):
            raise OutOfSubset('set.update with a non-stream argument')
        cur().oblige('call-pre[set holds a stream prefix and the chunk continues it]', ch.start == self.p)
        self.p = self.p + ch.shape[0]

    def _vc_len(self):
        return SInt(D(self.p))

    def _vc_havoc(self, name):
        self.p = cur().fresh_int('seen_p', size=True)


class CacheDict(Sym):
    """the dict `cache`: {} or {'random_state': rs, 'seen': set}"""

    def __init__(self, nonempty, rs, seen):
        self.nonempty, self.rs, self.seen = nonempty, rs, seen
        self.t = None

    def __bool__(self):
        return cur().branch(self.nonempty)

    def __getitem__(self, k):
        cur().oblige('call-pre[dict key present: %s]' % k, self.nonempty)
        return {'random_state': self.rs, 'seen': self.seen}[k]

    def __setitem__(self, k, v):
        if k == 'random_state':
            self.rs = v
        elif k == 'seen':
            self.seen = v
        else:
            raise OutOfSubset('cache key %r' % (k,))
        self.nonempty = z3.BoolVal(True)


def cache_ok(c):
    """cache = {} or (its generator is the stream of `seed` at position P and seen = values(draw[0:P]))"""
    if c is None:
        return z3.BoolVal(True)
    return z3.Or(z3.Not(c.nonempty), z3.And(c.rs.pos == c.seen.p, c.seen.p >= 0))


class _RandomModule:
    RandomState = None


def _rs_class():
    import numpy as np

    class RS:
        _vc_models = np.random.RandomState

        def __new__(cls, seed=None):
            return RandomStateSpec(z3.IntVal(0))
    return RS


class GetSubSeed(Contract):
    target = 'elfi/utils.py::get_sub_seed'
    prop = 'C15'
    fin = 6
    mode = 'nocache'       # nocache | cache

    def __init__(self, mode):
        self.mode = mode
        self.label = mode

    def env(self, vc):
        from pyvc import npspec
        RS = _rs_class()
        rnd = type('random', (), {'RandomState': RS})
        return {'np': npspec.module(extra={'random': rnd}), 'set': lambda: PrefixSet(z3.IntVal(0))}

    def setup(self, vc):
        vc.axioms = axioms(vc)
        seed, idx, high = z3.Ints('seed sub_seed_index high')
        s = NS(seed=SInt(seed), idx=idx, high=high)
        if self.mode == 'nocache':
            cache = None
        else:
            P = z3.Int('cache_pos')
            cache = CacheDict(z3.Bool('cache_nonempty'), RandomStateSpec(P), PrefixSet(P))
            vc.fin_bounds.append(P)
        vc.fin_bounds.extend([idx, high])
        s.cache = cache
        return s, (SInt(seed), SInt(idx)), dict(high=SInt(high), cache=cache)

    def requires(self, s):
        return [s.idx >= 0, s.high >= 1, cache_ok(s.cache)]

    # loop 0: `while n_unique != n_unique_required`
    def _inv(self, s, l):
        ss = l.sub_seeds
        if ss is None:
            isnone, start, n = z3.BoolVal(True), z3.IntVal(0), z3.IntVal(0)
        elif isinstance(ss, Chunk):
            isnone, start, n = z3.BoolVal(False), ss.start, ss.shape[0]
        else:
            isnone, start, n = ss.isnone, ss.val.start, ss.val.shape[0]
        rs, seen = l.random_state, l.seen
        nu, req = l.n_unique.t, l.n_unique_required.t
        return [('generator position = size of the prefix held by `seen`', z3.And(rs.pos == seen.p, seen.p >= 0)),
                ('n_unique = D(pos) <= required = index+1', z3.And(nu == D(seen.p), nu <= req, req == s.idx + 1)),
                ('no chunk drawn yet only while short', z3.Implies(isnone, nu < req)),
                ('last chunk ends at pos; when complete its last draw was new',
                 z3.Implies(z3.Not(isnone), z3.And(n >= 1, start + n == rs.pos, z3.Implies(nu == req, D(rs.pos - 1) == req - 1))))]

    def _fresh_sub_seeds(self, why):
        vc = cur()
        return SOpt(vc.fresh('ss_none', z3.BoolSort()), Chunk(vc.fresh_int('ss_start', size=True), vc.fresh_int('ss_n', size=True)))

    @property
    def loops(self):
        return {0: Loop(inv=self._inv,
                        modifies=lambda s, l: [l.random_state, l.seen],
                        fresh={'sub_seeds': self._fresh_sub_seeds},
                        at_head=lambda s, l: dict(pos=l.random_state.pos),
                        lemmas=lambda s, l0, l1: [G1(l0.h.pos, l0.n_unique_required.t - l0.n_unique.t),
                                                  G2(l0.h.pos, l0.n_unique_required.t - l0.n_unique.t)])}

    def raises(self, s):
        return {'ValueError': s.idx >= s.high}

    def iff_raises(self, s):
        return [('normal return only if index < high', s.idx < s.high)]

    def ensures(self, s, result):
        # `pos` is where the generator that produced the result stands at exit: it is the one stored in
        # the cache when there is one; without a cache the loop invariant pins it (ghost: last loop head)
        st = s.rt.loopstate[0]['head']
        pos = st.random_state.pos
        out = [('result is the (index+1)-th distinct value of the stream of `seed`',
                z3.And(result.t == draw(pos - 1), D(pos) == s.idx + 1, D(pos - 1) == s.idx)),
               ('0 <= result < high', z3.And(result.t >= 0, result.t < s.high))]
        if s.cache is not None:
            out.append(('cache_ok re-established (cache usable by any later request)', cache_ok(s.cache)))
            out.append(('cache filled', s.cache.nonempty))
        return out

    def witness(self, vc, model, ob):
        ev = lambda t: str(model.eval(t, model_completion=True))
        return dict(seed=0, sub_seed_index=ev(z3.Int('sub_seed_index')), high=ev(z3.Int('high')),
                    cache=self.mode, cache_nonempty=ev(z3.Bool('cache_nonempty')), cache_pos=ev(z3.Int('cache_pos')),
                    stream=[ev(draw(z3.IntVal(j))) for j in range(8)])


class LemmaG1(Contract):
    target = '@verif/lemmas/c15_lemmas.py::lemma_G1'
    prop = 'C15'
    fin = 5

    def env(self, vc):
        def unfold_D(q):
            vc.oblige('call-pre[unfold_D at q >= 0]', q.t >= 0)
            vc.assume(D_unfold(q.t))
        return {'unfold_D': unfold_D}

    def setup(self, vc):
        vc.axioms = [D(0) == 0]
        p, c = z3.Ints('p c')
        vc.fin_bounds.extend([p, c])
        return NS(p=p, c=c), (SInt(p), SInt(c)), {}

    def requires(self, s):
        return [s.p >= 0, s.c >= 0]

    loops = {0: Loop(inv=lambda s, l: [z3.And(T(l.k) >= 0, T(l.k) <= s.c), z3.And(D(s.p + T(l.k)) <= D(s.p) + T(l.k), D(s.p + T(l.k)) >= D(s.p))])}

    def ensures(self, s, result):
        return [('G1: D(p) <= D(p+c) <= D(p)+c', z3.And(D(s.p + s.c) <= D(s.p) + s.c, D(s.p + s.c) >= D(s.p)))]


class LemmaG2(LemmaG1):
    target = '@verif/lemmas/c15_lemmas.py::lemma_G2'

    def env(self, vc):
        e = LemmaG1.env(self, vc)

        def use_G1(p, c):
            vc.oblige('call-pre[G1: p >= 0, c >= 0]', z3.And(p.t >= 0, c.t >= 0))
            vc.assume(G1(p.t, c.t))        # proved by LemmaG1
        e['use_G1'] = use_G1
        return e

    def requires(self, s):
        return [s.p >= 0, s.c >= 0, D(s.p + s.c) == D(s.p) + s.c]

    loops = {0: Loop(inv=lambda s, l: [z3.And(T(l.k) >= 0, T(l.k) <= s.c), D(s.p + T(l.k)) == D(s.p) + T(l.k), allnew(s.p, s.p + T(l.k))])}

    def ensures(self, s, result):
        return [('G2: all draws in [p, p+c) are new', allnew(s.p, s.p + s.c))]


class LemmaUnique(Contract):
    target = '@verif/lemmas/c15_lemmas.py::lemma_unique_position'
    prop = 'C15'
    fin = 5

    def env(self, vc):
        def use_G1(p, c):
            vc.assume(G1(T(p), T(c)))       # G1 is conditional on p >= 0, c >= 0; proved by LemmaG1

        def unfold_D(q):
            vc.oblige('call-pre[unfold_D at q >= 0]', T(q) >= 0)
            vc.assume(D_unfold(T(q)))

        def instantiate_new(p, q):
            # isnew(p) => draw(q) != draw(p) for 0 <= q < p   (instance of the quantifier inside isnew)
            vc.assume(z3.Implies(z3.And(isnew(T(p)), T(q) >= 0, T(q) < T(p)), draw(T(q)) != draw(T(p))))
        return dict(use_G1=use_G1, unfold_D=unfold_D, instantiate_new=instantiate_new)

    def setup(self, vc):
        vc.axioms = [D(0) == 0]
        i, p1, p2 = z3.Ints('i p1 p2')
        vc.fin_bounds.extend([i, p1, p2])
        return NS(i=i, p1=p1, p2=p2), (SInt(i), SInt(p1), SInt(p2)), {}

    def requires(self, s):
        return [s.i >= 0, s.p1 >= 1, s.p2 >= 1, D(s.p1) == s.i + 1, D(s.p1 - 1) == s.i, D(s.p2) == s.i + 1, D(s.p2 - 1) == s.i]

    def ensures(self, s, result):
        return [('G3: the position of the (i+1)-th distinct value is unique', s.p1 == s.p2)]


class LemmaDistinct(LemmaUnique):
    target = '@verif/lemmas/c15_lemmas.py::lemma_distinct'

    def setup(self, vc):
        vc.axioms = [D(0) == 0]
        i, j, pi, pj = z3.Ints('i j pi pj')
        vc.fin_bounds.extend([i, j, pi, pj])
        return NS(i=i, j=j, pi=pi, pj=pj), (SInt(i), SInt(j), SInt(pi), SInt(pj)), {}

    def requires(self, s):
        return [s.i >= 0, s.i < s.j, s.pi >= 1, s.pj >= 1, D(s.pi) == s.i + 1, D(s.pi - 1) == s.i, D(s.pj) == s.j + 1, D(s.pj - 1) == s.j]

    def ensures(self, s, result):
        return [('distinct indices get distinct sub-seeds', draw(s.pi - 1) != draw(s.pj - 1))]


CONTRACTS = [GetSubSeed('nocache'), GetSubSeed('cache'), LemmaG1(), LemmaG2(), LemmaUnique(), LemmaDistinct()]

TRUSTED_BASE = ['numpy RandomState.randint(high, size, dtype=uint32): chunk-invariant stream with values in [0, high) (sanity-tested each run)',
                'python set of numpy scalars: len = number of distinct values',
                'pyvc engine: proxies, loop cutting, spec tables (see DESIGN 2)']
ASSUMPTIONS = ['A-INT: integers are mathematical', 'termination of the drawing loop is not proved (probabilistic for index close to high)',
               'A-LOG: logging calls have no effect']
NOT_PROVED = []



# ====================================================================== call sites of get_sub_seed
# "The seed derived for index i from a master seed is the same ... whatever indices were requested before" is a statement
# about what the CALLERS hand out, too: get_sub_seed's contract REQUIRES that a cache, if one is passed, is {} or a prefix
# of the stream of the SAME master seed (cache_ok is stated over draw(.) of that seed).  A caller that shares one cache
# between master seeds breaks the property although get_sub_seed itself is unchanged.
SUBSEED = z3.Function('sub_seed', I, I, I, I)        # sub_seed(master seed, index, high): by GetSubSeed + LemmaUnique a function of these alone
HIGH_DEFAULT = 2 ** 31


def gss_spec(vc, seed, sub_seed_index, high=HIGH_DEFAULT, cache=None):
    """get_sub_seed seen from a caller (its contract above): call-pre index >= 0; a cache must be {} or dedicated to this
    master seed; ValueError iff index >= high; the result is sub_seed(seed, index, high) in [0, high)."""
    from pyvc.core import program_exception
    from pyvc.engine import ModuleState
    sd, ix, hi = lift(seed), lift(sub_seed_index), lift(high)
    if not (isinstance(sd, SInt) and isinstance(ix, SInt) and isinstance(hi, SInt)):
        raise OutOfSubset('get_sub_seed(%s, %s, %s)' % (type(seed).__name__, type(sub_seed_index).__name__, type(high).__name__))
    vc.oblige('call-pre[get_sub_seed: index >= 0]', ix.t >= 0)
    if cache is None or (type(cache) is dict and len(cache) == 0):
        pass                                     # no cache, or a fresh empty dict created on this path: history-free
    elif isinstance(cache, ModuleState):
        vc.taint('the shared mutable object `%s` is passed as the sub-seed cache: which master seed filled it last is unknown' % cache._vc_name)
        vc.oblige('call-pre[get_sub_seed: the cache is {} or a stream prefix of THIS master seed (one cache per master seed)]', z3.BoolVal(False),
                  note='cache object `%s` outlives the call and is not tied to the master seed' % cache._vc_name)
    elif isinstance(cache, CacheDict) and getattr(cache, 'owner', None) is not None:
        vc.oblige('call-pre[get_sub_seed: the cache is {} or a stream prefix of THIS master seed (one cache per master seed)]',
                  z3.Or(z3.Not(cache.nonempty), cache.owner == sd.t))
    else:
        raise OutOfSubset('get_sub_seed cache of type %s' % type(cache).__name__)
    if vc.branch(ix.t >= hi.t):
        raise program_exception(ValueError('Sub seed index is out of range'))
    r = SUBSEED(sd.t, ix.t, hi.t)
    vc.assume(z3.And(r >= 0, r < hi.t))
    return SInt(r)


class _StateVec:
    def __init__(self, word):
        self.word = word

    def __getitem__(self, i):
        if isinstance(i, int) and not isinstance(i, bool) and i == 0:
            return SInt(self.word)
        raise OutOfSubset('state vector index %r' % (i,))


class _Generator:
    """numpy RandomState as prepare_seed sees it: get_state()[1][0] is the first word of the MT19937 key (for
    RandomState(s) with an integer s it is s itself; sanity-tested); get_state does not advance the generator"""

    def __init__(self, word):
        self.word = word
        self.reads = 0

    def get_state(self, legacy=True):
        self.reads += 1
        return ('MT19937', _StateVec(self.word), 624, 0, 0.0)


class PrepareSeed(Contract):
    target = 'elfi/model/tools.py::prepare_seed'
    prop = 'C15'
    fin = 4

    def __init__(self, mode):
        self.mode = mode            # 'index' | 'index=None' | 'no-index' | 'no-random_state'
        self.label = mode

    def env(self, vc):
        from pyvc.engine import Stub
        return {'get_sub_seed': Stub('get_sub_seed', gss_spec, checked_by='C15/get_sub_seed[nocache|cache] + lemma_unique_position')}

    def setup(self, vc):
        w, i = z3.Ints('state_word index_in_batch')
        vc.fin_bounds.extend([w, i])
        s = NS(w=w, i=i, x0=object(), other=object())
        kw = dict(other=s.other, batch_index=SInt(z3.Int('batch_index')))
        if self.mode != 'no-random_state':
            s.rs = kw['random_state'] = _Generator(w)
        if self.mode == 'index':
            kw['index_in_batch'] = SInt(i)
        elif self.mode == 'index=None':
            kw['index_in_batch'] = None
        s.kw = kw
        return s, (s.x0,), dict(kw)

    def requires(self, s):
        # index_in_batch is the row number run_vectorized enumerates (C18 proves 0 <= index < batch_size there)
        return [s.w >= 0, s.w < 2 ** 32, s.i >= 0, s.i < HIGH_DEFAULT]

    def ensures(self, s, result):
        if not (isinstance(result, tuple) and len(result) == 2 and isinstance(result[1], dict)):
            return [('returns (inputs, kwinputs)', z3.BoolVal(False))]
        inputs, kw = result
        out = [('positional inputs are passed through', z3.BoolVal(isinstance(inputs, tuple) and len(inputs) == 1 and inputs[0] is s.x0)),
               ('every other keyword argument is passed through unchanged',
                z3.BoolVal(all(k in kw and kw[k] is v for k, v in s.kw.items()) and set(kw) <= set(s.kw) | {'seed'}))]
        if self.mode == 'no-random_state':
            out.append(('no seed is invented without a random_state', z3.BoolVal('seed' not in kw)))
            return out
        idx = s.i if self.mode == 'index' else z3.IntVal(0)
        sd = kw.get('seed')
        out.append(('seed = sub_seed(state word of the generator, index_in_batch or 0): a function of (master seed, index) only - no cache, no earlier request enters',
                    z3.BoolVal(False) if not isinstance(lift(sd), SInt) else lift(sd).t == SUBSEED(s.w, idx, z3.IntVal(HIGH_DEFAULT))))
        return out

    def witness(self, vc, model, ob):
        ev = lambda t: str(model.eval(t, model_completion=True))
        return dict(mode=self.mode, state_word=ev(z3.Int('state_word')), index_in_batch=ev(z3.Int('index_in_batch')))


class CallSiteCensus:
    """every call of get_sub_seed in the tree (syntactic, driver protocol run_custom): a call site either passes no cache
    (then the GetSubSeed[nocache] contract makes the result history-free) or is one of the sites whose cache ownership is
    under contract; its index argument is non-negative by construction or by a named contract.  A NEW call site that
    passes a cache, or an index of unknown sign, is undecided (the evidence level drops), never a violation by itself."""
    target = 'elfi/utils.py::get_sub_seed'
    prop = 'C15'
    label = 'call-site census'
    cover = False
    loops = {}
    allow_no_obligations = False
    # file -> (function qualname, who proves the call-pre there)
    UNDER_CONTRACT = {
        ('elfi/loader.py', 'RandomStateLoader.load'): 'C02/RandomStateLoader.load (cache = context.caches["sub_seed"], created empty per context whose seed is immutable; index = batch_index >= 0) + bounded:sub-seed-call-sites',
        ('elfi/model/tools.py', 'prepare_seed'): 'C15/prepare_seed[*] (this module); index_in_batch >= 0: C18/run_vectorized',
        ('elfi/methods/inference/samplers.py', 'SMC._set_rejection_round'): 'C07/SMC._set_rejection_round call-pre (index = round >= 0, master seed)',
    }

    @property
    def cname(self):
        return 'get_sub_seed[%s]' % self.label

    def run_custom(self, tier, seed, repo):
        import ast
        import glob
        import os
        import time
        from pyvc import instrument
        out = dict(results=[], error=None, covers=0, covers_sat=0, stats={}, sha256=None, target=self.target, cname=self.cname,
                   label=self.label, refuted=[], fin_error=None, n_paths=0, samples=[])
        t0 = time.time()
        loc = instrument.locate(self.target, repo)
        out['sha256'], out['lineno'] = loc.sha256, loc.lineno
        root = repo or '/repo'
        counts = {}

        def emit(kind, verdict, note):
            n = counts.get(kind, 0)
            counts[kind] = n + 1
            nm = '%s/%s/%s#%d' % (self.prop, self.cname, kind, n)
            out['results'].append(dict(name=nm, kind=kind, verdict=verdict, backend='syntactic(ast)', seconds=0.0, note=note,
                                       reason=note if verdict == 'undecided' else None, expect='unsat', func='%s/%s' % (self.prop, self.cname)))
            if not out['samples']:
                out['samples'].append(dict(name=nm, note=note))
        n_sites = 0
        for path in sorted(glob.glob(os.path.join(root, 'elfi', '**', '*.py'), recursive=True)):
            rel = os.path.relpath(path, root)
            try:
                tree = ast.parse(open(path).read())
            except SyntaxError as e:
                emit('frame[call sites of get_sub_seed]', 'undecided', '%s does not parse: %s' % (rel, e))
                continue
            # qualname of the enclosing function of every node + for-range loop targets in scope
            def walk(node, qual, ranged):
                nonlocal n_sites
                for ch in ast.iter_child_nodes(node):
                    q, r = qual, ranged
                    if isinstance(ch, (ast.FunctionDef, ast.ClassDef)):
                        q = (qual + '.' if qual else '') + ch.name
                    if isinstance(ch, ast.For) and isinstance(ch.target, ast.Name) and isinstance(ch.iter, ast.Call) and isinstance(ch.iter.func, ast.Name) \
                            and ch.iter.func.id == 'range' and (len(ch.iter.args) == 1 or (isinstance(ch.iter.args[0], ast.Constant) and isinstance(ch.iter.args[0].value, int) and ch.iter.args[0].value >= 0)) \
                            and len(ch.iter.args) <= 2:
                        r = ranged | {ch.target.id}
                    if isinstance(ch, ast.Call) and ((isinstance(ch.func, ast.Name) and ch.func.id == 'get_sub_seed') or (isinstance(ch.func, ast.Attribute) and ch.func.attr == 'get_sub_seed')):
                        n_sites += 1
                        site = '%s:%d (%s)' % (rel, ch.lineno, qual or '<module>')
                        known = self.UNDER_CONTRACT.get((rel, qual))
                        has_cache = len(ch.args) >= 4 or any(k.arg == 'cache' or k.arg is None for k in ch.keywords) or any(isinstance(a, ast.Starred) for a in ch.args)
                        if not has_cache:
                            emit('frame[call site passes no cache: the derived seed is history-free by GetSubSeed[nocache]]', 'discharged', site)
                        elif known:
                            emit('frame[call site passes a cache whose ownership is under contract]', 'discharged', '%s: %s' % (site, known))
                        else:
                            emit('frame[call site passes a cache whose ownership is under contract]', 'undecided', '%s passes a cache and is not a site under contract' % site)
                        ix = ch.args[1] if len(ch.args) >= 2 and not any(isinstance(a, ast.Starred) for a in ch.args[:2]) else next((k.value for k in ch.keywords if k.arg == 'sub_seed_index'), None)
                        if known:
                            emit('frame[index argument is >= 0]', 'discharged', '%s: %s' % (site, known))
                        elif isinstance(ix, ast.Name) and ix.id in ranged:
                            emit('frame[index argument is >= 0]', 'discharged', '%s: `%s` is the target of a for-range loop' % (site, ix.id))
                        elif isinstance(ix, ast.Constant) and isinstance(ix.value, int) and ix.value >= 0:
                            emit('frame[index argument is >= 0]', 'discharged', '%s: literal %d' % (site, ix.value))
                        else:
                            emit('frame[index argument is >= 0]', 'undecided', '%s: index `%s` is not known to be non-negative' % (site, ast.unparse(ix) if ix is not None else '?'))
                    walk(ch, q, r)
            walk(tree, '', frozenset())
        if n_sites == 0:
            emit('frame[call sites of get_sub_seed]', 'undecided', 'no call site found: the census did not see the tree it expects')
        out['n_paths'] = len(out['results'])
        out['wall_s'] = round(time.time() - t0, 3)
        return out


CONTRACTS += [PrepareSeed('index'), PrepareSeed('index=None'), PrepareSeed('no-index'), PrepareSeed('no-random_state'), CallSiteCensus()]


def sanity():
    import numpy as np
    out = []
    a = np.random.RandomState(123).randint(1000, size=7, dtype='uint32')
    rs = np.random.RandomState(123)
    b = np.concatenate([rs.randint(1000, size=3, dtype='uint32'), rs.randint(1000, size=4, dtype='uint32')])
    out.append(('randint uint32 chunk invariance', bool((a == b).all())))
    out.append(('randint range', bool((np.random.RandomState(5).randint(3, size=200, dtype='uint32') < 3).all())))
    s = set()
    s.update(np.array([1, 1, 2], dtype='uint32'))
    out.append(('set of numpy scalars counts distinct values', len(s) == 2))
    g = np.random.RandomState(4711)
    w0 = int(g.get_state()[1][0])
    out.append(('RandomState(s).get_state()[1][0] == s and get_state does not advance the generator', w0 == 4711 and int(g.get_state()[1][0]) == 4711))
    return out


def bounded(tier, seed):
    from bounded import c15 as b
    return [b.run(tier, seed), b.run_call_sites(tier, seed)]


_replay_cache = {}


def replay_refuted(cname, rf):
    """a refuted obligation of get_sub_seed: look for a failing input of the executable contract on the real function"""
    from bounded import c15 as b
    if cname.startswith('prepare_seed'):
        if 'p' not in _replay_cache:
            r = b.run_call_sites('thorough', 0)
            f = [x for x in r['failures'] if x['input'].get('kind') == 'prepare_seed']
            _replay_cache['p'] = dict(found=True, input=f[0]['input'], observed=f[0]['what']) if f else dict(found=False, searched=r['bound'], cases=r['cases'])
        return _replay_cache['p']
    if 'r' in _replay_cache:
        return _replay_cache['r']
    _replay_cache['r'] = r = _replay_search(b)
    return r


def _replay_search(b):
    r = b.run('thorough', 0, first_failure_only=True, high_max=5, seeds=16, L=3)
    if r['failures']:
        f = r['failures'][0]
        return dict(found=True, input=f['input'], observed=f['what'])
    return dict(found=False, searched=r['bound'], cases=r['cases'])


def replay_input(inp):
    from bounded import c15 as b
    return b.replay_input(inp)
