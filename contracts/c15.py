"""C15 - Batch sub-seeds are distinct and depend only on (seed, index).

Functions under contract: elfi/utils.py::get_sub_seed (3 case contracts: no cache / empty-or-filled
cache / index out of range), ghost lemmas G1, G2 (lemmas/c15_lemmas.py), two-call lemmas
(distinctness, uniqueness of the position).  Spec functions (independent of the code):
  draw(p)  p-th value of the uint32 stream RandomState(seed).randint(high, ...)   [seed, high fixed per VC]
  D(p)     number of distinct values among draw[0:p]:  D(0)=0, D(p+1)=D(p)+[draw(p) not in draw[0:p]]
Top-level postcondition (from the property text): result = draw(pos-1) with D(pos)=i+1, D(pos-1)=i, i.e. the
(i+1)-th distinct value of the stream - an expression that mentions neither the cache nor earlier requests.
"""
MANIFEST = {
    'category': 'proof',
    'text': 'get_sub_seed is verified against the spec "the (index+1)-th distinct value of the uint32 stream of the master seed" for all seeds, '
            'indices, ranges and cache states (loop invariant, no bound); distinctness, uniqueness of the stream position and the monotonicity '
            'lemmas are verified ghost lemmas; every obligation is generated from the current source and discharged by z3/cvc5. '
            'An exhaustive small-scope run of the same executable contract on the real function is the labelled bounded stand-in and replay vehicle.',
    'note': 'Trusted: pyvc engine and its numpy/builtins spec tables; numpy randint uint32 chunk invariance and range (sanity-tested every run); '
            'integers mathematical; termination of the drawing loop not proved; call sites of get_sub_seed (loader, tools, samplers, bolfi) are covered by C02/C18 call-pre obligations, not here.',
    'technique': 'deductive: loop-invariant VCs from the real AST (pyvc) + ghost lemma functions, z3/cvc5; bounded stand-in: exhaustive high<=5',
}

import z3

from pyvc.core import cur, forall_range, OutOfSubset
from pyvc.engine import Contract, Loop, NS
from pyvc.values import SInt, SBool, SOpt, Sym, lift, term as T
from pyvc.sarray import SArr, Cell

I = z3.IntSort()
draw = z3.Function('draw', I, I)
D = z3.Function('D', I, I)


def isnew(p):
    return forall_range(0, p, lambda q: draw(q) != draw(p), 'q')


def allnew(lo, hi):
    return forall_range(lo, hi, isnew, 'k')


def D_unfold(q):
    return D(q + 1) == D(q) + z3.If(isnew(q), 1, 0)


HIGH = z3.Int('high')


def axioms(vc):
    rng = forall_range(0, 10 ** 9 if vc.fin is None else 2 * vc.fin + 2, lambda q: z3.And(draw(q) >= 0, draw(q) < HIGH), 'q', vc=vc) \
        if vc.fin is not None else z3.ForAll([z3.Int('q_')], z3.Implies(z3.Int('q_') >= 0, z3.And(draw(z3.Int('q_')) >= 0, draw(z3.Int('q_')) < HIGH)))
    if vc.fin is None:
        p_ = z3.Int('p_')
        return [rng, D(0) == 0, z3.ForAll([p_], z3.Implies(p_ >= 0, D_unfold(p_)), patterns=[D(p_ + 1)])]
    return [z3.And([z3.And(draw(z3.IntVal(j)) >= 0, draw(z3.IntVal(j)) < HIGH) for j in range(0, 2 * vc.fin + 2)]), D(0) == 0] + \
        [D_unfold(z3.IntVal(j)) for j in range(0, 2 * vc.fin + 2)]


def G1(p, c):
    return z3.Implies(z3.And(p >= 0, c >= 0), z3.And(D(p + c) <= D(p) + c, D(p + c) >= D(p)))


def G2(p, c):
    return z3.Implies(z3.And(p >= 0, c >= 0, D(p + c) == D(p) + c), allnew(p, p + c))


# ---------------------------------------------------------------- proxies of the library objects
class RandomStateSpec(Sym):
    """numpy.random.RandomState on the stream of `seed`, with its ghost position.  Assumed contract
    (sanity-tested): randint(high, size=n, dtype='uint32') returns the next n values of a stream that
    does not depend on how it is chunked, each in [0, high)."""
    _vc_models = None

    def __init__(self, pos):
        self.pos = pos
        self.t = None

    def randint(self, high, size=None, dtype=None):
        vc = cur()
        if dtype != 'uint32':
            raise OutOfSubset('randint dtype %r' % (dtype,))
        n = lift(size).t
        vc.oblige('call-pre[randint size >= 0]', n >= 0)
        vc.oblige('call-pre[stream is the randint(high) stream of the contract]', lift(high).t == HIGH)
        ch = Chunk(self.pos, n)
        self.pos = self.pos + n
        return ch

    def _vc_havoc(self, name):
        self.pos = cur().fresh_int('pos', size=True)


class Chunk(SArr):
    """ndarray holding draw[start : start+n]"""
    __slots__ = ('start',)

    def __init__(self, start, n):
        SArr.__init__(self, Cell(lambda i: draw(start + i), (n,), 'int'))
        self.start = start


class PrefixSet(Sym):
    """python set constrained (representation invariant) to be values(draw[0:p]); len = D(p);
    update(chunk) requires the chunk to continue the prefix."""

    def __init__(self, p):
        self.p = p
        self.t = None

    def update(self, ch):
        if not isinstance(ch, Chunk):
            raise OutOfSubset('set.update with a non-stream argument')
        cur().oblige('call-pre[set holds a stream prefix and the chunk continues it]', ch.start == self.p)
        self.p = self.p + ch.shape[0]

    def _vc_len(self):
        return SInt(D(self.p))

    def _vc_havoc(self, name):
        self.p = cur().fresh_int('seen_p', size=True)


class CacheDict(Sym):
    """the dict `cache`: {} or {'random_state': rs, 'seen': set}"""

    def __init__(self, nonempty, rs, seen):
        self.nonempty, self.rs, self.seen = nonempty, rs, seen
        self.t = None

    def __bool__(self):
        return cur().branch(self.nonempty)

    def __getitem__(self, k):
        cur().oblige('call-pre[dict key present: %s]' % k, self.nonempty)
        return {'random_state': self.rs, 'seen': self.seen}[k]

    def __setitem__(self, k, v):
        if k == 'random_state':
            self.rs = v
        elif k == 'seen':
            self.seen = v
        else:
            raise OutOfSubset('cache key %r' % (k,))
        self.nonempty = z3.BoolVal(True)


def cache_ok(c):
    """cache = {} or (its generator is the stream of `seed` at position P and seen = values(draw[0:P]))"""
    if c is None:
        return z3.BoolVal(True)
    return z3.Or(z3.Not(c.nonempty), z3.And(c.rs.pos == c.seen.p, c.seen.p >= 0))


class _RandomModule:
    RandomState = None


def _rs_class():
    import numpy as np

    class RS:
        _vc_models = np.random.RandomState

        def __new__(cls, seed=None):
            return RandomStateSpec(z3.IntVal(0))
    return RS


class GetSubSeed(Contract):
    target = 'elfi/utils.py::get_sub_seed'
    prop = 'C15'
    fin = 6
    mode = 'nocache'       # nocache | cache

    def __init__(self, mode):
        self.mode = mode
        self.label = mode

    def env(self, vc):
        from pyvc import npspec
        RS = _rs_class()
        rnd = type('random', (), {'RandomState': RS})
        return {'np': npspec.module(extra={'random': rnd}), 'set': lambda: PrefixSet(z3.IntVal(0))}

    def setup(self, vc):
        vc.axioms = axioms(vc)
        seed, idx, high = z3.Ints('seed sub_seed_index high')
        s = NS(seed=SInt(seed), idx=idx, high=high)
        if self.mode == 'nocache':
            cache = None
        else:
            P = z3.Int('cache_pos')
            cache = CacheDict(z3.Bool('cache_nonempty'), RandomStateSpec(P), PrefixSet(P))
            vc.fin_bounds.append(P)
        vc.fin_bounds.extend([idx, high])
        s.cache = cache
        return s, (SInt(seed), SInt(idx)), dict(high=SInt(high), cache=cache)

    def requires(self, s):
        return [s.idx >= 0, s.high >= 1, cache_ok(s.cache)]

    # loop 0: `while n_unique != n_unique_required`
    def _inv(self, s, l):
        ss = l.sub_seeds
        if ss is None:
            isnone, start, n = z3.BoolVal(True), z3.IntVal(0), z3.IntVal(0)
        elif isinstance(ss, Chunk):
            isnone, start, n = z3.BoolVal(False), ss.start, ss.shape[0]
        else:
            isnone, start, n = ss.isnone, ss.val.start, ss.val.shape[0]
        rs, seen = l.random_state, l.seen
        nu, req = l.n_unique.t, l.n_unique_required.t
        return [('generator position = size of the prefix held by `seen`', z3.And(rs.pos == seen.p, seen.p >= 0)),
                ('n_unique = D(pos) <= required = index+1', z3.And(nu == D(seen.p), nu <= req, req == s.idx + 1)),
                ('no chunk drawn yet only while short', z3.Implies(isnone, nu < req)),
                ('last chunk ends at pos; when complete its last draw was new',
                 z3.Implies(z3.Not(isnone), z3.And(n >= 1, start + n == rs.pos, z3.Implies(nu == req, D(rs.pos - 1) == req - 1))))]

    def _fresh_sub_seeds(self, why):
        vc = cur()
        return SOpt(vc.fresh('ss_none', z3.BoolSort()), Chunk(vc.fresh_int('ss_start', size=True), vc.fresh_int('ss_n', size=True)))

    @property
    def loops(self):
        return {0: Loop(inv=self._inv,
                        modifies=lambda s, l: [l.random_state, l.seen],
                        fresh={'sub_seeds': self._fresh_sub_seeds},
                        at_head=lambda s, l: dict(pos=l.random_state.pos),
                        lemmas=lambda s, l0, l1: [G1(l0.h.pos, l0.n_unique_required.t - l0.n_unique.t),
                                                  G2(l0.h.pos, l0.n_unique_required.t - l0.n_unique.t)])}

    def raises(self, s):
        return {'ValueError': s.idx >= s.high}

    def iff_raises(self, s):
        return [('normal return only if index < high', s.idx < s.high)]

    def ensures(self, s, result):
        # `pos` is where the generator that produced the result stands at exit: it is the one stored in
        # the cache when there is one; without a cache the loop invariant pins it (ghost: last loop head)
        st = s.rt.loopstate[0]['head']
        pos = st.random_state.pos
        out = [('result is the (index+1)-th distinct value of the stream of `seed`',
                z3.And(result.t == draw(pos - 1), D(pos) == s.idx + 1, D(pos - 1) == s.idx)),
               ('0 <= result < high', z3.And(result.t >= 0, result.t < s.high))]
        if s.cache is not None:
            out.append(('cache_ok re-established (cache usable by any later request)', cache_ok(s.cache)))
            out.append(('cache filled', s.cache.nonempty))
        return out

    def witness(self, vc, model, ob):
        ev = lambda t: str(model.eval(t, model_completion=True))
        return dict(seed=0, sub_seed_index=ev(z3.Int('sub_seed_index')), high=ev(z3.Int('high')),
                    cache=self.mode, cache_nonempty=ev(z3.Bool('cache_nonempty')), cache_pos=ev(z3.Int('cache_pos')),
                    stream=[ev(draw(z3.IntVal(j))) for j in range(8)])


class LemmaG1(Contract):
    target = '@verif/lemmas/c15_lemmas.py::lemma_G1'
    prop = 'C15'
    fin = 5

    def env(self, vc):
        def unfold_D(q):
            vc.oblige('call-pre[unfold_D at q >= 0]', q.t >= 0)
            vc.assume(D_unfold(q.t))
        return {'unfold_D': unfold_D}

    def setup(self, vc):
        vc.axioms = [D(0) == 0]
        p, c = z3.Ints('p c')
        vc.fin_bounds.extend([p, c])
        return NS(p=p, c=c), (SInt(p), SInt(c)), {}

    def requires(self, s):
        return [s.p >= 0, s.c >= 0]

    loops = {0: Loop(inv=lambda s, l: [z3.And(T(l.k) >= 0, T(l.k) <= s.c), z3.And(D(s.p + T(l.k)) <= D(s.p) + T(l.k), D(s.p + T(l.k)) >= D(s.p))])}

    def ensures(self, s, result):
        return [('G1: D(p) <= D(p+c) <= D(p)+c', z3.And(D(s.p + s.c) <= D(s.p) + s.c, D(s.p + s.c) >= D(s.p)))]


class LemmaG2(LemmaG1):
    target = '@verif/lemmas/c15_lemmas.py::lemma_G2'

    def env(self, vc):
        e = LemmaG1.env(self, vc)

        def use_G1(p, c):
            vc.oblige('call-pre[G1: p >= 0, c >= 0]', z3.And(p.t >= 0, c.t >= 0))
            vc.assume(G1(p.t, c.t))        # proved by LemmaG1
        e['use_G1'] = use_G1
        return e

    def requires(self, s):
        return [s.p >= 0, s.c >= 0, D(s.p + s.c) == D(s.p) + s.c]

    loops = {0: Loop(inv=lambda s, l: [z3.And(T(l.k) >= 0, T(l.k) <= s.c), D(s.p + T(l.k)) == D(s.p) + T(l.k), allnew(s.p, s.p + T(l.k))])}

    def ensures(self, s, result):
        return [('G2: all draws in [p, p+c) are new', allnew(s.p, s.p + s.c))]


class LemmaUnique(Contract):
    target = '@verif/lemmas/c15_lemmas.py::lemma_unique_position'
    prop = 'C15'
    fin = 5

    def env(self, vc):
        def use_G1(p, c):
            vc.assume(G1(T(p), T(c)))       # G1 is conditional on p >= 0, c >= 0; proved by LemmaG1

        def unfold_D(q):
            vc.oblige('call-pre[unfold_D at q >= 0]', T(q) >= 0)
            vc.assume(D_unfold(T(q)))

        def instantiate_new(p, q):
            # isnew(p) => draw(q) != draw(p) for 0 <= q < p   (instance of the quantifier inside isnew)
            vc.assume(z3.Implies(z3.And(isnew(T(p)), T(q) >= 0, T(q) < T(p)), draw(T(q)) != draw(T(p))))
        return dict(use_G1=use_G1, unfold_D=unfold_D, instantiate_new=instantiate_new)

    def setup(self, vc):
        vc.axioms = [D(0) == 0]
        i, p1, p2 = z3.Ints('i p1 p2')
        vc.fin_bounds.extend([i, p1, p2])
        return NS(i=i, p1=p1, p2=p2), (SInt(i), SInt(p1), SInt(p2)), {}

    def requires(self, s):
        return [s.i >= 0, s.p1 >= 1, s.p2 >= 1, D(s.p1) == s.i + 1, D(s.p1 - 1) == s.i, D(s.p2) == s.i + 1, D(s.p2 - 1) == s.i]

    def ensures(self, s, result):
        return [('G3: the position of the (i+1)-th distinct value is unique', s.p1 == s.p2)]


class LemmaDistinct(LemmaUnique):
    target = '@verif/lemmas/c15_lemmas.py::lemma_distinct'

    def setup(self, vc):
        vc.axioms = [D(0) == 0]
        i, j, pi, pj = z3.Ints('i j pi pj')
        vc.fin_bounds.extend([i, j, pi, pj])
        return NS(i=i, j=j, pi=pi, pj=pj), (SInt(i), SInt(j), SInt(pi), SInt(pj)), {}

    def requires(self, s):
        return [s.i >= 0, s.i < s.j, s.pi >= 1, s.pj >= 1, D(s.pi) == s.i + 1, D(s.pi - 1) == s.i, D(s.pj) == s.j + 1, D(s.pj - 1) == s.j]

    def ensures(self, s, result):
        return [('distinct indices get distinct sub-seeds', draw(s.pi - 1) != draw(s.pj - 1))]


CONTRACTS = [GetSubSeed('nocache'), GetSubSeed('cache'), LemmaG1(), LemmaG2(), LemmaUnique(), LemmaDistinct()]

TRUSTED_BASE = ['numpy RandomState.randint(high, size, dtype=uint32): chunk-invariant stream with values in [0, high) (sanity-tested each run)',
                'python set of numpy scalars: len = number of distinct values',
                'pyvc engine: proxies, loop cutting, spec tables (see DESIGN 2)']
ASSUMPTIONS = ['A-INT: integers are mathematical', 'termination of the drawing loop is not proved (probabilistic for index close to high)',
               'A-LOG: logging calls have no effect']
NOT_PROVED = []


def sanity():
    import numpy as np
    out = []
    a = np.random.RandomState(123).randint(1000, size=7, dtype='uint32')
    rs = np.random.RandomState(123)
    b = np.concatenate([rs.randint(1000, size=3, dtype='uint32'), rs.randint(1000, size=4, dtype='uint32')])
    out.append(('randint uint32 chunk invariance', bool((a == b).all())))
    out.append(('randint range', bool((np.random.RandomState(5).randint(3, size=200, dtype='uint32') < 3).all())))
    s = set()
    s.update(np.array([1, 1, 2], dtype='uint32'))
    out.append(('set of numpy scalars counts distinct values', len(s) == 2))
    return out


def bounded(tier, seed):
    from bounded import c15 as b
    return [b.run(tier, seed)]


_replay_cache = {}


def replay_refuted(cname, rf):
    """a refuted obligation of get_sub_seed: look for a failing input of the executable contract on the real function"""
    from bounded import c15 as b
    if 'r' in _replay_cache:
        return _replay_cache['r']
    _replay_cache['r'] = r = _replay_search(b)
    return r


def _replay_search(b):
    r = b.run('thorough', 0, first_failure_only=True, high_max=5, seeds=16, L=3)
    if r['failures']:
        f = r['failures'][0]
        return dict(found=True, input=f['input'], observed=f['what'])
    return dict(found=False, searched=r['bound'], cases=r['cases'])


def replay_input(inp):
    from bounded import c15 as b
    return b.replay_input(inp)
